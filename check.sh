#!/bin/sh
# usage: ./check.sh <property-id> <quick|thorough>
# Rebuilds the checker if needed and decides the property's rules on /repo's current source.
cd "$(dirname "$0")" || exit 2
export GOFLAGS=-mod=mod GOPROXY=off GOSUMDB=off GOTOOLCHAIN=local GOWORK=off
unset GOWORK_FILE
mkdir -p bin
( cd checker && go build -o ../bin/svcheck ./cmd/svcheck ) || { echo "svcheck: build failed" >&2; exit 2; }
exec ./bin/svcheck -prop "$1" -tier "${2:-quick}"
