// Package arity implements I8: for every []string / string value derived from the
// command, the set of possible lengths (subset of {0..15, >=16}) along every path,
// refined by the conditions on len(x) that the code tests, and the obligations that
// every CONSTANT index / slice bound lies inside every possible length.
package arity

import (
	"fmt"
	"go/token"
	"go/types"
	"sort"
	"strings"

	"golang.org/x/tools/go/ssa"

	"svcheck/internal/world"
)

const ALL uint32 = 1<<17 - 1 // bits 0..15 exact lengths, bit 16 = ">= 16"

type root interface{} // "Command" (string) or ssa.Value (Parameter, FreeVar, Alloc, call result ...)

type tv struct {
	r   root
	off int
}

type state map[root]uint32

func (s state) clone() state {
	c := make(state, len(s))
	for k, v := range s {
		c[k] = v
	}
	return c
}

// Obligation is one constant index / slice-bound site.
type Obligation struct {
	Fn     *ssa.Function
	In     ssa.Instruction
	What   string // "params.Command[3]" ...
	Need   int    // minimum length required
	OK     bool
	Bad    []int // possible lengths that violate it
	Decide bool  // false = data-dependent index (not decided by design)
}

type Analyzer struct {
	W         *world.World
	paramMask map[*ssa.Parameter]uint32
	fvMask    map[*ssa.FreeVar]uint32
	keySum    map[*ssa.Function]uint32 // key function -> lengths for which a nil error is returned
	entry     map[*ssa.Function]uint32 // entry mask for the "Command" root of handlers
	fixedLen  map[ssa.Value]int
	retMask   map[*ssa.Function]uint32 // lengths of a []string result (single-result helpers)
	changed   bool
	Obs       []Obligation
	fns       []*ssa.Function
	seeded    map[*ssa.Parameter]bool
	// paramTracked: some call site passes a tracked (command-derived or otherwise length-tracked) value;
	// untrackedArg: number of call-site arguments the analysis could not track
	paramTracked map[*ssa.Parameter]bool
	untrackedArg map[*ssa.Parameter]int
}

func isStrSlice(t types.Type) bool {
	sl, ok := t.Underlying().(*types.Slice)
	if !ok {
		return false
	}
	b, ok := sl.Elem().Underlying().(*types.Basic)
	return ok && b.Kind() == types.String
}

func isString(t types.Type) bool {
	b, ok := t.Underlying().(*types.Basic)
	return ok && b.Info()&types.IsString != 0
}

func constInt(v ssa.Value) (int, bool) {
	i, ok := world.ConstInt(v)
	return int(i), ok
}

func isCommandField(v ssa.Value) bool {
	switch x := v.(type) {
	case *ssa.UnOp:
		if x.Op != token.MUL {
			return false
		}
		fa, ok := x.X.(*ssa.FieldAddr)
		return ok && world.FieldName(fa) == "Command" && world.TypeIs(fa.X.Type(), "/internal", "HandlerFuncParams")
	case *ssa.Field:
		if !world.TypeIs(x.X.Type(), "/internal", "HandlerFuncParams") {
			return false
		}
		st := x.X.Type().Underlying().(*types.Struct)
		return world.CanonField(st.Field(x.Field)) == "Command"
	}
	return false
}

// singleStore: alloc has exactly one Store (declared-and-initialised local).
func singleStore(al *ssa.Alloc) (ssa.Value, bool) {
	var val ssa.Value
	n := 0
	for _, r := range *al.Referrers() {
		if st, ok := r.(*ssa.Store); ok && st.Addr == ssa.Value(al) {
			n++
			val = st.Val
		}
	}
	return val, n == 1
}

func (a *Analyzer) track(v ssa.Value) (tv, bool) { return a.track2(v, map[ssa.Value]bool{}) }

func (a *Analyzer) track2(v ssa.Value, vis map[ssa.Value]bool) (tv, bool) {
	if vis[v] {
		return tv{}, false
	}
	vis[v] = true
	defer delete(vis, v)
	if isCommandField(v) {
		return tv{"Command", 0}, true
	}
	switch x := v.(type) {
	case *ssa.Parameter:
		if isStrSlice(x.Type()) || isString(x.Type()) {
			return tv{x, 0}, true
		}
	case *ssa.FreeVar:
		// captured variable: *[]string / *string (address of the enclosing function's local)
		if pt, ok := x.Type().(*types.Pointer); ok && (isStrSlice(pt.Elem()) || isString(pt.Elem())) {
			return tv{x, 0}, true
		}
		if isStrSlice(x.Type()) || isString(x.Type()) {
			return tv{x, 0}, true
		}
	case *ssa.UnOp:
		if x.Op == token.MUL {
			switch p := x.X.(type) {
			case *ssa.Alloc:
				if !(isStrSlice(x.Type()) || isString(x.Type())) {
					return tv{}, false
				}
				if val, ok := singleStore(p); ok {
					// escaping local assigned once: same lengths as the assigned value, keyed by the alloc
					if t, ok := a.track2(val, vis); ok && t.off == 0 {
						if _, isAlloc := t.r.(*ssa.Alloc); !isAlloc {
							return t, true
						}
					}
					return tv{p, 0}, true
				}
				return tv{}, false
			case *ssa.FreeVar:
				return a.track2(p, vis)
			}
		}
	case *ssa.Slice:
		if !isStrSlice(x.Type()) && !isString(x.Type()) {
			return tv{}, false
		}
		if al, ok := x.X.(*ssa.Alloc); ok {
			if arr, ok := al.Type().Underlying().(*types.Pointer).Elem().Underlying().(*types.Array); ok && x.Low == nil && x.High == nil {
				a.fixedLen[x] = int(arr.Len())
				return tv{x, 0}, true
			}
		}
		base, ok := a.track2(x.X, vis)
		if !ok {
			return tv{}, false
		}
		lo := 0
		if x.Low != nil {
			c, ok := constInt(x.Low)
			if !ok {
				return tv{}, false
			}
			lo = c
		}
		if x.High != nil {
			if hi, ok := constInt(x.High); ok {
				a.fixedLen[x] = hi - lo
				return tv{x, 0}, true
			}
			return tv{}, false
		}
		return tv{base.r, base.off + lo}, true
	case *ssa.Phi:
		var first tv
		n := 0
		for _, e := range x.Edges {
			if vis[e] {
				continue
			}
			t, ok := a.track2(e, vis)
			if !ok {
				return tv{}, false
			}
			if n == 0 {
				first = t
			} else if t != first {
				return tv{}, false
			}
			n++
		}
		return first, n > 0
	case *ssa.Call:
		if isStrSlice(x.Type()) || isString(x.Type()) {
			return tv{x, 0}, true
		}
	case *ssa.Extract, *ssa.Lookup, *ssa.Index:
		if isString(v.Type()) || isStrSlice(v.Type()) {
			return tv{v, 0}, true
		}
	}
	if isString(v.Type()) {
		if _, isConst := v.(*ssa.Const); !isConst {
			return tv{v, 0}, true
		}
	}
	return tv{}, false
}

func (a *Analyzer) defMask(fn *ssa.Function, r root) uint32 {
	switch x := r.(type) {
	case string:
		for p := fn; p != nil; p = p.Parent() {
			if m, ok := a.entry[p]; ok {
				return m
			}
		}
		return ALL
	case *ssa.Parameter:
		if m, ok := a.paramMask[x]; ok {
			return m
		}
		return ALL
	case *ssa.FreeVar:
		if m, ok := a.fvMask[x]; ok {
			return m
		}
		return ALL
	case *ssa.Call:
		if f := x.Call.StaticCallee(); f != nil {
			if f.String() == "strings.Split" || f.String() == "strings.SplitN" {
				return ALL &^ 1 // Split returns at least one element for a non-empty separator
			}
			if m, ok := a.retMask[f]; ok {
				return m
			}
		}
		return ALL
	case ssa.Value:
		if n, ok := a.fixedLen[x]; ok {
			if n >= 16 {
				return 1 << 16
			}
			if n < 0 {
				return ALL
			}
			return 1 << uint(n)
		}
	}
	return ALL
}

func (a *Analyzer) lenOf(v ssa.Value) (tv, bool) {
	c, ok := v.(*ssa.Call)
	if !ok {
		return tv{}, false
	}
	b, ok := c.Call.Value.(*ssa.Builtin)
	if !ok || b.Name() != "len" {
		return tv{}, false
	}
	return a.track(c.Call.Args[0])
}

// shift: lengths of root -> lengths of root[off:]
func shift(m uint32, off int) uint32 {
	if off == 0 {
		return m
	}
	var o uint32
	for n := 0; n <= 16; n++ {
		if m&(1<<uint(n)) == 0 {
			continue
		}
		if n == 16 {
			o |= 1 << 16
			for k := 16 - off; k < 16; k++ {
				if k >= 0 {
					o |= 1 << uint(k)
				}
			}
			continue
		}
		if n-off >= 0 {
			o |= 1 << uint(n-off)
		}
	}
	return o
}

// unshift: lengths of root[off:] -> lengths of root
func unshift(m uint32, off int) uint32 {
	if off == 0 {
		return m
	}
	var o uint32
	for l := 0; l <= 16; l++ {
		if m&(1<<uint(l)) == 0 {
			continue
		}
		if l == 16 || l+off >= 16 {
			o |= 1 << 16
		} else {
			o |= 1 << uint(l+off)
		}
	}
	return o
}

// sat: set of ROOT lengths n for which (n-off) op c holds.
func sat(op token.Token, off, c int) uint32 {
	var m uint32
	for n := 0; n <= 16; n++ {
		l := n - off
		ok := false
		switch op {
		case token.LSS:
			ok = l < c
		case token.LEQ:
			ok = l <= c
		case token.GTR:
			ok = l > c
		case token.GEQ:
			ok = l >= c
		case token.EQL:
			ok = l == c
		case token.NEQ:
			ok = l != c
		}
		if n == 16 {
			switch op {
			case token.GTR, token.GEQ, token.NEQ:
				ok = true
			case token.LSS, token.LEQ, token.EQL:
				ok = c+off >= 16
			}
		}
		if ok {
			m |= 1 << uint(n)
		}
	}
	return m
}

var negOp = map[token.Token]token.Token{token.LSS: token.GEQ, token.LEQ: token.GTR, token.GTR: token.LEQ, token.GEQ: token.LSS, token.EQL: token.NEQ, token.NEQ: token.EQL}
var flipOp = map[token.Token]token.Token{token.LSS: token.GTR, token.LEQ: token.GEQ, token.GTR: token.LSS, token.GEQ: token.LEQ, token.EQL: token.EQL, token.NEQ: token.NEQ}

func unsat(op token.Token, off, c int) uint32 { return sat(negOp[op], off, c) }

// cond analyses an If condition: root and masks for the true / false edge.
func (a *Analyzer) cond(fn *ssa.Function, v ssa.Value) (root, uint32, uint32, bool) {
	switch x := v.(type) {
	case *ssa.BinOp:
		if _, ok := negOp[x.Op]; !ok {
			return nil, 0, 0, false
		}
		if t, ok := a.lenOf(x.X); ok {
			if c, ok := constInt(x.Y); ok {
				return t.r, sat(x.Op, t.off, c), unsat(x.Op, t.off, c), true
			}
		}
		if t, ok := a.lenOf(x.Y); ok {
			if c, ok := constInt(x.X); ok {
				return t.r, sat(flipOp[x.Op], t.off, c), unsat(flipOp[x.Op], t.off, c), true
			}
		}
		// s == "" / s != ""
		if x.Op == token.EQL || x.Op == token.NEQ {
			for _, pr := range [][2]ssa.Value{{x.X, x.Y}, {x.Y, x.X}} {
				if s, ok := world.ConstString(pr[1]); ok && s == "" && isString(pr[0].Type()) {
					if t, ok := a.track(pr[0]); ok {
						return t.r, sat(x.Op, t.off, 0), unsat(x.Op, t.off, 0), true
					}
				}
			}
		}
		// (len(x) % 2) == / != c
		if rem, ok := x.X.(*ssa.BinOp); ok && rem.Op == token.REM {
			if t, ok := a.lenOf(rem.X); ok {
				if k, ok := constInt(rem.Y); ok && k == 2 {
					if c, ok := constInt(x.Y); ok && (x.Op == token.EQL || x.Op == token.NEQ) {
						var even, odd uint32
						for n := 0; n <= 16; n++ {
							if n == 16 {
								even |= 1 << 16
								odd |= 1 << 16
							} else if n-t.off >= 0 && (n-t.off)%2 == 0 {
								even |= 1 << uint(n)
							} else {
								odd |= 1 << uint(n)
							}
						}
						tm, fm := even, odd
						if c != 0 {
							tm, fm = odd, even
						}
						if x.Op == token.NEQ {
							tm, fm = fm, tm
						}
						return t.r, tm, fm, true
					}
				}
			}
		}
	case *ssa.UnOp:
		if x.Op == token.NOT {
			r, tm, fm, ok := a.cond(fn, x.X)
			return r, fm, tm, ok
		}
	case *ssa.Call:
		// slices.Contains([]int{...}, len(x))
		if f := x.Call.StaticCallee(); f != nil && strings.HasPrefix(f.String(), "slices.Contains[") && len(x.Call.Args) == 2 {
			if t, ok := a.lenOf(x.Call.Args[1]); ok {
				if sl, ok := x.Call.Args[0].(*ssa.Slice); ok {
					if al, ok := sl.X.(*ssa.Alloc); ok {
						var tm uint32
						good := true
						for _, r := range *al.Referrers() {
							if ia, ok := r.(*ssa.IndexAddr); ok {
								for _, r2 := range *ia.Referrers() {
									if st, ok := r2.(*ssa.Store); ok {
										if c, ok := constInt(st.Val); ok {
											tm |= sat(token.EQL, t.off, c)
										} else {
											good = false
										}
									}
								}
							}
						}
						if good {
							return t.r, tm, (ALL &^ tm) | 1<<16, true
						}
					}
				}
			}
		}
	}
	return nil, 0, 0, false
}

func (a *Analyzer) get(fn *ssa.Function, st state, r root) uint32 {
	if m, ok := st[r]; ok {
		return m
	}
	return a.defMask(fn, r)
}

func (a *Analyzer) run(fn *ssa.Function, record bool) {
	if fn.Blocks == nil {
		return
	}
	in := map[*ssa.BasicBlock]state{}
	in[fn.Blocks[0]] = state{}
	// transfer within a block: a constant index that executed implies the length
	blockOut := func(b *ssa.BasicBlock, st state) state {
		st = st.clone()
		for _, ins := range b.Instrs {
			switch x := ins.(type) {
			case *ssa.IndexAddr:
				if t, ok := a.track(x.X); ok {
					if c, ok := constInt(x.Index); ok {
						st[t.r] = a.get(fn, st, t.r) & sat(token.GEQ, t.off, c+1)
					}
				}
			case *ssa.Index:
				if isString(x.X.Type()) {
					if t, ok := a.track(x.X); ok {
						if c, ok := constInt(x.Index); ok {
							st[t.r] = a.get(fn, st, t.r) & sat(token.GEQ, t.off, c+1)
						}
					}
				}
			case *ssa.Lookup:
				if isString(x.X.Type()) {
					if t, ok := a.track(x.X); ok {
						if c, ok := constInt(x.Index); ok {
							st[t.r] = a.get(fn, st, t.r) & sat(token.GEQ, t.off, c+1)
						}
					}
				}
			case *ssa.Slice:
				if t, ok := a.track(x.X); ok {
					n := -1
					if x.High != nil {
						if c, ok := constInt(x.High); ok {
							n = c
						}
					} else if x.Low != nil {
						if c, ok := constInt(x.Low); ok {
							n = c
						}
					}
					if n > 0 {
						st[t.r] = a.get(fn, st, t.r) & sat(token.GEQ, t.off, n)
					}
				}
			}
		}
		return st
	}
	edgeState := func(b *ssa.BasicBlock, si int, st state) state {
		iff := world.IfOf(b)
		if iff == nil {
			return st
		}
		if r, tm, fm, ok := a.cond(fn, world.CondValue(iff)); ok {
			st = st.clone()
			m := a.get(fn, st, r)
			if si == 0 {
				st[r] = m & tm
			} else {
				st[r] = m & fm
			}
			return st
		}
		// err == nil edge after keyFunc(tracked)
		var call *ssa.Call
		e := world.ErrNilEdge(b, func(v ssa.Value) bool {
			c, ok := v.(*ssa.Call)
			if !ok {
				return false
			}
			f := c.Call.StaticCallee()
			if f == nil {
				return false
			}
			_, has := a.keySum[f]
			if has && len(c.Call.Args) == 1 {
				call = c
				return true
			}
			return false
		})
		if e == si && call != nil {
			if t, ok := a.track(call.Call.Args[0]); ok {
				st = st.clone()
				sum := a.keySum[call.Call.StaticCallee()]
				st[t.r] = a.get(fn, st, t.r) & unshift(sum, t.off)
			}
		}
		return st
	}
	merge := func(dst state, src state) (state, bool) {
		ch := false
		for r, old := range dst {
			m, ok := src[r]
			if !ok {
				m = a.defMask(fn, r)
			}
			if old|m != old {
				dst[r] = old | m
				ch = true
			}
		}
		// roots only in src: dst has the default (top) already
		return dst, ch
	}
	work := []*ssa.BasicBlock{fn.Blocks[0]}
	for iter := 0; len(work) > 0 && iter < 20000; iter++ {
		b := work[0]
		work = work[1:]
		out := blockOut(b, in[b])
		for si, s := range b.Succs {
			es := edgeState(b, si, out)
			if cur, ok := in[s]; ok {
				if _, ch := merge(cur, es); ch {
					work = append(work, s)
				}
			} else {
				in[s] = es.clone()
				work = append(work, s)
			}
		}
	}
	_, isKey := a.keySum[fn]
	for _, b := range fn.Blocks {
		st0, ok := in[b]
		if !ok {
			continue
		}
		st := st0.clone()
		for _, ins := range b.Instrs {
			need := func(t tv, minLen int, what string) {
				if !record {
					return
				}
				// a helper parameter that only ever receives values the analysis does not track (slices
				// of stored data, ...) is data, not the command: its indices are value-level
				if pr, isP := t.r.(*ssa.Parameter); isP && !a.seeded[pr] && a.untrackedArg[pr] > 0 {
					if record {
						a.Obs = append(a.Obs, Obligation{Fn: fn, In: ins, What: a.rootName(t) + what, Decide: false})
					}
					return
				}
				m := a.get(fn, st, t.r)
				var bad []int
				for n := 0; n < 16; n++ {
					if m&(1<<uint(n)) != 0 && n-t.off < minLen {
						bad = append(bad, n)
					}
				}
				a.Obs = append(a.Obs, Obligation{Fn: fn, In: ins, What: a.rootName(t) + what, Need: minLen + t.off, OK: len(bad) == 0, Bad: bad, Decide: true})
			}
			skip := func(t tv, what string) {
				if record {
					a.Obs = append(a.Obs, Obligation{Fn: fn, In: ins, What: a.rootName(t) + what, Decide: false})
				}
			}
			switch x := ins.(type) {
			case *ssa.IndexAddr:
				if t, ok := a.track(x.X); ok {
					if c, ok := constInt(x.Index); ok {
						need(t, c+1, fmt.Sprintf("[%d]", c))
						st[t.r] = a.get(fn, st, t.r) & sat(token.GEQ, t.off, c+1)
					} else {
						skip(t, "[i]")
					}
				}
			case *ssa.Index:
				if isString(x.X.Type()) {
					if t, ok := a.track(x.X); ok {
						if c, ok := constInt(x.Index); ok {
							need(t, c+1, fmt.Sprintf("[%d]", c))
							st[t.r] = a.get(fn, st, t.r) & sat(token.GEQ, t.off, c+1)
						} else {
							skip(t, "[i]")
						}
					}
				}
			case *ssa.Lookup:
				if isString(x.X.Type()) {
					if t, ok := a.track(x.X); ok {
						if c, ok := constInt(x.Index); ok {
							need(t, c+1, fmt.Sprintf("[%d]", c))
							st[t.r] = a.get(fn, st, t.r) & sat(token.GEQ, t.off, c+1)
						} else {
							skip(t, "[i]")
						}
					}
				}
			case *ssa.Slice:
				if t, ok := a.track(x.X); ok {
					lo, hi := 0, -1
					loConst, hiConst := x.Low == nil, x.High == nil
					if x.Low != nil {
						if c, ok := constInt(x.Low); ok {
							lo, loConst = c, true
						}
					}
					if x.High != nil {
						if c, ok := constInt(x.High); ok {
							hi, hiConst = c, true
						}
					}
					switch {
					case hi >= 0 && hiConst:
						need(t, hi, fmt.Sprintf("[%d:%d]", lo, hi))
						st[t.r] = a.get(fn, st, t.r) & sat(token.GEQ, t.off, hi)
					case lo > 0 && loConst && x.High == nil:
						need(t, lo, fmt.Sprintf("[%d:]", lo))
						st[t.r] = a.get(fn, st, t.r) & sat(token.GEQ, t.off, lo)
					case !loConst || !hiConst:
						skip(t, "[i:j]")
					}
				}
			case *ssa.MakeClosure:
				cf := x.Fn.(*ssa.Function)
				for i, bnd := range x.Bindings {
					if i >= len(cf.FreeVars) {
						break
					}
					fv := cf.FreeVars[i]
					var m uint32 = ALL
					// binding is the address of a local (alloc) or a value
					if al, ok := bnd.(*ssa.Alloc); ok {
						if val, ok := singleStore(al); ok {
							if t, ok := a.track(val); ok {
								m = shift(a.get(fn, st, t.r), t.off)
							}
						}
					} else if t, ok := a.track(bnd); ok {
						m = shift(a.get(fn, st, t.r), t.off)
					}
					old, had := a.fvMask[fv]
					if !had || old|m != old {
						a.fvMask[fv] = old | m
						a.changed = true
					}
				}
			case ssa.CallInstruction:
				for _, f := range a.calleesOf(x) {
					if !world.InModule(f) || f.Blocks == nil {
						continue
					}
					args := x.Common().Args
					params := f.Params
					if x.Common().IsInvoke() {
						params = params[1:]
					}
					for i, arg := range args {
						if i >= len(params) {
							break
						}
						p := params[i]
						if !isStrSlice(p.Type()) && !isString(p.Type()) {
							continue
						}
						if a.seeded[p] && x.Common().StaticCallee() == nil {
							// registered key function called through the table (dynamic dispatch): its
							// argument length is fixed by the dispatcher's contract (len >= 1, >= 2 for
							// sub-commands), not by the merged view of every KeyExtractionFunc call site
							continue
						}
						var m uint32 = ALL
						if t, ok := a.track(arg); ok {
							m = shift(a.get(fn, st, t.r), t.off)
							if pr, isP := t.r.(*ssa.Parameter); !isP || a.paramTracked[pr] || a.seeded[pr] || a.untrackedArg[pr] == 0 {
								if !a.paramTracked[p] {
									a.paramTracked[p] = true
									a.changed = true
								}
							}
						} else {
							a.untrackedArg[p]++
						}
						old, had := a.paramMask[p]
						if !had || old|m != old {
							a.paramMask[p] = old | m
							a.changed = true
						}
					}
				}
			case *ssa.Return:
				rv := world.RetVals(x)
				if isKey && len(rv) == 2 && world.IsNilConst(rv[1]) {
					m := a.get(fn, st, fn.Params[0])
					if a.keySum[fn]|m != a.keySum[fn] {
						a.keySum[fn] |= m
						a.changed = true
					}
				}
				if len(rv) >= 1 && isStrSlice(rv[0].Type()) {
					var m uint32 = ALL
					if t, ok := a.track(rv[0]); ok {
						m = shift(a.get(fn, st, t.r), t.off)
					}
					old, had := a.retMask[fn]
					if !had || old|m != old {
						a.retMask[fn] = old | m
						a.changed = true
					}
				}
			}
		}
	}
}

func (a *Analyzer) calleesOf(c ssa.CallInstruction) []*ssa.Function {
	if f := c.Common().StaticCallee(); f != nil {
		return []*ssa.Function{f}
	}
	if mc, ok := c.Common().Value.(*ssa.MakeClosure); ok {
		return []*ssa.Function{mc.Fn.(*ssa.Function)}
	}
	if world.AccessorCall(c) != "" {
		return nil
	}
	return a.W.Callees(c)
}

func (a *Analyzer) rootName(t tv) string {
	var s string
	switch x := t.r.(type) {
	case string:
		s = "params." + x
	case *ssa.Parameter:
		s = x.Name()
	case *ssa.FreeVar:
		s = x.Name()
	case *ssa.Alloc:
		s = x.Comment
	case ssa.Value:
		s = "<" + strings.TrimPrefix(fmt.Sprintf("%T", x), "*ssa.") + ":" + shortType(x.Type()) + ">"
		switch c := x.(type) {
		case *ssa.Call:
			if f := c.Call.StaticCallee(); f != nil {
				s = f.Name() + "(…)"
			}
		case *ssa.UnOp:
			if al, ok := c.X.(*ssa.Alloc); ok && al.Comment != "" {
				s = al.Comment
			}
			if ia, ok := c.X.(*ssa.IndexAddr); ok {
				if bt, ok := a.track(ia.X); ok {
					s = a.rootName(bt) + "[i]"
				} else {
					s = "<slice element>"
				}
			}
		case *ssa.Extract:
			if ta, ok := c.Tuple.(*ssa.TypeAssert); ok {
				s = "<" + shortType(ta.AssertedType) + " from type assertion>"
			} else if _, ok := c.Tuple.(*ssa.Next); ok {
				s = "<range element>"
			}
		}
	}
	if t.off > 0 {
		s += fmt.Sprintf("[%d:]", t.off)
	}
	return s
}

func shortType(t types.Type) string { return strings.ReplaceAll(t.String(), world.Mod+"/", "") }

// MaskString renders a length set.
func MaskString(m uint32) string {
	var s []string
	for n := 0; n < 16; n++ {
		if m&(1<<uint(n)) != 0 {
			s = append(s, fmt.Sprint(n))
		}
	}
	if m&(1<<16) != 0 {
		s = append(s, "16+")
	}
	return "{" + strings.Join(s, ",") + "}"
}

// Run analyses the module. handlers: entry masks for handler functions (Command root);
// keyFuncs: key-extraction functions with the minimum length their parameter has when
// called by the authorization layer.
func Run(w *world.World, handlers map[*ssa.Function]uint32, keyFuncs map[*ssa.Function]uint32) *Analyzer {
	a := &Analyzer{W: w, paramMask: map[*ssa.Parameter]uint32{}, fvMask: map[*ssa.FreeVar]uint32{}, keySum: map[*ssa.Function]uint32{},
		entry: handlers, fixedLen: map[ssa.Value]int{}, retMask: map[*ssa.Function]uint32{}, seeded: map[*ssa.Parameter]bool{}, paramTracked: map[*ssa.Parameter]bool{}, untrackedArg: map[*ssa.Parameter]int{}}
	for _, fn := range w.ModFns {
		pos := w.Pos(fn.Pos())
		if strings.Contains(pos, "_test.go") || strings.Contains(pos, "volumes/") || strings.Contains(pos, "test_helpers") {
			continue
		}
		a.fns = append(a.fns, fn)
	}
	sort.Slice(a.fns, func(i, j int) bool { return a.fns[i].String() < a.fns[j].String() })
	for f, m := range keyFuncs {
		if len(f.Params) == 1 && isStrSlice(f.Params[0].Type()) {
			a.keySum[f] = 0
			a.paramMask[f.Params[0]] = m
			a.seeded[f.Params[0]] = true
		}
	}
	// functions whose address is taken / exported API: parameters may be anything
	called := map[*ssa.Function]bool{}
	for _, fn := range a.fns {
		for _, c := range world.Calls(fn) {
			for _, f := range a.calleesOf(c) {
				called[f] = true
			}
		}
	}
	for _, fn := range a.fns {
		if !called[fn] || (fn.Object() != nil && fn.Object().Exported() && world.ShortPkg(world.PkgOf(fn)) == "sugardb") {
			for _, p := range fn.Params {
				if _, seeded := a.paramMask[p]; !seeded && (isStrSlice(p.Type()) || isString(p.Type())) {
					a.paramMask[p] = ALL
				}
			}
		}
	}
	for iter := 0; iter < 12; iter++ {
		a.changed = false
		for _, fn := range a.fns {
			a.run(fn, false)
		}
		if !a.changed {
			break
		}
	}
	for _, fn := range a.fns {
		a.run(fn, true)
	}
	return a
}

// KeySummary returns the arity set for which the key function returns a nil error.
func (a *Analyzer) KeySummary(f *ssa.Function) (uint32, bool) {
	m, ok := a.keySum[f]
	return m, ok
}
