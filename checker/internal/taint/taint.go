// Package taint implements the store-reference taint (I6): which SSA values are, or
// point into, objects reachable from the keyspace store, and which instructions write
// through them. It is context-sensitive per (function, parameter marks) with summaries.
package taint

import (
	"fmt"
	"go/token"
	"go/types"
	"sort"
	"strings"

	"golang.org/x/tools/go/ssa"

	"svcheck/internal/world"
)

const (
	S uint8 = 1 << iota // is, or points into, an object reachable from the store
	H                   // fresh local container holding S references
	R                   // the result map of GetValues itself (fresh map whose values are S)
	T                   // the value IS the top-level value stored under a key (values[key]), not something inside it
)

// Event is a write through a store-derived reference.
type Event struct {
	Kind  string // store | mapupdate | delete | clear | append | copy | stdlib:<name>
	In    ssa.Instruction
	Fn    *ssa.Function
	Chain []string // call chain from the root handler
}

// Assert is a type assertion whose operand is store-derived.
type Assert struct {
	TA *ssa.TypeAssert
	Fn *ssa.Function
}

// SetSite is a SetValues call with the entries it stores.
type SetSite struct {
	Call    ssa.CallInstruction
	Fn      *ssa.Function
	Entries []SetEntry
	Opaque  bool // the entries map is not a local literal whose updates are visible
}

type SetEntry struct {
	Update  *ssa.MapUpdate
	Key     ssa.Value
	Value   ssa.Value
	Bits    uint8
	Origins []ssa.Value // keys under which the stored (S) value was read; nil = unknown origin
	Unknown bool        // S value whose origin key could not be traced
}

// Result of analysing one root (handler).
type Result struct {
	Root      *ssa.Function
	Sites     map[ssa.Instruction]bool // instructions of Root that cause a write event on a store-derived object
	Events    []Event
	Asserts   []Assert
	SetSites  []SetSite
	Deletes   []ssa.CallInstruction // DeleteKey accessor calls (for the move idiom)
	Functions int
}

type mark struct {
	bits uint8
	org  []ssa.Value // origin keys (small set)
	unk  bool        // origin unknown
}

func (m *mark) clone() *mark {
	if m == nil {
		return nil
	}
	c := &mark{bits: m.bits, unk: m.unk}
	c.org = append(c.org, m.org...)
	return c
}

type ctxKey struct {
	fn *ssa.Function
	pm string
}

type summary struct {
	sites  map[ssa.Instruction]bool // instructions of this function that cause a write event (directly or in a callee)
	ret    []uint8
	events []Event
	assert []Assert
	sets   []SetSite
	dels   []ssa.CallInstruction
	busy   bool
}

// Engine analyses handlers on one loaded world.
type Engine struct {
	W    *world.World
	sums map[ctxKey]*summary
	memo map[*ssa.Function]*Result
}

func New(w *world.World) *Engine {
	return &Engine{W: w, sums: map[ctxKey]*summary{}, memo: map[*ssa.Function]*Result{}}
}

// RefType reports whether values of type t can alias store memory.
func RefType(t types.Type) bool {
	switch u := t.Underlying().(type) {
	case *types.Pointer, *types.Map, *types.Slice, *types.Interface, *types.Chan, *types.Signature:
		return true
	case *types.Struct:
		for i := 0; i < u.NumFields(); i++ {
			if RefType(u.Field(i).Type()) {
				return true
			}
		}
	case *types.Tuple:
		for i := 0; i < u.Len(); i++ {
			if RefType(u.At(i).Type()) {
				return true
			}
		}
	case *types.Array:
		return RefType(u.Elem())
	case *types.Basic:
		return false
	default:
		return true // opaque ssa types (range iterators)
	}
	return false
}

var inplaceStd = []string{"sort.", "slices.Sort", "slices.Reverse", "slices.Delete", "slices.Insert", "slices.Compact", "slices.Replace", "slices.Grow", "slices.Clip"}

func isInplaceStd(name string) bool {
	for _, p := range inplaceStd {
		if strings.HasPrefix(name, p) {
			return true
		}
	}
	return false
}

// Analyze returns the analysis of root (memoised).
func (e *Engine) Analyze(root *ssa.Function) *Result {
	if r, ok := e.memo[root]; ok {
		return r
	}
	s := e.analyze(root, nil, []string{})
	res := &Result{Root: root, Sites: s.sites, Events: s.events, Asserts: s.assert, SetSites: s.sets, Deletes: s.dels}
	sort.SliceStable(res.Events, func(i, j int) bool { return res.Events[i].In.Pos() < res.Events[j].In.Pos() })
	e.memo[root] = res
	return res
}

func pmString(pm []uint8) string {
	b := make([]byte, len(pm))
	for i, x := range pm {
		b[i] = '0' + x
	}
	return string(b)
}

func evKey(ev Event) string { return fmt.Sprintf("%p|%s", ev.In, ev.Kind) }

func (e *Engine) analyze(fn *ssa.Function, pm []uint8, stack []string) *summary {
	key := ctxKey{fn, pmString(pm)}
	if s, ok := e.sums[key]; ok {
		return s
	}
	s := &summary{busy: true}
	e.sums[key] = s
	if fn.Blocks == nil {
		s.busy = false
		return s
	}
	stack = append(append([]string{}, stack...), world.FuncName(fn))
	self := world.FuncName(fn)
	if len(stack) > 40 {
		s.busy = false
		return s
	}
	for iter := 0; iter < 8; iter++ {
		tm := map[ssa.Value]*mark{}
		for i, p := range fn.Params {
			if i < len(pm) && pm[i] != 0 {
				tm[p] = &mark{bits: pm[i], unk: true}
			}
		}
		for i, fv := range fn.FreeVars {
			j := len(fn.Params) + i
			if j < len(pm) && pm[j] != 0 {
				tm[fv] = &mark{bits: pm[j], unk: true}
			}
		}
		var evs []Event
		seenEv := map[string]bool{}
		sites := map[ssa.Instruction]bool{}
		var curCall ssa.Instruction
		addEv := func(in ssa.Instruction, kind string) {
			sites[in] = true
			ev := Event{Kind: kind, In: in, Fn: fn, Chain: []string{self}}
			if k := evKey(ev); !seenEv[k] {
				seenEv[k] = true
				evs = append(evs, ev)
			}
		}
		addEvs := func(more []Event) {
			if len(more) > 0 && curCall != nil {
				sites[curCall] = true
			}
			for _, ev := range more {
				if k := evKey(ev); !seenEv[k] {
					seenEv[k] = true
					ev.Chain = append([]string{self}, ev.Chain...)
					evs = append(evs, ev)
				}
			}
		}
		var asserts []Assert
		seenTA := map[*ssa.TypeAssert]bool{}
		var sets []SetSite
		var dels []ssa.CallInstruction
		var ret []uint8
		changed := true
		get := func(v ssa.Value) *mark { return tm[v] }
		bits := func(v ssa.Value) uint8 {
			if m := tm[v]; m != nil {
				return m.bits
			}
			return 0
		}
		set := func(v ssa.Value, b uint8, from *mark, extraOrg ssa.Value) {
			if b == 0 || v == nil || !RefType(v.Type()) {
				return
			}
			m := tm[v]
			if m == nil {
				m = &mark{}
				tm[v] = m
			}
			if m.bits|b != m.bits {
				m.bits |= b
				changed = true
			}
			addOrg := func(o ssa.Value) {
				for _, x := range m.org {
					if x == o || world.SameExpr(x, o) {
						return
					}
				}
				if len(m.org) < 8 {
					m.org = append(m.org, o)
					changed = true
				} else if !m.unk {
					m.unk = true
					changed = true
				}
			}
			if from != nil {
				for _, o := range from.org {
					addOrg(o)
				}
				if from.unk && !m.unk {
					m.unk = true
					changed = true
				}
			}
			if extraOrg != nil {
				addOrg(extraOrg)
			}
		}
		// deref: loading from an S / H / R container yields S
		deref := func(m *mark) uint8 {
			if m != nil && m.bits != 0 {
				return S
			}
			return 0
		}
		for changed {
			changed = false
			ret = nil
			for _, b := range fn.Blocks {
				for _, in := range b.Instrs {
					switch x := in.(type) {
					case *ssa.Phi:
						for _, ed := range x.Edges {
							if m := get(ed); m != nil {
								set(x, m.bits, m, nil)
							}
						}
					case *ssa.UnOp:
						if x.Op == token.MUL {
							if m := get(x.X); m != nil {
								set(x, deref(m), m, nil)
							}
						}
					case *ssa.FieldAddr:
						if m := get(x.X); m != nil {
							set(x, m.bits&^(R|T), m, nil)
						}
					case *ssa.Field:
						if m := get(x.X); m != nil {
							set(x, m.bits&^(R|T), m, nil)
						}
					case *ssa.IndexAddr:
						if m := get(x.X); m != nil {
							set(x, m.bits&^(R|T), m, nil)
						}
					case *ssa.Index:
						if m := get(x.X); m != nil {
							set(x, deref(m), m, nil)
						}
					case *ssa.Lookup:
						if m := get(x.X); m != nil {
							if m.bits&R != 0 {
								// values[key]: S with origin key
								set(x, S|T, nil, x.Index)
							} else {
								set(x, deref(m), m, nil)
							}
						}
					case *ssa.Range:
						if m := get(x.X); m != nil {
							set(x, m.bits, m, nil)
						}
					case *ssa.Next:
						if m := get(x.Iter); m != nil {
							if m.bits&R != 0 {
								set(x, S|T, nil, x) // origin = this Next (its #1 extract is the key)
							} else {
								set(x, deref(m), m, nil)
							}
						}
					case *ssa.Extract:
						if m := get(x.Tuple); m != nil {
							set(x, m.bits, m, nil)
						}
					case *ssa.TypeAssert:
						if m := get(x.X); m != nil {
							set(x, m.bits, m, nil)
							if m.bits&T != 0 && !seenTA[x] {
								seenTA[x] = true
								asserts = append(asserts, Assert{x, fn})
							}
						}
					case *ssa.ChangeType:
						if m := get(x.X); m != nil {
							set(x, m.bits, m, nil)
						}
					case *ssa.ChangeInterface:
						if m := get(x.X); m != nil {
							set(x, m.bits, m, nil)
						}
					case *ssa.MakeInterface:
						if m := get(x.X); m != nil {
							set(x, m.bits, m, nil)
						}
					case *ssa.Convert:
						if m := get(x.X); m != nil {
							set(x, m.bits, m, nil)
						}
					case *ssa.Slice:
						if m := get(x.X); m != nil {
							set(x, m.bits&^(R|T), m, nil)
						}
					case *ssa.MakeClosure:
						for _, bnd := range x.Bindings {
							if m := get(bnd); m != nil {
								set(x, H, m, nil)
							}
						}
					case *ssa.Store:
						am := get(x.Addr)
						if am != nil && am.bits&S != 0 {
							addEv(x, "store")
						} else if vm := get(x.Val); vm != nil {
							base := x.Addr
							for {
								switch bb := base.(type) {
								case *ssa.IndexAddr:
									base = bb.X
									continue
								case *ssa.FieldAddr:
									base = bb.X
									continue
								}
								break
							}
							set(base, H, vm, nil)
							set(x.Addr, H, vm, nil)
						}
					case *ssa.MapUpdate:
						mm := get(x.Map)
						if mm != nil && mm.bits&S != 0 {
							addEv(x, "mapupdate")
						} else if vm := get(x.Value); vm != nil {
							set(x.Map, H, vm, nil)
						}
					case *ssa.Return:
						r := make([]uint8, len(x.Results))
						for i, rv := range world.RetVals(x) {
							r[i] = bits(rv)
							if r[i]&R != 0 {
								r[i] = (r[i] &^ R) | H
							}
						}
						ret = joinVec(ret, r)
					case ssa.CallInstruction:
						curCall = in
						e.call(fn, x, in, tm, get, bits, set, deref, addEv, addEvs, &asserts, seenTA, &sets, &dels, stack)
						curCall = nil
					}
				}
			}
		}
		same := fmt.Sprint(s.ret) == fmt.Sprint(ret) && len(s.events) == len(evs) && len(s.assert) == len(asserts)
		s.ret, s.events, s.assert, s.sets, s.dels, s.sites = ret, evs, asserts, sets, dels, sites
		if same && iter > 0 {
			break
		}
	}
	s.busy = false
	return s
}

func joinVec(a, b []uint8) []uint8 {
	if len(a) < len(b) {
		a = append(a, make([]uint8, len(b)-len(a))...)
	}
	for i := range b {
		a[i] |= b[i]
	}
	return a
}

func joinRet(r []uint8) uint8 {
	var m uint8
	for _, x := range r {
		m |= x
	}
	return m
}

func (e *Engine) call(fn *ssa.Function, x ssa.CallInstruction, in ssa.Instruction, tm map[ssa.Value]*mark,
	get func(ssa.Value) *mark, bits func(ssa.Value) uint8,
	set func(ssa.Value, uint8, *mark, ssa.Value), deref func(*mark) uint8,
	addEv func(ssa.Instruction, string), addEvs func([]Event),
	asserts *[]Assert, seenTA map[*ssa.TypeAssert]bool, sets *[]SetSite, dels *[]ssa.CallInstruction, stack []string) {

	com := x.Common()
	var resv ssa.Value
	if v, ok := in.(ssa.Value); ok {
		resv = v
	}
	merge := func(cs *summary) {
		addEvs(cs.events)
		for _, a := range cs.assert {
			if !seenTA[a.TA] {
				seenTA[a.TA] = true
				*asserts = append(*asserts, a)
			}
		}
		for _, ss := range cs.sets {
			dup := false
			for _, have := range *sets {
				if have.Call == ss.Call {
					dup = true
				}
			}
			if !dup {
				*sets = append(*sets, ss)
			}
		}
		for _, d := range cs.dels {
			dup := false
			for _, have := range *dels {
				if have == d {
					dup = true
				}
			}
			if !dup {
				*dels = append(*dels, d)
			}
		}
	}
	if b, ok := com.Value.(*ssa.Builtin); ok {
		switch b.Name() {
		case "append":
			m0 := get(com.Args[0])
			if m0 != nil && m0.bits&S != 0 {
				addEv(in, "append")
			}
			if m0 != nil {
				set(resv, m0.bits&^(R|T), m0, nil)
			}
			if len(com.Args) > 1 {
				if m1 := get(com.Args[1]); m1 != nil {
					// appending S elements (refs) makes the result a holder; appending the
					// elements of an S slice of non-reference elements copies them (no alias)
					if sl, ok := com.Args[1].Type().Underlying().(*types.Slice); ok && RefType(sl.Elem()) {
						set(resv, H, m1, nil)
					}
				}
			}
		case "delete", "clear":
			if m := get(com.Args[0]); m != nil && m.bits&S != 0 {
				addEv(in, b.Name())
			}
		case "copy":
			if m := get(com.Args[0]); m != nil && m.bits&S != 0 {
				addEv(in, "copy")
			}
		}
		return
	}
	if a := world.AccessorCall(x); a != "" {
		switch a {
		case "GetValues":
			if resv != nil {
				set(resv, R, nil, nil)
			}
		case "DeleteKey":
			dup := false
			for _, d := range *dels {
				if d == x {
					dup = true
				}
			}
			if !dup {
				*dels = append(*dels, x)
			}
		case "SetValues":
			site := SetSite{Call: x, Fn: fn}
			if len(com.Args) >= 2 {
				mv := com.Args[1]
				if _, isMake := mv.(*ssa.MakeMap); !isMake {
					site.Opaque = true
				}
				for _, bb := range fn.Blocks {
					for _, ii := range bb.Instrs {
						if mu, ok := ii.(*ssa.MapUpdate); ok && mu.Map == mv {
							ent := SetEntry{Update: mu, Key: mu.Key, Value: mu.Value}
							if m := get(mu.Value); m != nil {
								ent.Bits = m.bits
								ent.Origins = append(ent.Origins, m.org...)
								ent.Unknown = m.unk || (m.bits&(S|H) != 0 && len(m.org) == 0)
							}
							site.Entries = append(site.Entries, ent)
						}
					}
				}
			}
			replaced := false
			for i, have := range *sets {
				if have.Call == x {
					(*sets)[i] = site
					replaced = true
				}
			}
			if !replaced {
				*sets = append(*sets, site)
			}
		}
		return
	}
	// closure called directly
	if mc, ok := com.Value.(*ssa.MakeClosure); ok {
		callee := mc.Fn.(*ssa.Function)
		apm := make([]uint8, len(callee.Params)+len(callee.FreeVars))
		for i, a := range com.Args {
			if i < len(callee.Params) {
				apm[i] = bits(a)
			}
		}
		for i, bnd := range mc.Bindings {
			apm[len(callee.Params)+i] = bits(bnd)
		}
		cs := e.analyze(callee, apm, stack)
		merge(cs)
		if resv != nil {
			if rb := joinRet(cs.ret); rb != 0 {
				um := &mark{unk: true}
				// origins: union of the argument/binding origins
				for _, a := range com.Args {
					if m := get(a); m != nil {
						um.org = append(um.org, m.org...)
						um.unk = m.unk
					}
				}
				for _, bnd := range mc.Bindings {
					if m := get(bnd); m != nil {
						um.org = append(um.org, m.org...)
						if len(m.org) > 0 {
							um.unk = m.unk
						}
					}
				}
				set(resv, rb, um, nil)
			}
		}
		return
	}
	var callees []*ssa.Function
	if f := com.StaticCallee(); f != nil {
		callees = []*ssa.Function{f}
	} else {
		anyMarked := false
		if com.IsInvoke() && bits(com.Value) != 0 {
			anyMarked = true
		}
		for _, a := range com.Args {
			if bits(a) != 0 {
				anyMarked = true
			}
		}
		if !anyMarked {
			return
		}
		callees = e.W.Callees(x)
	}
	args := com.Args
	if com.IsInvoke() {
		args = append([]ssa.Value{com.Value}, com.Args...)
	}
	any := false
	apm := make([]uint8, len(args))
	for i, a := range args {
		apm[i] = bits(a)
		if apm[i]&R != 0 {
			apm[i] = (apm[i] &^ R) | H
		}
		if apm[i] != 0 {
			any = true
		}
	}
	for _, callee := range callees {
		if !world.InModule(callee) || callee.Blocks == nil {
			name := callee.String()
			if any && isInplaceStd(name) && len(apm) > 0 && apm[0]&S != 0 {
				addEv(in, "stdlib:"+name)
			}
			// closures passed to external higher-order functions (slices.ContainsFunc ...)
			for _, a := range args {
				if mc, ok := a.(*ssa.MakeClosure); ok {
					cf := mc.Fn.(*ssa.Function)
					cpm := make([]uint8, len(cf.Params)+len(cf.FreeVars))
					for i := range cf.Params {
						if len(apm) > 0 && apm[0] != 0 && RefType(cf.Params[i].Type()) {
							cpm[i] = S
						}
					}
					for i, bnd := range mc.Bindings {
						cpm[len(cf.Params)+i] = bits(bnd)
					}
					merge(e.analyze(cf, cpm, stack))
				}
			}
			// results of external calls on marked values: conservatively not aliasing
			// (fmt/strings/strconv/json produce fresh values), except pass-through helpers
			if resv != nil && any {
				switch name {
				case "slices.Clone", "maps.Clone":
					// shallow copy: fresh container holding the same element references
					if len(args) > 0 {
						if m := get(args[0]); m != nil {
							et := elemType(args[0].Type())
							if et != nil && RefType(et) {
								set(resv, H, m, nil)
							}
						}
					}
				}
			}
			continue
		}
		if !any {
			// still look inside for accessor-based sources when the callee receives the params struct
			if !takesHandlerParams(callee) {
				continue
			}
		}
		cs := e.analyze(callee, apm, stack)
		merge(cs)
		if resv != nil {
			if rb := joinRet(cs.ret); rb != 0 {
				um := &mark{unk: true}
				for _, a := range args {
					if m := get(a); m != nil && len(m.org) > 0 {
						um.org = append(um.org, m.org...)
						um.unk = m.unk
					}
				}
				set(resv, rb, um, nil)
			}
		}
	}
}

func elemType(t types.Type) types.Type {
	switch u := t.Underlying().(type) {
	case *types.Slice:
		return u.Elem()
	case *types.Map:
		return u.Elem()
	}
	return nil
}

func takesHandlerParams(f *ssa.Function) bool {
	for _, p := range f.Params {
		if world.TypeIs(p.Type(), "/internal", "HandlerFuncParams") {
			return true
		}
		if sig, ok := p.Type().Underlying().(*types.Signature); ok {
			_ = sig
			return true // accessor funcs passed as arguments
		}
	}
	return false
}
