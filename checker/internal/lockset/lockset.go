// Package lockset implements I7: per-function must-held lock sets over the SSA CFG,
// wrapper summaries, guarded-field accesses, propagation of unmet lock requirements to
// callers up to roots, and the lock-order graph.
package lockset

import (
	"fmt"
	"go/token"
	"go/types"
	"sort"
	"strings"

	"golang.org/x/tools/go/ssa"

	"svcheck/internal/world"
)

const (
	ModeR = 1
	ModeW = 2
)

// LS is a must-held lock set: lock path -> mode (1 = read, 2 = write).
type LS map[string]int

func (l LS) clone() LS {
	c := LS{}
	for k, v := range l {
		c[k] = v
	}
	return c
}

func meet(a, b LS) LS {
	c := LS{}
	for k, v := range a {
		if x, ok := b[k]; ok {
			if x < v {
				v = x
			}
			c[k] = v
		}
	}
	return c
}

func eq(a, b LS) bool {
	if len(a) != len(b) {
		return false
	}
	for k, v := range a {
		if b[k] != v {
			return false
		}
	}
	return true
}

func (l LS) String() string {
	var ks []string
	for k, v := range l {
		m := "W"
		if v == ModeR {
			m = "R"
		}
		ks = append(ks, k+":"+m)
	}
	sort.Strings(ks)
	return "{" + strings.Join(ks, ", ") + "}"
}

// typeName renders pkgname.Type for the named type behind t.
func typeName(t types.Type) string {
	if p, ok := t.Underlying().(*types.Pointer); ok {
		t = p.Elem()
	}
	if p, ok := t.(*types.Pointer); ok {
		t = p.Elem()
	}
	if nt, ok := t.(*types.Named); ok {
		pk := ""
		if nt.Obj().Pkg() != nil {
			pk = nt.Obj().Pkg().Name() + "."
		}
		return pk + nt.Obj().Name()
	}
	return ""
}

// Path renders the access path of an address/value from a typed root:
// "sugardb.SugarDB.keysWithExpiry.keys". Lookups, index operations and loads are transparent.
func Path(v ssa.Value) string {
	for i := 0; i < 30; i++ {
		switch x := v.(type) {
		case *ssa.FieldAddr:
			pt, ok := x.X.Type().Underlying().(*types.Pointer)
			if !ok {
				return ""
			}
			st, ok := pt.Elem().Underlying().(*types.Struct)
			if !ok {
				return ""
			}
			name := world.CanonField(st.Field(x.Field))
			if inner, ok := x.X.(*ssa.FieldAddr); ok {
				// address of a field of an embedded (non-pointer) struct field: keep the outer path
				if base := Path(inner); base != "" {
					return base + "." + name
				}
			}
			if tn := typeName(x.X.Type()); tn != "" {
				return tn + "." + name
			}
			base := Path(x.X)
			if base == "" {
				return ""
			}
			return base + "." + name
		case *ssa.Field:
			st, ok := x.X.Type().Underlying().(*types.Struct)
			if !ok {
				return ""
			}
			name := world.CanonField(st.Field(x.Field))
			if tn := typeName(x.X.Type()); tn != "" {
				return tn + "." + name
			}
			base := Path(x.X)
			if base == "" {
				return ""
			}
			return base + "." + name
		case *ssa.UnOp:
			if x.Op != token.MUL {
				return ""
			}
			v = x.X
		case *ssa.Lookup:
			v = x.X
		case *ssa.IndexAddr:
			v = x.X
		case *ssa.Index:
			v = x.X
		case *ssa.Slice:
			v = x.X
		case *ssa.Range:
			v = x.X
		case *ssa.Next:
			v = x.Iter
		case *ssa.Extract:
			v = x.Tuple
		case *ssa.Phi:
			// all edges must agree
			p := ""
			for _, e := range x.Edges {
				if e == v {
					continue
				}
				q := Path(e)
				if p == "" {
					p = q
				} else if q != p {
					return ""
				}
			}
			return p
		default:
			return ""
		}
	}
	return ""
}

// Guard describes one guarded field.
type Guard struct {
	Field   string // access path of the field
	Lock    string // access path of its lock
	Alt     string // alternative sufficient lock ("" if none)
	Handle  bool   // effectively-final handle: the guarded thing is the USE (method call), not the load
	Monitor bool   // the owning type's methods assume the caller holds the lock: blame the first outside caller
	Why     string
}

// Access is one access to a guarded field.
type Access struct {
	Fn    *ssa.Function
	In    ssa.Instruction
	G     *Guard
	Write bool
	Held  LS // local must-held set at the access
}

type site struct {
	caller *ssa.Function
	callee *ssa.Function
	in     ssa.Instruction
	held   LS
	isGo   bool
}

type fnInfo struct {
	accesses []Access
	sites    []site
	acq      map[string]int // locks acquired locally (non-deferred Lock/RLock)
	exit     LS             // net locks held at exit when entered with none
	releases map[string]bool
	order    []OrderEdge
	lockAt   map[ssa.Instruction]LS
}

// OrderEdge: lock To acquired while From is held.
type OrderEdge struct {
	Gates    LS // every lock held (locally and on entry from all callers) when To is acquired
	From, To string
	Fn       *ssa.Function
	In       ssa.Instruction
	Via      string
}

// Analysis holds the whole-module result.
type Analysis struct {
	W      *world.World
	Guards []*Guard
	Exempt func(fn *ssa.Function) string // non-empty reason = constructor-phase function
	// IgnoreAcq: acquisitions of `lock` reached through this call site are not real (justified exception)
	IgnoreAcq func(caller, callee *ssa.Function, lock string) bool
	info      map[*ssa.Function]*fnInfo
	wrapper   map[*ssa.Function]*fnInfo
	fns       []*ssa.Function
	callers   map[*ssa.Function][]site
	entry     map[*ssa.Function]LS
}

// syncOp classifies a call as a lock operation: returns lock path, op.
func syncOp(c ssa.CallInstruction) (path string, op string) {
	f := c.Common().StaticCallee()
	if f == nil || f.Pkg == nil || f.Pkg.Pkg.Path() != "sync" || len(c.Common().Args) == 0 {
		return "", ""
	}
	switch f.Name() {
	case "Lock", "RLock", "Unlock", "RUnlock":
	default:
		return "", ""
	}
	rt := f.Signature.Recv()
	if rt == nil {
		return "", ""
	}
	tn := typeName(rt.Type())
	if tn != "sync.Mutex" && tn != "sync.RWMutex" {
		return "", ""
	}
	return Path(c.Common().Args[0]), f.Name()
}

func New(w *world.World, guards []*Guard, exempt func(fn *ssa.Function) string) *Analysis {
	a := &Analysis{W: w, Guards: guards, Exempt: exempt, info: map[*ssa.Function]*fnInfo{}, wrapper: map[*ssa.Function]*fnInfo{}, callers: map[*ssa.Function][]site{}}
	for _, fn := range w.ModFns {
		pos := w.Pos(fn.Pos())
		if strings.Contains(pos, "_test.go") || strings.Contains(pos, "test_helpers") {
			continue
		}
		a.fns = append(a.fns, fn)
	}
	// pass 0: wrapper summaries — small functions whose net effect is to acquire/release a lock
	for _, fn := range a.fns {
		if len(fn.Blocks) <= 2 && countInstrs(fn) <= 8 {
			fi := a.analyze(fn, false)
			if len(fi.exit) > 0 || len(fi.releases) > 0 {
				a.wrapper[fn] = fi
			}
		}
	}
	for _, fn := range a.fns {
		a.info[fn] = a.analyze(fn, true)
	}
	for _, fn := range a.fns {
		for _, s := range a.info[fn].sites {
			a.callers[s.callee] = append(a.callers[s.callee], s)
		}
	}
	return a
}

func countInstrs(fn *ssa.Function) int {
	n := 0
	for _, b := range fn.Blocks {
		n += len(b.Instrs)
	}
	return n
}

func (a *Analysis) guardFor(p string) *Guard {
	if p == "" {
		return nil
	}
	for _, g := range a.Guards {
		if p == g.Field || strings.HasPrefix(p, g.Field+".") {
			return g
		}
	}
	return nil
}

// callbackTargets: module functions an external callee may call back synchronously:
// closures passed as arguments and the heap.Interface / sort.Interface methods of a module-typed argument.
func (a *Analysis) callbackTargets(c ssa.CallInstruction, callee *ssa.Function) []*ssa.Function {
	var out []*ssa.Function
	name := callee.String()
	for _, arg := range c.Common().Args {
		switch v := arg.(type) {
		case *ssa.MakeClosure:
			if f, ok := v.Fn.(*ssa.Function); ok {
				out = append(out, f)
			}
		case *ssa.Function:
			if world.InModule(v) {
				out = append(out, v)
			}
		case *ssa.MakeInterface:
			if strings.HasPrefix(name, "container/heap.") || strings.HasPrefix(name, "sort.") {
				ms := a.W.Prog.MethodSets.MethodSet(v.X.Type())
				for i := 0; i < ms.Len(); i++ {
					switch ms.At(i).Obj().Name() {
					case "Len", "Less", "Swap", "Push", "Pop":
						if f := a.W.Prog.MethodValue(ms.At(i)); f != nil && world.InModule(f) {
							out = append(out, f)
						}
					}
				}
			}
		}
	}
	return out
}

func (a *Analysis) analyze(fn *ssa.Function, record bool) *fnInfo {
	fi := &fnInfo{acq: map[string]int{}, releases: map[string]bool{}, lockAt: map[ssa.Instruction]LS{}}
	if len(fn.Blocks) == 0 {
		return fi
	}
	in := map[*ssa.BasicBlock]LS{fn.Blocks[0]: {}}
	transfer := func(b *ssa.BasicBlock, s LS, rec bool) LS {
		s = s.clone()
		acquire := func(instr ssa.Instruction, p string, mode int, via string) {
			if rec {
				for h := range s {
					if h != p {
						fi.order = append(fi.order, OrderEdge{From: h, To: p, Fn: fn, In: instr, Via: via})
					}
				}
				if fi.acq[p] < mode {
					fi.acq[p] = mode
				}
			}
			if s[p] < mode {
				s[p] = mode
			}
		}
		for _, instr := range b.Instrs {
			if rec {
				fi.lockAt[instr] = s.clone()
			}
			if c, ok := instr.(ssa.CallInstruction); ok {
				com := c.Common()
				_, isDefer := instr.(*ssa.Defer)
				_, isGo := instr.(*ssa.Go)
				if p, op := syncOp(c); op != "" {
					if isDefer || isGo {
						continue
					}
					switch op {
					case "Lock":
						acquire(instr, p, ModeW, "")
					case "RLock":
						acquire(instr, p, ModeR, "")
					case "Unlock", "RUnlock":
						if _, held := s[p]; !held && rec {
							fi.releases[p] = true
						} else if !held {
							fi.releases[p] = true
						}
						delete(s, p)
					}
					continue
				}
				var targets []*ssa.Function
				if mc, ok := com.Value.(*ssa.MakeClosure); ok {
					targets = []*ssa.Function{mc.Fn.(*ssa.Function)}
				} else if f := com.StaticCallee(); f != nil {
					targets = []*ssa.Function{f}
				} else if rec {
					targets = a.W.Callees(c)
				}
				for _, target := range targets {
					if ws, ok := a.wrapper[target]; ok && !isDefer && !isGo && len(targets) == 1 {
						for k, v := range ws.exit {
							acquire(instr, k, v, world.FuncName(target))
						}
						for k := range ws.releases {
							delete(s, k)
						}
						continue
					}
					if !rec {
						continue
					}
					if world.InModule(target) && target.Blocks != nil {
						fi.sites = append(fi.sites, site{caller: fn, callee: target, in: instr, held: s.clone(), isGo: isGo})
					} else if !isGo {
						for _, cb := range a.callbackTargets(c, target) {
							fi.sites = append(fi.sites, site{caller: fn, callee: cb, in: instr, held: s.clone()})
						}
					}
				}
			}
			if !rec {
				continue
			}
			check := func(p string, write bool) {
				g := a.guardFor(p)
				if g == nil {
					return
				}
				fi.accesses = append(fi.accesses, Access{Fn: fn, In: instr, G: g, Write: write, Held: s.clone()})
			}
			switch x := instr.(type) {
			case *ssa.UnOp:
				if x.Op == token.MUL {
					if _, isFA := x.X.(*ssa.FieldAddr); isFA {
						if g := a.guardFor(Path(x.X)); g != nil && !g.Handle {
							check(Path(x.X), false)
						}
					}
				}
			case *ssa.Store:
				switch x.Addr.(type) {
				case *ssa.FieldAddr, *ssa.IndexAddr:
					if g := a.guardFor(Path(x.Addr)); g != nil {
						check(Path(x.Addr), true)
					}
				}
			case *ssa.MapUpdate:
				check(Path(x.Map), true)
			case ssa.CallInstruction:
				com := x.Common()
				if bi, ok := com.Value.(*ssa.Builtin); ok {
					switch bi.Name() {
					case "delete", "clear":
						check(Path(com.Args[0]), true)
					case "append":
						// append(guarded, ...) reads the guarded slice; the write is the Store of the result
					}
				}
				if com.IsInvoke() {
					// use of a handle field: rw.Write / rw.Sync ...
					if g := a.guardFor(Path(com.Value)); g != nil && g.Handle {
						_, isDefer := instr.(*ssa.Defer)
						if !isDefer {
							check(Path(com.Value), true)
						}
					}
				}
			}
		}
		return s
	}
	work := []*ssa.BasicBlock{fn.Blocks[0]}
	out := map[*ssa.BasicBlock]LS{}
	for len(work) > 0 {
		b := work[0]
		work = work[1:]
		o := transfer(b, in[b], false)
		if old, ok := out[b]; ok && eq(old, o) {
			continue
		}
		out[b] = o
		for _, su := range b.Succs {
			if cur, ok := in[su]; ok {
				m := meet(cur, o)
				if !eq(m, cur) {
					in[su] = m
					work = append(work, su)
				}
			} else {
				in[su] = o.clone()
				work = append(work, su)
			}
		}
	}
	if record {
		for _, b := range fn.Blocks {
			if s, ok := in[b]; ok {
				transfer(b, s, true)
			}
		}
	}
	var exit LS
	first := true
	for _, b := range fn.Blocks {
		if len(b.Instrs) == 0 {
			continue
		}
		if _, ok := b.Instrs[len(b.Instrs)-1].(*ssa.Return); ok {
			if o, ok := out[b]; ok {
				if first {
					exit, first = o.clone(), false
				} else {
					exit = meet(exit, o)
				}
			}
		}
	}
	// deferred unlocks release at exit
	for _, b := range fn.Blocks {
		for _, instr := range b.Instrs {
			if d, ok := instr.(*ssa.Defer); ok {
				if p, op := syncOp(d); op == "Unlock" || op == "RUnlock" {
					delete(exit, p)
				} else if f := d.Call.StaticCallee(); f != nil {
					if ws, ok := a.wrapper[f]; ok {
						for k := range ws.releases {
							delete(exit, k)
						}
					}
				}
			}
		}
	}
	fi.exit = exit
	return fi
}

// HeldAt returns the must-held lock set just before instruction in (local to its function).
func (a *Analysis) HeldAt(in ssa.Instruction) LS {
	fn := in.Parent()
	if fi := a.info[fn]; fi != nil {
		return fi.lockAt[in]
	}
	return nil
}

// Verdict on one access.
type Verdict struct {
	Access  Access
	OK      bool
	Exempt  string   // reason when the access lies in constructor-phase code
	Witness []string // call chain root -> access function, when not OK
	Chain   []*ssa.Function
	Root    *ssa.Function
	Mode    string
}

func need(acc Access) int {
	if acc.Write {
		return ModeW
	}
	return ModeR
}

func covered(held LS, g *Guard, mode int) bool {
	if held[g.Lock] >= mode {
		return true
	}
	if g.Alt != "" && held[g.Alt] >= mode {
		return true
	}
	return false
}

// externallyCalled: the call graph has an edge into fn from code outside the module (a library
// invoking an interface method or a callback), or fn's address is taken as a value.
func (a *Analysis) externallyCalled(fn *ssa.Function) bool {
	if n := a.W.VTA().Nodes[fn]; n != nil {
		for _, e := range n.In {
			if e.Caller != nil && e.Caller.Func != nil {
				return true
			}
		}
	}
	if refs := fn.Referrers(); refs != nil && len(*refs) > 0 {
		return true
	}
	return false
}

// isRoot: function can be entered from outside the analysed call edges with no locks held.
func (a *Analysis) isRoot(fn *ssa.Function) bool {
	if fn.Parent() == nil && fn.Object() != nil && fn.Object().Exported() {
		// exported function or method of an exported type in a non-internal package = public API;
		// in internal packages exported methods are callable from other packages of the module only,
		// and those calls are in the call graph.
		pk := world.ShortPkg(world.PkgOf(fn))
		if pk == "sugardb" {
			return true
		}
	}
	return false
}

// Check decides every guarded access: covered locally, or on every call chain up to every root.
func (a *Analysis) Check() []Verdict {
	var out []Verdict
	for _, fn := range a.fns {
		for _, acc := range a.info[fn].accesses {
			v := Verdict{Access: acc}
			if acc.Write {
				v.Mode = "write"
			} else {
				v.Mode = "read"
			}
			if why := a.Exempt(fn); why != "" {
				v.OK, v.Exempt = true, why
				out = append(out, v)
				continue
			}
			if covered(acc.Held, acc.G, need(acc)) {
				v.OK = true
				out = append(out, v)
				continue
			}
			chain, fchain, root := a.unmet(fn, acc.G, need(acc), map[*ssa.Function]bool{}, 0)
			if chain == nil {
				v.OK = true
			} else {
				v.Witness, v.Chain, v.Root = chain, fchain, root
			}
			out = append(out, v)
		}
	}
	return out
}

// unmet searches for a call chain from a root to fn along which the guard is not held.
// Returns nil if every chain acquires it.
func (a *Analysis) unmet(fn *ssa.Function, g *Guard, mode int, seen map[*ssa.Function]bool, depth int) ([]string, []*ssa.Function, *ssa.Function) {
	if seen[fn] || depth > 25 {
		return nil, nil, nil
	}
	seen[fn] = true
	defer delete(seen, fn)
	if why := a.Exempt(fn); why != "" {
		return nil, nil, nil
	}
	callers := a.callers[fn]
	if a.isRoot(fn) {
		return []string{world.FuncName(fn) + " [public API root]"}, []*ssa.Function{fn}, fn
	}
	if len(callers) == 0 {
		if a.externallyCalled(fn) {
			return []string{world.FuncName(fn) + " [root: called back by a library / through a function value]"}, []*ssa.Function{fn}, fn
		}
		// no caller at all: dead (or test-only) code cannot race with anything
		return nil, nil, nil
	}
	for _, s := range callers {
		if s.isGo {
			return []string{world.FuncName(s.caller) + " --go--> " + world.FuncName(fn) + " [goroutine root at " + a.W.InstrPos(s.in) + "]"}, []*ssa.Function{fn}, fn
		}
		if covered(s.held, g, mode) {
			continue
		}
		if why := a.Exempt(s.caller); why != "" {
			continue
		}
		if chain, fchain, root := a.unmet(s.caller, g, mode, seen, depth+1); chain != nil {
			return append(chain, world.FuncName(fn)), append(fchain, fn), root
		}
	}
	return nil, nil, nil
}

// EntryHeld computes, per function, the locks that are held on entry on EVERY call chain
// from every root (interprocedural must-lockset; roots and goroutine targets start empty).
func (a *Analysis) EntryHeld() map[*ssa.Function]LS {
	if a.entry != nil {
		return a.entry
	}
	top := LS{}
	for _, g := range a.Guards {
		top[g.Lock] = ModeW
	}
	for _, fn := range a.fns {
		for k := range a.info[fn].acq {
			top[k] = ModeW
		}
	}
	entry := map[*ssa.Function]LS{}
	for _, fn := range a.fns {
		if a.isRoot(fn) || (len(a.callers[fn]) == 0 && a.externallyCalled(fn)) {
			entry[fn] = LS{}
		} else {
			entry[fn] = top.clone()
		}
	}
	for changed := true; changed; {
		changed = false
		for _, fn := range a.fns {
			if a.isRoot(fn) || len(a.callers[fn]) == 0 {
				continue
			}
			cur := top.clone()
			for _, s := range a.callers[fn] {
				if s.isGo {
					cur = LS{}
					break
				}
				if a.Exempt(s.caller) != "" {
					continue
				}
				at := s.held.clone()
				for k, v := range entry[s.caller] {
					if at[k] < v {
						at[k] = v
					}
				}
				cur = meet(cur, at)
			}
			if !eq(cur, entry[fn]) {
				entry[fn] = cur
				changed = true
			}
		}
	}
	a.entry = entry
	return entry
}

// OrderGraph returns the lock-order edges including acquisitions made by callees.
func (a *Analysis) OrderGraph() map[[2]string]OrderEdge {
	entry := a.EntryHeld()
	gatesAt := func(fn *ssa.Function, local LS) LS {
		g := local.clone()
		for k, v := range entry[fn] {
			if g[k] < v {
				g[k] = v
			}
		}
		return g
	}
	acqT := map[*ssa.Function]map[string]bool{}
	for _, fn := range a.fns {
		acqT[fn] = map[string]bool{}
		for k := range a.info[fn].acq {
			acqT[fn][k] = true
		}
	}
	for changed := true; changed; {
		changed = false
		for _, fn := range a.fns {
			for _, s := range a.info[fn].sites {
				if s.isGo {
					continue
				}
				for k := range acqT[s.callee] {
					if a.IgnoreAcq != nil && a.IgnoreAcq(fn, s.callee, k) {
						continue
					}
					if !acqT[fn][k] {
						acqT[fn][k] = true
						changed = true
					}
				}
			}
		}
	}
	edges := map[[2]string]OrderEdge{}
	for _, fn := range a.fns {
		for _, e := range a.info[fn].order {
			k := [2]string{e.From, e.To}
			e.Gates = gatesAt(fn, a.info[fn].lockAt[e.In])
			if old, ok := edges[k]; !ok {
				edges[k] = e
			} else {
				old.Gates = meet(old.Gates, e.Gates)
				edges[k] = old
			}
		}
		for _, s := range a.info[fn].sites {
			if s.isGo {
				continue
			}
			for h := range s.held {
				for acq := range acqT[s.callee] {
					if a.IgnoreAcq != nil && a.IgnoreAcq(fn, s.callee, acq) {
						continue
					}
					if acq != h {
						k := [2]string{h, acq}
						ne := OrderEdge{From: h, To: acq, Fn: fn, In: s.in, Via: world.FuncName(s.callee), Gates: gatesAt(fn, s.held)}
						if old, ok := edges[k]; !ok {
							edges[k] = ne
						} else {
							old.Gates = meet(old.Gates, ne.Gates)
							edges[k] = old
						}
					}
				}
			}
		}
	}
	return edges
}

// SelfDeadlocks: a non-reentrant lock acquired (directly or in a callee) while already held.
func (a *Analysis) SelfDeadlocks() []OrderEdge {
	acqT := map[*ssa.Function]map[string]int{}
	for _, fn := range a.fns {
		acqT[fn] = map[string]int{}
		for k, m := range a.info[fn].acq {
			acqT[fn][k] = m
		}
	}
	for changed := true; changed; {
		changed = false
		for _, fn := range a.fns {
			for _, s := range a.info[fn].sites {
				if s.isGo {
					continue
				}
				for k, m := range acqT[s.callee] {
					if a.IgnoreAcq != nil && a.IgnoreAcq(fn, s.callee, k) {
						continue
					}
					if acqT[fn][k] < m {
						acqT[fn][k] = m
						changed = true
					}
				}
			}
		}
	}
	writers := map[string]bool{}
	for _, fn := range a.fns {
		for k, m := range a.info[fn].acq {
			if m == ModeW {
				writers[k] = true
			}
		}
	}
	var out []OrderEdge
	for _, fn := range a.fns {
		for _, s := range a.info[fn].sites {
			if s.isGo {
				continue
			}
			for h, hm := range s.held {
				if a.IgnoreAcq != nil && a.IgnoreAcq(fn, s.callee, h) {
					continue
				}
				if m, ok := acqT[s.callee][h]; ok {
					// W involvement deadlocks at once. RLock while RLock is held deadlocks as soon as a writer
					// queues between the two (sync.RWMutex blocks new readers behind a waiting writer: "this
					// prohibits recursive read locking"), so it counts whenever the lock is write-locked anywhere.
					if hm == ModeW || m == ModeW || writers[h] {
						out = append(out, OrderEdge{From: h, To: h, Fn: fn, In: s.in, Via: world.FuncName(s.callee)})
					}
				}
			}
		}
	}
	return out
}

// Describe renders an access for messages.
func (a *Analysis) Describe(acc Access) string {
	return fmt.Sprintf("%s of %s in %s at %s (held: %s)", map[bool]string{true: "write", false: "read"}[acc.Write], acc.G.Field, world.FuncName(acc.Fn), a.W.InstrPos(acc.In), acc.Held)
}
