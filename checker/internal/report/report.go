// Package report collects rule obligations, matches findings against the committed
// known-findings file, writes the evidence file and produces the exit status.
package report

import (
	"bufio"
	"crypto/sha1"
	"encoding/hex"
	"encoding/json"
	"fmt"
	"os"
	"path/filepath"
	"sort"
	"strings"
)

type Status int

const (
	Discharged Status = iota // obligation holds
	Finding                  // obligation violated on this tree
	Undecided                // rule could not decide (counts as a finding: fails closed)
	NotDecided               // out of the rule's reach by design (data-dependent); counted only
)

func (s Status) String() string {
	return [...]string{"discharged", "finding", "undecided", "not-decided-by-design"}[s]
}

// Ob is one obligation instance of a rule.
type Ob struct {
	Rule   string `json:"rule"`
	Key    string `json:"key"` // stable: rule|function|construct — never a line number
	Status Status `json:"-"`
	St     string `json:"status"`
	Pos    string `json:"pos,omitempty"`
	Msg    string `json:"msg,omitempty"`
}

// RuleResult is what a rule returns.
type RuleResult struct {
	Rule  string
	Obs   []Ob
	Floor int    // minimum number of instances (discharged+finding+undecided) confirmed by hand
	Note  string // what the rule decides, one line
	Err   error  // anchor lost / analysis failure => the rule fails closed
	// SelfTest marks results of the checker's own self-tests (seeded mutants): a failure is a
	// checker defect, reported as SELFTEST-FAIL with exit status 2, never as a VIOLATION.
	SelfTest bool
	keys     map[string]int
}

// Add records an obligation. Keys are made unique per rule: a repeated key gets "#2", "#3", ...
// in order of appearance (instruction order, which is deterministic).
func (r *RuleResult) Add(st Status, key, pos, msg string) {
	if r.keys == nil {
		r.keys = map[string]int{}
	}
	r.keys[key]++
	if n := r.keys[key]; n > 1 {
		key = fmt.Sprintf("%s#%d", key, n)
	}
	r.Obs = append(r.Obs, Ob{Rule: r.Rule, Key: r.Rule + "|" + key, Status: st, St: st.String(), Pos: pos, Msg: msg})
}
func (r *RuleResult) OK(key, pos, msg string)   { r.Add(Discharged, key, pos, msg) }
func (r *RuleResult) Fail(key, pos, msg string) { r.Add(Finding, key, pos, msg) }
func (r *RuleResult) Und(key, pos, msg string)  { r.Add(Undecided, key, pos, msg) }
func (r *RuleResult) Skip(key, pos, msg string) { r.Add(NotDecided, key, pos, msg) }

// Known is one line of known_findings.jsonl.
type Known struct {
	Property string `json:"property"`
	Rule     string `json:"rule"`
	Key      string `json:"key"`
	Status   string `json:"status"` // open | fixed
	Commit   string `json:"commit,omitempty"`
	What     string `json:"what"`
	ShownBy  string `json:"shown_by,omitempty"`
}

// LoadKnown reads the committed known-findings file (never written at run time).
func LoadKnown(path string) ([]Known, error) {
	f, err := os.Open(path)
	if err != nil {
		if os.IsNotExist(err) {
			return nil, nil
		}
		return nil, err
	}
	defer f.Close()
	var out []Known
	sc := bufio.NewScanner(f)
	sc.Buffer(make([]byte, 1<<20), 1<<20)
	ln := 0
	for sc.Scan() {
		ln++
		t := strings.TrimSpace(sc.Text())
		if t == "" || strings.HasPrefix(t, "#") {
			continue
		}
		var k Known
		if err := json.Unmarshal([]byte(t), &k); err != nil {
			return nil, fmt.Errorf("%s:%d: %v", path, ln, err)
		}
		out = append(out, k)
	}
	return out, sc.Err()
}

// PropRun is the outcome of one property check.
type PropRun struct {
	Property    string
	Tier        string
	Seed        int
	Explanation string
	Decides     []string
	NotCovered  []string
	Assumptions []string
	Trusted     []string
	Rules       []*RuleResult
	Analysed    map[string]interface{}
	WallS       float64
	CheckerCmd  string
	Extra       map[string]interface{}
}

// EmitKnown, when set, makes Finish print a known_findings.jsonl candidate line for every
// unlisted violation (triage aid; nothing is written to the committed file).
var EmitKnown bool

type Outcome struct {
	Violations []Ob
	KnownHits  []struct {
		Ob Ob
		K  Known
	}
	Lines []string // stdout lines (KNOWN-FINDING / VIOLATION)
}

// Finish matches findings against known findings, writes violation records and the
// evidence file, prints the interface lines and returns the exit code.
func (p *PropRun) Finish(verifDir string, known []Known) int {
	open := map[string]Known{}
	for _, k := range known {
		if k.Status == "open" && k.Property == p.Property {
			open[k.Key] = k
		}
	}
	type ruleSummary struct {
		Instances  int    `json:"instances"`
		Discharged int    `json:"discharged"`
		Known      int    `json:"known_findings"`
		Violations int    `json:"violations"`
		Undecided  int    `json:"undecided"`
		NotDecided int    `json:"not_decided_by_design"`
		Floor      int    `json:"floor"`
		Note       string `json:"decides,omitempty"`
		Error      string `json:"error,omitempty"`
	}
	sum := map[string]*ruleSummary{}
	var violations []Ob
	var lines []string
	var samples []interface{}
	totalOb, totalDis, totalKnown, totalUnd, totalND := 0, 0, 0, 0, 0
	seenKey := map[string]bool{}
	var selfFails []Ob
	for _, rr := range p.Rules {
		s := &ruleSummary{Floor: rr.Floor, Note: rr.Note}
		sum[rr.Rule] = s
		if rr.SelfTest {
			for _, ob := range rr.Obs {
				switch ob.Status {
				case NotDecided:
					s.NotDecided++
				case Discharged:
					s.Instances++
					s.Discharged++
				default:
					s.Instances++
					s.Violations++
					selfFails = append(selfFails, ob)
				}
			}
			if rr.Err != nil {
				s.Error = rr.Err.Error()
				selfFails = append(selfFails, Ob{Rule: rr.Rule, Key: rr.Rule + "|error", Msg: rr.Err.Error()})
			}
			continue
		}
		if rr.Err != nil {
			s.Error = rr.Err.Error()
			violations = append(violations, Ob{Rule: rr.Rule, Key: rr.Rule + "|anchor", Status: Undecided, St: "undecided",
				Msg: "rule could not be established (fails closed): " + rr.Err.Error()})
			continue
		}
		sort.SliceStable(rr.Obs, func(i, j int) bool { return rr.Obs[i].Key < rr.Obs[j].Key })
		nSample := 0
		for _, ob := range rr.Obs {
			if ob.Status == NotDecided {
				s.NotDecided++
				totalND++
				continue
			}
			s.Instances++
			totalOb++
			switch ob.Status {
			case Discharged:
				s.Discharged++
				totalDis++
				if nSample < 3 {
					samples = append(samples, ob)
					nSample++
				}
			case Finding, Undecided:
				if ob.Status == Undecided {
					s.Undecided++
					totalUnd++
				}
				if k, ok := open[ob.Key]; ok {
					s.Known++
					totalKnown++
					if !seenKey[ob.Key] {
						seenKey[ob.Key] = true
						lines = append(lines, fmt.Sprintf("KNOWN-FINDING: property=%s rule=%s key=%q at %s: %s", p.Property, ob.Rule, ob.Key, ob.Pos, k.What))
					}
				} else {
					s.Violations++
					violations = append(violations, ob)
				}
			}
		}
		// The floor is the instance count confirmed by hand on the tree the rule was written on. A
		// refactoring can legitimately merge or split instances, so the check fails only when fewer
		// than half of them (and at least one) are found: then the anchor is considered lost.
		minInst := rr.Floor / 2
		if rr.Floor > 0 && minInst < 1 {
			minInst = 1
		}
		if s.Instances < minInst {
			violations = append(violations, Ob{Rule: rr.Rule, Key: rr.Rule + "|floor", Status: Undecided, St: "undecided",
				Msg: fmt.Sprintf("rule matched %d instances, fewer than half of the %d confirmed by hand: anchor lost, the rule would pass vacuously", s.Instances, rr.Floor)})
			s.Violations++
		}
	}
	for key, k := range open {
		if !seenKey[key] {
			fmt.Fprintf(os.Stderr, "note: known finding %q (property %s) was not reported on this tree (repaired or construct renamed); the entry suppresses nothing\n", k.Key, k.Property)
		}
	}
	// violation records
	vdir := filepath.Join(verifDir, "out", "violations", p.Property)
	_ = os.RemoveAll(vdir)
	exit := 0
	if len(violations) > 0 {
		exit = 1
		_ = os.MkdirAll(vdir, 0o755)
		seen := map[string]bool{}
		for _, v := range violations {
			if seen[v.Key] {
				continue
			}
			seen[v.Key] = true
			h := sha1.Sum([]byte(v.Key))
			path := filepath.Join(vdir, v.Rule+"-"+hex.EncodeToString(h[:6])+".json")
			rec := map[string]interface{}{"property": p.Property, "rule": v.Rule, "key": v.Key, "status": v.St, "pos": v.Pos, "msg": v.Msg,
				"replay": fmt.Sprintf("%s/bin/svcheck -explain %s", verifDir, path)}
			b, _ := json.MarshalIndent(rec, "", " ")
			_ = os.WriteFile(path, append(b, '\n'), 0o644)
			fmt.Printf("  finding: rule=%s key=%q at %s: %s\n", v.Rule, v.Key, v.Pos, v.Msg)
			if EmitKnown {
				kb, _ := json.Marshal(Known{Property: p.Property, Rule: v.Rule, Key: v.Key, Status: "open", What: v.Msg})
				fmt.Printf("KNOWN-CANDIDATE %s\n", kb)
			}
			lines = append(lines, fmt.Sprintf("VIOLATION property=%s replay=%s", p.Property, path))
		}
	}
	for _, l := range lines {
		fmt.Println(l)
	}
	for _, sf := range selfFails {
		fmt.Printf("SELFTEST-FAIL property=%s %s: %s\n", p.Property, sf.Key, sf.Msg)
	}
	if len(selfFails) > 0 && exit == 0 {
		exit = 2
	}
	cov0 := map[string]interface{}{"selftest_failures": len(selfFails)}
	_ = cov0
	// evidence
	var vs []interface{}
	for i, v := range violations {
		if i >= 20 {
			break
		}
		vs = append(vs, v)
	}
	if len(samples) > 12 {
		// spread the samples over the rules
		step := len(samples) / 12
		var s2 []interface{}
		for i := 0; i < len(samples); i += step {
			s2 = append(s2, samples[i])
		}
		samples = s2
	}
	if len(samples) == 0 {
		samples = append(samples, map[string]string{"note": "no discharged obligation on this run"})
	}
	cov := map[string]interface{}{
		"explanation":           p.Explanation,
		"decides":               p.Decides,
		"does_not_decide":       p.NotCovered,
		"obligations":           totalOb,
		"discharged":            totalDis,
		"known_findings":        totalKnown,
		"undecided":             totalUnd,
		"not_decided_by_design": totalND,
		"rules":                 sum,
		"analysed":              p.Analysed,
		"samples":               samples,
		"checker_cmd":           p.CheckerCmd,
		"trusted_base":          p.Trusted,
		"evaluations":           totalOb,
		"distinct_nontrivial":   totalOb,
		"rule":                  "one evaluation = one obligation instance of a rule (a call site, path, table entry, field or format literal of the current source); all are distinct (keyed by rule|function|construct) and each is decided over all CFG/call-graph paths",
		"exhaustive":            true,
	}
	if len(vs) > 0 {
		cov["violations_detail"] = vs
	}
	for k, v := range p.Extra {
		cov[k] = v
	}
	assumptions := append([]string{"the Go type checker and go/ssa represent the program faithfully", "VTA resolves function-valued fields and interface calls of module code completely (cross-checked against CHA in the thorough tier)", "no reflection/unsafe reaches the store (unsafe is used for Sizeof only)"}, p.Assumptions...)
	nz := func(s []string) []string {
		if s == nil {
			return []string{}
		}
		return s
	}
	cov["decides"], cov["does_not_decide"], cov["trusted_base"] = nz(p.Decides), nz(p.NotCovered), nz(p.Trusted)
	ev := map[string]interface{}{
		"property_id": p.Property,
		"tier":        p.Tier,
		"seed":        p.Seed,
		"level":       "other",
		"coverage":    cov,
		"assumptions": assumptions,
		"wall_s":      p.WallS,
		"violations":  len(violations),
	}
	b, _ := json.MarshalIndent(ev, "", " ")
	_ = os.MkdirAll(filepath.Join(verifDir, "evidence"), 0o755)
	if err := os.WriteFile(filepath.Join(verifDir, "evidence", p.Property+".json"), append(b, '\n'), 0o644); err != nil {
		fmt.Fprintln(os.Stderr, "cannot write evidence:", err)
		return 2
	}
	fmt.Printf("%s %s: %d obligations, %d discharged, %d known findings, %d violations, %d not decided by design (%.1fs)\n",
		p.Property, p.Tier, totalOb, totalDis, totalKnown, len(violations), totalND, p.WallS)
	return exit
}
