package world

import (
	"fmt"
	"go/ast"
	"go/constant"
	"go/token"
	"go/types"
	"sort"
	"strings"

	"golang.org/x/tools/go/ssa"
)

// CmdEntry is one static entry of the command table (I1): a composite literal of
// internal.Command or internal.SubCommand with a constant name.
type CmdEntry struct {
	Name       string // lower-cased command keyword; "parent|sub" for sub-commands
	Parent     *CmdEntry
	Subs       []*CmdEntry
	Module     string
	Categories []string
	Sync       bool
	SyncSet    bool
	Handler    *ssa.Function // nil when the literal has no HandlerFunc
	KeyFunc    *ssa.Function
	Pos        token.Pos
	Pkg        string // short package path
	Lit        *ast.CompositeLit
}

func (e *CmdEntry) HasCat(c string) bool {
	for _, x := range e.Categories {
		if x == c {
			return true
		}
	}
	return false
}

// IsWrite mirrors internal.IsWriteCommand for a concrete entry.
func (e *CmdEntry) IsWrite() bool { return e.HasCat("write") }

// IsReadOnly: read category without write category.
func (e *CmdEntry) IsReadOnly() bool { return e.HasCat("read") && !e.HasCat("write") }

// Commands returns the static command table, sorted by name.
func (w *World) Commands() ([]*CmdEntry, error) {
	w.cmdOnce.Do(func() { w.cmds, w.cmdErr = w.extractCommands() })
	return w.cmds, w.cmdErr
}

// Leaves returns the entries that are actually dispatched to: commands without
// sub-commands and all sub-commands (parents with sub-commands are also returned when
// they carry their own handler).
func Leaves(cmds []*CmdEntry) []*CmdEntry {
	var out []*CmdEntry
	for _, c := range cmds {
		if len(c.Subs) == 0 || c.Handler != nil {
			out = append(out, c)
		}
	}
	return out
}

func (w *World) extractCommands() ([]*CmdEntry, error) {
	var out []*CmdEntry
	dynamic := 0
	for _, p := range w.Pkgs {
		info := p.TypesInfo
		short := ShortPkg(p.Types)
		for _, f := range p.Syntax {
			// map literal -> entry for parent linking
			byLit := map[*ast.CompositeLit]*CmdEntry{}
			var stack []ast.Node
			ast.Inspect(f, func(n ast.Node) bool {
				if n == nil {
					stack = stack[:len(stack)-1]
					return true
				}
				stack = append(stack, n)
				cl, ok := n.(*ast.CompositeLit)
				if !ok {
					return true
				}
				tv, ok := info.Types[cl]
				if !ok {
					return true
				}
				isCmd := TypeIs(tv.Type, "/internal", "Command") && !isPtr(tv.Type)
				isSub := TypeIs(tv.Type, "/internal", "SubCommand") && !isPtr(tv.Type)
				if !isCmd && !isSub {
					return true
				}
				e := &CmdEntry{Pos: cl.Pos(), Pkg: short, Lit: cl}
				named := false
				for _, el := range cl.Elts {
					kv, ok := el.(*ast.KeyValueExpr)
					if !ok {
						continue
					}
					key, _ := kv.Key.(*ast.Ident)
					if key == nil {
						continue
					}
					switch key.Name {
					case "Command":
						if v := info.Types[kv.Value].Value; v != nil && v.Kind() == constant.String {
							e.Name = strings.ToLower(constant.StringVal(v))
							named = true
						}
					case "Module":
						if v := info.Types[kv.Value].Value; v != nil && v.Kind() == constant.String {
							e.Module = constant.StringVal(v)
						}
					case "Sync":
						if v := info.Types[kv.Value].Value; v != nil && v.Kind() == constant.Bool {
							e.Sync = constant.BoolVal(v)
							e.SyncSet = true
						}
					case "Categories":
						if c2, ok := kv.Value.(*ast.CompositeLit); ok {
							for _, ce := range c2.Elts {
								if v := info.Types[ce].Value; v != nil && v.Kind() == constant.String {
									e.Categories = append(e.Categories, constant.StringVal(v))
								} else {
									e.Categories = append(e.Categories, "?"+types.ExprString(ce))
								}
							}
						}
					case "HandlerFunc":
						e.Handler = w.funcOfExpr(info, kv.Value)
					case "KeyExtractionFunc":
						e.KeyFunc = w.funcOfExpr(info, kv.Value)
					}
				}
				if !named {
					dynamic++
					return true
				}
				byLit[cl] = e
				if isSub {
					// parent = nearest enclosing Command literal on the stack
					for i := len(stack) - 2; i >= 0; i-- {
						if pl, ok := stack[i].(*ast.CompositeLit); ok {
							if pe := byLit[pl]; pe != nil && pe.Parent == nil && TypeIs(info.Types[pl].Type, "/internal", "Command") {
								e.Parent = pe
								pe.Subs = append(pe.Subs, e)
								e.Name = pe.Name + "|" + e.Name
								break
							}
						}
					}
				}
				out = append(out, e)
				return true
			})
		}
	}
	sort.Slice(out, func(i, j int) bool {
		if out[i].Name != out[j].Name {
			return out[i].Name < out[j].Name
		}
		return out[i].Pos < out[j].Pos
	})
	if len(out) == 0 {
		return nil, fmt.Errorf("command table: no internal.Command literals found")
	}
	return out, nil
}

func isPtr(t types.Type) bool { _, ok := t.(*types.Pointer); return ok }

// funcOfExpr resolves a handler / key function expression to its SSA function.
func (w *World) funcOfExpr(info *types.Info, e ast.Expr) *ssa.Function {
	switch x := ast.Unparen(e).(type) {
	case *ast.Ident:
		if fn, ok := info.Uses[x].(*types.Func); ok {
			return w.Prog.FuncValue(fn)
		}
	case *ast.SelectorExpr:
		if fn, ok := info.Uses[x.Sel].(*types.Func); ok {
			return w.Prog.FuncValue(fn)
		}
	case *ast.FuncLit:
		return w.AnonAt(x.Pos())
	}
	return nil
}

// ---- accessor binding (I2) ----

// Binding maps each HandlerFuncParams field to the function(s) bound to it in the
// literal(s) of that type inside package sugardb.
type Binding struct {
	Field map[string]*ssa.Function // field name -> implementation (underlying method for $bound)
	Owner *ssa.Function            // the function containing the literal
}

// ReadAccessors, Mutators: role classification of HandlerFuncParams fields.
var ReadAccessors = map[string]bool{"KeysExist": true, "GetValues": true, "GetExpiry": true, "Randomkey": true}
var Mutators = map[string]bool{"SetValues": true, "SetExpiry": true, "DeleteKey": true, "Flush": true}

// Accessor returns the HandlerFuncParams field name if v is a load of such a field
// (params.GetValues), "" otherwise.
func Accessor(v ssa.Value) string {
	switch x := v.(type) {
	case *ssa.UnOp:
		if x.Op != token.MUL {
			return ""
		}
		fa, ok := x.X.(*ssa.FieldAddr)
		if !ok || !TypeIs(fa.X.Type(), "/internal", "HandlerFuncParams") {
			return ""
		}
		return FieldName(fa)
	case *ssa.Field:
		if !TypeIs(x.X.Type(), "/internal", "HandlerFuncParams") {
			return ""
		}
		st, ok := x.X.Type().Underlying().(*types.Struct)
		if !ok {
			return ""
		}
		return CanonField(st.Field(x.Field))
	}
	return ""
}

// AccessorCall returns the accessor field name when c is a dynamic call through a
// HandlerFuncParams field.
func AccessorCall(c ssa.CallInstruction) string {
	cc := c.Common()
	if cc.IsInvoke() || cc.StaticCallee() != nil {
		return ""
	}
	return Accessor(cc.Value)
}

// Binding extracts the accessor binding from the HandlerFuncParams literal.
func (w *World) Binding() *Binding {
	w.bindOnce.Do(func() {
		b := &Binding{Field: map[string]*ssa.Function{}}
		for _, fn := range w.FuncsIn("sugardb") {
			for _, blk := range fn.Blocks {
				for _, in := range blk.Instrs {
					st, ok := in.(*ssa.Store)
					if !ok {
						continue
					}
					fa, ok := st.Addr.(*ssa.FieldAddr)
					if !ok || !TypeIs(fa.X.Type(), "/internal", "HandlerFuncParams") {
						continue
					}
					var impl *ssa.Function
					switch v := st.Val.(type) {
					case *ssa.MakeClosure:
						impl = v.Fn.(*ssa.Function)
						// $bound wrapper: resolve to the method
						if impl.Synthetic != "" && len(impl.Blocks) > 0 {
							for _, c := range Calls(impl) {
								if f := c.Common().StaticCallee(); f != nil {
									impl = f
								}
							}
						}
					case *ssa.Function:
						impl = v
					}
					if impl != nil {
						b.Field[FieldName(fa)] = impl
						b.Owner = fn
					}
				}
			}
		}
		w.binding = b
	})
	return w.binding
}

// Dispatchers returns the functions of the module that contain a dynamic call of a
// value of type internal.HandlerFunc, with those call sites.
func (w *World) HandlerInvokers() map[*ssa.Function][]ssa.CallInstruction {
	out := map[*ssa.Function][]ssa.CallInstruction{}
	for _, fn := range w.ModFns {
		for _, c := range Calls(fn) {
			cc := c.Common()
			if cc.IsInvoke() || cc.StaticCallee() != nil {
				continue
			}
			if TypeIs(cc.Value.Type(), "/internal", "HandlerFunc") && !isPtr(cc.Value.Type()) {
				out[fn] = append(out[fn], c)
			}
		}
	}
	return out
}

// Dispatcher returns the unique function of package sugardb that invokes a HandlerFunc.
func (w *World) Dispatcher() (*ssa.Function, []ssa.CallInstruction, error) {
	var fn *ssa.Function
	var calls []ssa.CallInstruction
	n := 0
	for f, cs := range w.HandlerInvokers() {
		if ShortPkg(PkgOf(f)) == "sugardb" {
			fn, calls = f, cs
			n++
		}
	}
	if n != 1 {
		return nil, nil, fmt.Errorf("expected exactly one HandlerFunc-invoking function in package sugardb, found %d", n)
	}
	return fn, calls, nil
}
