// Package world loads /repo's current source (go/packages), type-checks it,
// builds go/ssa and (lazily) the VTA / CHA call graphs. Every svcheck run
// starts here: nothing is cached between runs.
package world

import (
	"fmt"
	"go/ast"
	"go/token"
	"go/types"
	"os"
	"path/filepath"
	"sort"
	"strings"
	"sync"

	"golang.org/x/tools/go/callgraph"
	"golang.org/x/tools/go/callgraph/cha"
	"golang.org/x/tools/go/callgraph/vta"
	"golang.org/x/tools/go/packages"
	"golang.org/x/tools/go/ssa"
	"golang.org/x/tools/go/ssa/ssautil"

	"svcheck/internal/normalize"
)

// Mod is the module path of the system under analysis.
const Mod = "github.com/echovault/sugardb"

type World struct {
	Repo    string
	Fset    *token.FileSet
	Pkgs    []*packages.Package          // module packages only, sorted by path
	ByPath  map[string]*packages.Package // all packages by path
	Prog    *ssa.Program
	AllFns  map[*ssa.Function]bool
	ModFns  []*ssa.Function // every function of the module incl. closures and instantiations, sorted
	byName  map[string]*ssa.Function
	vtaOnce sync.Once
	vtaG    *callgraph.Graph
	chaOnce sync.Once
	chaG    *callgraph.Graph

	cmdOnce sync.Once
	cmds    []*CmdEntry
	cmdErr  error

	bindOnce sync.Once
	binding  *Binding

	FieldNotes []string          // renamed struct fields recognised by type (fields.go)
	Norm       *normalize.Result // what the source-level pre-pass did (unknown helpers inlined)
}

// RepoDir returns the repository directory analysed by this process.
func RepoDir() string {
	if d := os.Getenv("SVCHECK_REPO"); d != "" {
		return d
	}
	return "/repo"
}

// Load loads and type-checks every package of the module and builds SSA.
// Any load or type error is fatal to the check (returned as error).
func Load() (*World, error) {
	dir := RepoDir()
	abs, err := filepath.Abs(dir)
	if err != nil {
		return nil, err
	}
	if r, err := filepath.EvalSymlinks(abs); err == nil {
		abs = r
	}
	env := os.Environ()
	env = append(env, "GOFLAGS=-mod=mod", "GOPROXY=off", "GOSUMDB=off", "GOTOOLCHAIN=local", "GOWORK=off")
	var norm *normalize.Result
	if os.Getenv("SVCHECK_NO_NORMALIZE") == "" {
		func() {
			// the pre-pass never fails a check: on any error or panic fall back to the tree as it is
			defer func() {
				if p := recover(); p != nil {
					norm = &normalize.Result{Problems: []string{fmt.Sprint("normalisation panicked: ", p)}}
				}
			}()
			var nerr error
			norm, nerr = normalize.Run(abs, env)
			if nerr != nil {
				norm = &normalize.Result{Problems: []string{nerr.Error()}}
			}
		}()
	}
	cfg := &packages.Config{
		Mode:  packages.LoadAllSyntax,
		Dir:   abs,
		Env:   env,
		Tests: false,
	}
	if norm != nil && len(norm.Overlay) > 0 {
		cfg.Overlay = norm.Overlay
	}
	pkgs, err := packages.Load(cfg, "./...")
	if err != nil {
		return nil, fmt.Errorf("packages.Load: %v", err)
	}
	if len(pkgs) == 0 {
		return nil, fmt.Errorf("no packages loaded from %s", abs)
	}
	var errs []string
	by := map[string]*packages.Package{}
	packages.Visit(pkgs, nil, func(p *packages.Package) {
		by[p.PkgPath] = p
		for _, e := range p.Errors {
			// plugin example packages declare package main without func main; not a type error
			errs = append(errs, e.Error())
		}
	})
	if len(errs) > 0 {
		sort.Strings(errs)
		if len(errs) > 10 {
			errs = errs[:10]
		}
		return nil, fmt.Errorf("load/type errors:\n  %s", strings.Join(errs, "\n  "))
	}
	prog, _ := ssautil.AllPackages(pkgs, ssa.InstantiateGenerics)
	prog.Build()
	funcRenames = nil
	if norm != nil {
		funcRenames = norm.Renamed
	}
	w := &World{Repo: abs, Fset: prog.Fset, ByPath: by, Prog: prog, Norm: norm}
	for _, p := range pkgs {
		if strings.HasPrefix(p.PkgPath, Mod) {
			w.Pkgs = append(w.Pkgs, p)
		}
	}
	sort.Slice(w.Pkgs, func(i, j int) bool { return w.Pkgs[i].PkgPath < w.Pkgs[j].PkgPath })
	if len(w.Pkgs) < 10 {
		return nil, fmt.Errorf("only %d module packages loaded from %s (expected the whole module)", len(w.Pkgs), abs)
	}
	w.AllFns = ssautil.AllFunctions(prog)
	w.byName = map[string]*ssa.Function{}
	for fn := range w.AllFns {
		if InModule(fn) && fn.Blocks != nil {
			w.ModFns = append(w.ModFns, fn)
		}
	}
	sort.Slice(w.ModFns, func(i, j int) bool {
		a, b := w.ModFns[i], w.ModFns[j]
		if a.Pos() != b.Pos() {
			return a.Pos() < b.Pos()
		}
		return a.String() < b.String()
	})
	w.FieldNotes = w.buildFieldAliases()
	for _, fn := range w.ModFns {
		n := FuncName(fn)
		if _, dup := w.byName[n]; !dup {
			w.byName[n] = fn
		}
	}
	return w, nil
}

// InModule reports whether fn (or its outermost parent / generic origin) is module code.
func InModule(fn *ssa.Function) bool {
	p := PkgOf(fn)
	return p != nil && strings.HasPrefix(p.Path(), Mod)
}

// PkgOf returns the types.Package owning fn, looking through closures,
// instantiations and synthetic wrappers ($bound, $thunk have no Pkg).
func PkgOf(fn *ssa.Function) *types.Package {
	for fn.Parent() != nil {
		fn = fn.Parent()
	}
	if fn.Pkg != nil {
		return fn.Pkg.Pkg
	}
	if o := fn.Origin(); o != nil && o.Pkg != nil {
		return o.Pkg.Pkg
	}
	if obj := fn.Object(); obj != nil && obj.Pkg() != nil {
		return obj.Pkg()
	}
	return nil
}

// ShortPkg returns the module-relative package path ("sugardb", "internal/aof/log").
func ShortPkg(p *types.Package) string {
	if p == nil {
		return "?"
	}
	s := strings.TrimPrefix(p.Path(), Mod)
	s = strings.TrimPrefix(s, "/")
	if s == "" {
		return "."
	}
	return s
}

// FuncName is a stable, position-free name: "sugardb.(*SugarDB).handleCommand",
// "internal/modules/set.handleSADD", closures "sugardb.NewSugarDB$3".
func FuncName(fn *ssa.Function) string {
	if fn == nil {
		return "<nil>"
	}
	if fn.Parent() != nil {
		return FuncName(fn.Parent()) + "$" + strings.TrimPrefix(fn.Name(), fn.Parent().Name()+"$")
	}
	p := PkgOf(fn)
	name := fn.Name()
	if r := fn.Signature.Recv(); r != nil {
		t := r.Type()
		ptr := ""
		if pt, ok := t.(*types.Pointer); ok {
			t = pt.Elem()
			ptr = "*"
		}
		if nt, ok := t.(*types.Named); ok {
			name = "(" + ptr + nt.Obj().Name() + ")." + name
		}
	}
	full := ShortPkg(p) + "." + name
	if len(funcRenames) > 0 {
		if old, ok := funcRenames[strings.Replace(full, "(*", "(", 1)]; ok {
			// report the function under the name the rules know it by (keeping the receiver's form)
			i := strings.LastIndex(old, ".")
			j := strings.LastIndex(full, ".")
			if i >= 0 && j >= 0 {
				return full[:j] + old[i:]
			}
		}
	}
	return full
}

// funcRenames: declared qualified name (normalize form, no '*') -> known name (set by Load).
var funcRenames map[string]string

// Func looks a module function up by its FuncName. Nil if absent.
func (w *World) Func(name string) *ssa.Function { return w.byName[name] }

// Pos renders a position relative to the repository root.
func (w *World) Pos(p token.Pos) string {
	if !p.IsValid() {
		return "-"
	}
	q := w.Fset.Position(p)
	f := q.Filename
	if rel, err := filepath.Rel(w.Repo, f); err == nil && !strings.HasPrefix(rel, "..") {
		f = rel
	}
	return fmt.Sprintf("%s:%d", f, q.Line)
}

// InstrPos returns the best available position for an instruction.
func (w *World) InstrPos(in ssa.Instruction) string {
	if in == nil {
		return "-"
	}
	if p := in.Pos(); p.IsValid() {
		return w.Pos(p)
	}
	// fall back to any positioned instruction in the block, then the function
	if b := in.Block(); b != nil {
		for _, x := range b.Instrs {
			if p := x.Pos(); p.IsValid() {
				return w.Pos(p) + "~"
			}
		}
		return w.Pos(b.Parent().Pos()) + "~"
	}
	return "-"
}

// VTA returns the VTA call graph (built on first use).
func (w *World) VTA() *callgraph.Graph {
	w.vtaOnce.Do(func() {
		w.vtaG = vta.CallGraph(w.AllFns, w.CHA())
	})
	return w.vtaG
}

// CHA returns the CHA call graph (built on first use).
func (w *World) CHA() *callgraph.Graph {
	w.chaOnce.Do(func() { w.chaG = cha.CallGraph(w.Prog) })
	return w.chaG
}

// Callees resolves the possible callees of a call site: the static callee when there
// is one, otherwise the VTA edges. Only functions with bodies or known objects are returned.
func (w *World) Callees(site ssa.CallInstruction) []*ssa.Function {
	if f := site.Common().StaticCallee(); f != nil {
		return []*ssa.Function{f}
	}
	g := w.VTA()
	if os.Getenv("SVCHECK_CG") == "cha" {
		g = w.CHA()
	}
	n := g.Nodes[site.Parent()]
	if n == nil {
		return nil
	}
	var out []*ssa.Function
	seen := map[*ssa.Function]bool{}
	for _, e := range n.Out {
		if e.Site == site && e.Callee != nil && e.Callee.Func != nil && !seen[e.Callee.Func] {
			seen[e.Callee.Func] = true
			out = append(out, e.Callee.Func)
		}
	}
	sort.Slice(out, func(i, j int) bool { return out[i].String() < out[j].String() })
	return out
}

// CalleeName returns the fully qualified name of a static callee ("" for dynamic calls).
func CalleeName(c ssa.CallInstruction) string {
	if f := c.Common().StaticCallee(); f != nil {
		return f.String()
	}
	if c.Common().IsInvoke() {
		return "invoke " + c.Common().Method.FullName()
	}
	return ""
}

// IsMethod reports whether the call (static or interface invoke) targets method
// `name` of a type whose printed name ends with typeSuffix (e.g. "sync.RWMutex").
func IsMethod(c ssa.CallInstruction, typeSuffix, name string) bool {
	cc := c.Common()
	var fn *types.Func
	if cc.IsInvoke() {
		fn = cc.Method
	} else if f := cc.StaticCallee(); f != nil {
		if o, ok := f.Object().(*types.Func); ok {
			fn = o
		} else if f.Signature.Recv() != nil {
			// wrapper
			if f.Name() != name {
				return false
			}
			return strings.HasSuffix(strings.TrimPrefix(f.Signature.Recv().Type().String(), "*"), typeSuffix)
		}
	}
	if fn == nil || fn.Name() != name {
		return false
	}
	sig := fn.Type().(*types.Signature)
	if sig.Recv() == nil {
		return false
	}
	return strings.HasSuffix(strings.TrimPrefix(sig.Recv().Type().String(), "*"), typeSuffix)
}

// FieldOf returns the struct field addressed by fa.
func FieldOf(fa *ssa.FieldAddr) *types.Var {
	pt, ok := fa.X.Type().Underlying().(*types.Pointer)
	if !ok {
		return nil
	}
	st, ok := pt.Elem().Underlying().(*types.Struct)
	if !ok {
		return nil
	}
	return st.Field(fa.Field)
}

// FieldName returns the name of the field addressed by fa ("" if unknown).
func FieldName(fa *ssa.FieldAddr) string {
	return CanonField(FieldOf(fa))
}

// NamedOf returns the named type behind t (through one pointer), or nil.
func NamedOf(t types.Type) *types.Named {
	if p, ok := t.(*types.Pointer); ok {
		t = p.Elem()
	}
	if p, ok := t.Underlying().(*types.Pointer); ok {
		t = p.Elem()
	}
	n, _ := t.(*types.Named)
	return n
}

// TypeIs reports whether t (through one pointer) is the named type pkgSuffix.name.
func TypeIs(t types.Type, pkgSuffix, name string) bool {
	n := NamedOf(t)
	if n == nil || n.Obj().Name() != name {
		return false
	}
	if n.Obj().Pkg() == nil {
		return pkgSuffix == ""
	}
	return strings.HasSuffix(n.Obj().Pkg().Path(), pkgSuffix)
}

// FileOf returns the *ast.File and package containing pos.
func (w *World) FileOf(pos token.Pos) (*ast.File, *packages.Package) {
	for _, p := range w.Pkgs {
		for _, f := range p.Syntax {
			if f.FileStart <= pos && pos <= f.FileEnd {
				return f, p
			}
		}
	}
	return nil, nil
}

// Pkg returns the module package with the given module-relative path.
func (w *World) Pkg(short string) *packages.Package {
	if short == "." || short == "" {
		return w.ByPath[Mod]
	}
	return w.ByPath[Mod+"/"+short]
}

// FuncsIn returns the module functions (incl. closures) whose package short path equals short.
func (w *World) FuncsIn(short string) []*ssa.Function {
	var out []*ssa.Function
	for _, fn := range w.ModFns {
		if ShortPkg(PkgOf(fn)) == short {
			out = append(out, fn)
		}
	}
	return out
}

// Outermost returns the top-level function enclosing fn.
func Outermost(fn *ssa.Function) *ssa.Function {
	for fn.Parent() != nil {
		fn = fn.Parent()
	}
	return fn
}

// AnonAt finds the closure created from the function literal at pos.
func (w *World) AnonAt(pos token.Pos) *ssa.Function {
	for _, fn := range w.ModFns {
		if fn.Parent() != nil && fn.Syntax() != nil && fn.Syntax().Pos() == pos {
			return fn
		}
	}
	return nil
}

// BaseName returns the unqualified name under which the rules know the function (a renamed
// function is reported under its known name; see normalize.Result.Renamed).
func BaseName(fn *ssa.Function) string {
	if fn == nil {
		return ""
	}
	if len(funcRenames) == 0 || fn.Parent() != nil {
		return fn.Name()
	}
	n := FuncName(fn)
	if i := strings.LastIndex(n, "."); i >= 0 {
		return n[i+1:]
	}
	return fn.Name()
}
