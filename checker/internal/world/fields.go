package world

import (
	_ "embed"
	"go/types"
	"sort"
	"strings"
)

// Field-name canonicalisation. The rules name struct fields (guard table, role tests such as
// FieldName(fa) == "memUsed"). known_fields.txt freezes, for every named struct type of the module,
// its fields (nested anonymous structs included) with their types, as of the tree the rules were
// confirmed on. If the tree under analysis lacks an expected field of a struct and that struct has
// exactly one unexpected field of exactly the expected type, the unexpected field is taken to be the
// renamed one and is reported under its expected name. On the confirmed tree the alias map is empty.

//go:embed known_fields.txt
var knownFieldsTxt string

var fieldAlias = map[*types.Var]string{}

// nestedKnown: paths the frozen table lists as anonymous nested structs.
var nestedKnown = map[string]bool{}

// CanonField returns the name under which the rules know the field.
func CanonField(v *types.Var) string {
	if v == nil {
		return ""
	}
	if a, ok := fieldAlias[v]; ok {
		return a
	}
	return v.Name()
}

func relType(t types.Type) string {
	return types.TypeString(t, func(p *types.Package) string { return strings.TrimPrefix(strings.TrimPrefix(p.Path(), Mod), "/") })
}

type structWalk func(path string, st *types.Struct)

func (w *World) walkStructs(fn structWalk) {
	for _, p := range w.Pkgs {
		rel := strings.TrimPrefix(strings.TrimPrefix(p.PkgPath, Mod), "/")
		sc := p.Types.Scope()
		names := sc.Names()
		sort.Strings(names)
		for _, n := range names {
			tn, ok := sc.Lookup(n).(*types.TypeName)
			if !ok || tn.IsAlias() {
				continue
			}
			st, ok := tn.Type().Underlying().(*types.Struct)
			if !ok {
				continue
			}
			var rec func(path string, st *types.Struct, d int)
			rec = func(path string, st *types.Struct, d int) {
				fn(path, st)
				if d > 3 {
					return
				}
				for i := 0; i < st.NumFields(); i++ {
					f := st.Field(i)
					if inner, ok := f.Type().(*types.Struct); ok {
						rec(path+"."+CanonField(f), inner, d+1)
					} else if inner, ok := f.Type().Underlying().(*types.Struct); ok && nestedKnown[path+"."+CanonField(f)] {
						// an anonymous nested struct of the confirmed tree that has since been given a name
						rec(path+"."+CanonField(f), inner, d+1)
					}
				}
			}
			rec(rel+"."+n, st, 0)
		}
	}
}

// EmitKnownFields renders known_fields.txt for the loaded tree.
func (w *World) EmitKnownFields() string {
	var b strings.Builder
	b.WriteString("# struct fields of the tree the rules were confirmed on (svcheck -emit-known-fields)\n")
	w.walkStructs(func(path string, st *types.Struct) {
		for i := 0; i < st.NumFields(); i++ {
			f := st.Field(i)
			t := relType(f.Type())
			if _, ok := f.Type().(*types.Struct); ok {
				t = "struct"
			}
			b.WriteString(path + "." + f.Name() + "\t" + t + "\n")
		}
	})
	return b.String()
}

func (w *World) buildFieldAliases() []string {
	fieldAlias = map[*types.Var]string{}
	expected := map[string]map[string]string{} // struct path -> field -> type
	for _, l := range strings.Split(knownFieldsTxt, "\n") {
		if l == "" || strings.HasPrefix(l, "#") {
			continue
		}
		parts := strings.SplitN(l, "\t", 2)
		if len(parts) != 2 {
			continue
		}
		i := strings.LastIndex(parts[0], ".")
		if i < 0 {
			continue
		}
		sp, f := parts[0][:i], parts[0][i+1:]
		if expected[sp] == nil {
			expected[sp] = map[string]string{}
		}
		expected[sp][f] = parts[1]
		if parts[1] == "struct" {
			nestedKnown[parts[0]] = true
		}
	}
	var notes []string
	w.walkStructs(func(path string, st *types.Struct) {
		exp := expected[path]
		if exp == nil {
			return
		}
		have := map[string]bool{}
		for i := 0; i < st.NumFields(); i++ {
			have[st.Field(i).Name()] = true
		}
		var missing []string
		for f := range exp {
			if !have[f] {
				missing = append(missing, f)
			}
		}
		sort.Strings(missing)
		for _, m := range missing {
			var cands []*types.Var
			for i := 0; i < st.NumFields(); i++ {
				f := st.Field(i)
				if _, known := exp[f.Name()]; known {
					continue
				}
				if _, taken := fieldAlias[f]; taken {
					continue
				}
				t := relType(f.Type())
				if _, ok := f.Type().Underlying().(*types.Struct); ok && exp[m] == "struct" {
					t = "struct"
				}
				if t == exp[m] {
					cands = append(cands, f)
				}
			}
			if len(cands) == 1 {
				fieldAlias[cands[0]] = m
				notes = append(notes, path+"."+cands[0].Name()+" is taken to be the renamed "+path+"."+m)
			}
		}
	})
	return notes
}
