package world

import (
	"go/constant"
	"go/token"
	"go/types"

	"golang.org/x/tools/go/ssa"
)

// ---- must-fact dataflow over SSA blocks (I4) ----

type Facts uint64

// EdgeGen returns facts generated on the edge from block b to its successor index si
// (0 = true / 1 = false for an If terminator).
type EdgeGen func(b *ssa.BasicBlock, si int) Facts

// InstrFn returns facts generated (or killed) by an instruction.
type InstrFn func(in ssa.Instruction) Facts

// Must computes, per block, the facts that hold on entry on ALL paths from the function entry.
// Unreachable blocks keep the top element.
func Must(fn *ssa.Function, eg EdgeGen, gen, kill InstrFn) map[*ssa.BasicBlock]Facts {
	return MustFrom(fn, 0, eg, gen, kill)
}

// MustFrom is Must with the facts that hold on entry to the function.
func MustFrom(fn *ssa.Function, entry Facts, eg EdgeGen, gen, kill InstrFn) map[*ssa.BasicBlock]Facts {
	const top = ^Facts(0)
	in := map[*ssa.BasicBlock]Facts{}
	for _, b := range fn.Blocks {
		in[b] = top
	}
	if len(fn.Blocks) == 0 {
		return in
	}
	in[fn.Blocks[0]] = entry
	out := func(b *ssa.BasicBlock) Facts {
		f := in[b]
		for _, i := range b.Instrs {
			if kill != nil {
				f &^= kill(i)
			}
			if gen != nil {
				f |= gen(i)
			}
		}
		return f
	}
	changed := true
	for changed {
		changed = false
		for _, b := range fn.Blocks {
			if b == fn.Blocks[0] {
				continue
			}
			f := top
			for _, p := range b.Preds {
				o := out(p)
				for si, s := range p.Succs {
					if s == b {
						if constEdgeInfeasible(p, si) {
							continue
						}
						e := o
						if eg != nil {
							e |= eg(p, si)
						}
						if pe, ok := phiEdge(p, si, in, eg, gen, kill, true); ok {
							e = pe
						}
						f &= e
					}
				}
			}
			if f != in[b] {
				in[b] = f
				changed = true
			}
		}
	}
	return in
}

// constEdgeInfeasible: the block ends in a test of a constant (a flag of an inlined helper bound to
// true or false at this call: `if !volatileOnly || …` with volatileOnly = false) and this successor
// is the branch that is never taken.
func constEdgeInfeasible(p *ssa.BasicBlock, si int) bool {
	iff := IfOf(p)
	if iff == nil || len(p.Succs) != 2 {
		return false
	}
	v := iff.Cond
	neg := false
	for {
		u, ok := v.(*ssa.UnOp)
		if !ok || u.Op != token.NOT {
			break
		}
		v, neg = u.X, !neg
	}
	c, ok := v.(*ssa.Const)
	if !ok {
		return false
	}
	b, ok := ConstBool(c)
	if !ok {
		return false
	}
	taken := 0
	if b == neg {
		taken = 1
	}
	return si != taken
}

// May computes, per block, the facts that hold on entry on SOME path from the entry.
func May(fn *ssa.Function, eg EdgeGen, gen, kill InstrFn) map[*ssa.BasicBlock]Facts {
	return MayFrom(fn, 0, eg, gen, kill)
}

// MayFrom is May with the facts that may hold on entry.
func MayFrom(fn *ssa.Function, entry Facts, eg EdgeGen, gen, kill InstrFn) map[*ssa.BasicBlock]Facts {
	in := map[*ssa.BasicBlock]Facts{}
	if len(fn.Blocks) == 0 {
		return in
	}
	in[fn.Blocks[0]] = entry
	out := func(b *ssa.BasicBlock) Facts {
		f := in[b]
		for _, i := range b.Instrs {
			if kill != nil {
				f &^= kill(i)
			}
			if gen != nil {
				f |= gen(i)
			}
		}
		return f
	}
	changed := true
	for changed {
		changed = false
		for _, b := range fn.Blocks {
			var f Facts
			for _, p := range b.Preds {
				o := out(p)
				for si, s := range p.Succs {
					if s == b {
						if constEdgeInfeasible(p, si) {
							continue
						}
						e := o
						if eg != nil {
							e |= eg(p, si)
						}
						if pe, ok := phiEdge(p, si, in, eg, gen, kill, false); ok {
							e = pe
						}
						f |= e
					}
				}
			}
			if b == fn.Blocks[0] {
				f |= entry
			}
			if f != in[b] {
				in[b] = f
				changed = true
			}
		}
	}
	return in
}

// ---- path sensitivity for tests of phi values ----
//
// A block p that joins several paths and then branches on a value merged by a phi of p
// (`res, err := helper(); if err != nil` after the helper was inlined; `ok := a; if c { ok = b }; if ok`)
// is treated as if it were duplicated per predecessor: for each predecessor q the phi is replaced by
// its incoming value, the branch is decided when that value is a constant (nil / non-nil / bool), and
// the edge generator is evaluated with the substitution in force (CondValue, NilEdge and ErrNilEdge
// see the incoming value). Without this, facts established on one incoming path are intersected away
// at the join although the test that follows separates the paths again.

var phiSubst map[*ssa.Phi]ssa.Value

// SubstPhi returns the value currently substituted for v (v itself outside a per-predecessor evaluation).
func SubstPhi(v ssa.Value) ssa.Value {
	if phiSubst == nil {
		return v
	}
	for i := 0; i < 4; i++ {
		p, ok := v.(*ssa.Phi)
		if !ok {
			return v
		}
		r, ok := phiSubst[p]
		if !ok {
			return v
		}
		v = r
	}
	return v
}

// CondValue returns the condition of iff with the current phi substitution applied.
func CondValue(iff *ssa.If) ssa.Value { return SubstPhi(iff.Cond) }

// condPhis returns the phis of block p that its terminating If depends on (through comparisons
// and negations computed in p); nil if p is not such a block.
func condPhis(p *ssa.BasicBlock) []*ssa.Phi {
	iff := IfOf(p)
	if iff == nil || len(p.Preds) < 2 {
		return nil
	}
	var out []*ssa.Phi
	var walk func(v ssa.Value, d int)
	walk = func(v ssa.Value, d int) {
		if d > 4 {
			return
		}
		switch x := v.(type) {
		case *ssa.Phi:
			if x.Block() == p {
				out = append(out, x)
			}
		case *ssa.BinOp:
			if x.Block() == p {
				walk(x.X, d+1)
				walk(x.Y, d+1)
			}
		case *ssa.UnOp:
			if x.Block() == p && x.Op == token.NOT {
				walk(x.X, d+1)
			}
		}
	}
	walk(iff.Cond, 0)
	return out
}

// decideCond evaluates a branch condition under the current substitution: (value, known).
func decideCond(v ssa.Value, d int) (bool, bool) {
	if d > 4 {
		return false, false
	}
	v = SubstPhi(v)
	switch x := v.(type) {
	case *ssa.Const:
		return ConstBool(x)
	case *ssa.UnOp:
		if x.Op == token.NOT {
			b, ok := decideCond(x.X, d+1)
			return !b, ok
		}
	case *ssa.BinOp:
		if x.Op != token.EQL && x.Op != token.NEQ {
			return false, false
		}
		a, b := SubstPhi(x.X), SubstPhi(x.Y)
		var other ssa.Value
		switch {
		case IsNilConst(b):
			other = a
		case IsNilConst(a):
			other = b
		default:
			return false, false
		}
		isNil, known := nilness(other)
		if !known && phiPred != nil {
			isNil, known = nilnessAt(other, phiPred)
		}
		if !known {
			return false, false
		}
		return isNil == (x.Op == token.EQL), true
	}
	return false, false
}

// phiPred is the predecessor block for which the current substitution holds.
var phiPred *ssa.BasicBlock

// nilnessAt: nil-ness of v established by a dominating test: some dominator d of block q ends in
// `v == nil` / `v != nil` and only one of its successors (entered from d alone) dominates q.
func nilnessAt(v ssa.Value, q *ssa.BasicBlock) (bool, bool) {
	for d := q; d != nil; d = d.Idom() {
		iff := IfOf(d)
		if iff == nil || len(d.Succs) != 2 {
			continue
		}
		x, eq, ok := NilTest(iff.Cond)
		if !ok || x != v {
			continue
		}
		through := func(s *ssa.BasicBlock) bool {
			return len(s.Preds) == 1 && (s == q || s.Dominates(q))
		}
		t, f := through(d.Succs[0]), through(d.Succs[1])
		if t == f {
			continue
		}
		// true edge taken: cond holds
		condHolds := t
		return condHolds == eq, true
	}
	return false, false
}

// NilnessAt exposes nilnessAt: the nil-ness of v on entry to block q as established by dominating tests.
func NilnessAt(v ssa.Value, q *ssa.BasicBlock) (bool, bool) {
	if isNil, known := nilness(v); known {
		return isNil, true
	}
	return nilnessAt(v, q)
}

// nilness: (is nil, known) for values whose nil-ness is evident.
func nilness(v ssa.Value) (bool, bool) {
	switch x := v.(type) {
	case *ssa.Const:
		if x.IsNil() {
			return true, true
		}
	case *ssa.MakeInterface, *ssa.Alloc, *ssa.MakeMap, *ssa.MakeSlice, *ssa.MakeChan, *ssa.MakeClosure, *ssa.FieldAddr, *ssa.IndexAddr:
		return false, true
	case *ssa.Call:
		if f := x.Call.StaticCallee(); f != nil {
			switch f.String() {
			case "errors.New", "fmt.Errorf":
				return false, true
			}
		}
	}
	return false, false
}

// phiEdge computes the facts flowing along the edge p -> p.Succs[si] when p branches on phis of its
// own: the meet (must) / join (may) over the predecessors q of p whose incoming values allow that
// successor, of transfer(p, facts on q->p) plus the edge facts generated under the substitution.
func phiEdge(p *ssa.BasicBlock, si int, in map[*ssa.BasicBlock]Facts, eg EdgeGen, gen, kill InstrFn, must bool) (Facts, bool) {
	if phiSubst != nil {
		return 0, false // no nesting
	}
	phis := condPhis(p)
	if len(phis) == 0 {
		return 0, false
	}
	iff := IfOf(p)
	transfer := func(b *ssa.BasicBlock, f Facts) Facts {
		for _, i := range b.Instrs {
			if kill != nil {
				f &^= kill(i)
			}
			if gen != nil {
				f |= gen(i)
			}
		}
		return f
	}
	const top = ^Facts(0)
	var acc Facts
	if must {
		acc = top
	}
	// contributions: for predecessor index k of block b, the (facts on the edge, phi substitution,
	// origin block) alternatives. A predecessor that only merges values (phis, then an unconditional
	// jump) and whose phis feed b's phis is expanded into its own predecessors, so that nested merges
	// (a helper inlined inside a helper) are separated as well.
	type contrib struct {
		fin  Facts
		sub  map[*ssa.Phi]ssa.Value
		from *ssa.BasicBlock
	}
	var contributions func(b *ssa.BasicBlock, k int, depth int) []contrib
	contributions = func(b *ssa.BasicBlock, k int, depth int) []contrib {
		q := b.Preds[k]
		sub := map[*ssa.Phi]ssa.Value{}
		for _, in2 := range b.Instrs {
			ph, ok := in2.(*ssa.Phi)
			if !ok {
				break
			}
			if k < len(ph.Edges) {
				sub[ph] = ph.Edges[k]
			}
		}
		// is q a pure merge block feeding b?
		pure := depth < 3 && len(q.Preds) >= 2 && len(q.Succs) == 1
		feeds := false
		if pure {
			for _, in2 := range q.Instrs {
				switch x := in2.(type) {
				case *ssa.Phi:
					for _, v := range sub {
						if v == ssa.Value(x) {
							feeds = true
						}
					}
				case *ssa.Jump:
				default:
					pure = false
				}
			}
		}
		if pure && feeds {
			var out []contrib
			for k2 := range q.Preds {
				for _, c := range contributions(q, k2, depth+1) {
					// compose: values of b's phis that are q's phis take q's incoming value
					ns := map[*ssa.Phi]ssa.Value{}
					for ph, v := range sub {
						if vp, ok := v.(*ssa.Phi); ok {
							if r, ok := c.sub[vp]; ok {
								ns[ph] = r
								continue
							}
						}
						ns[ph] = v
					}
					for ph, v := range c.sub {
						if _, dup := ns[ph]; !dup {
							ns[ph] = v
						}
					}
					fin := c.fin
					if eg != nil {
						fin |= eg(q, 0)
					}
					out = append(out, contrib{fin, ns, c.from})
				}
			}
			return out
		}
		var fin Facts
		if must {
			fin = top
		}
		oq := transfer(q, in[q])
		for sj, s := range q.Succs {
			if s != b {
				continue
			}
			e := oq
			if eg != nil {
				e |= eg(q, sj)
			}
			if must {
				fin &= e
			} else {
				fin |= e
			}
		}
		if must && in[q] == top && q != b.Parent().Blocks[0] {
			fin = top // q not reached (yet): contributes the top element
		}
		return []contrib{{fin, sub, q}}
	}
	for k := range p.Preds {
		for _, cb := range contributions(p, k, 0) {
			fin, q := cb.fin, cb.from
			phiSubst = cb.sub
			phiPred = q
			val, known := decideCond(iff.Cond, 0)
			feasible := !known || (val == (si == 0))
			var e Facts
			if feasible {
				e = transfer(p, fin)
				if eg != nil {
					e |= eg(p, si)
				}
			}
			phiSubst = nil
			phiPred = nil
			if !feasible {
				continue
			}
			if must {
				acc &= e
			} else {
				acc |= e
			}
		}
	}
	return acc, true
}

// SuccsFrom returns the successor indices of b that are feasible when b is entered from pred:
// all of them, unless b branches on a phi of its own whose incoming value from pred decides the test.
func SuccsFrom(pred, b *ssa.BasicBlock) []int {
	all := make([]int, len(b.Succs))
	for i := range all {
		all[i] = i
	}
	if pred == nil || phiSubst != nil || len(condPhis(b)) == 0 {
		return all
	}
	k := -1
	for i, q := range b.Preds {
		if q == pred {
			k = i
		}
	}
	if k < 0 {
		return all
	}
	sub := map[*ssa.Phi]ssa.Value{}
	for _, in := range b.Instrs {
		ph, ok := in.(*ssa.Phi)
		if !ok {
			break
		}
		if k < len(ph.Edges) {
			sub[ph] = ph.Edges[k]
		}
	}
	phiSubst, phiPred = sub, pred
	val, known := decideCond(IfOf(b).Cond, 0)
	phiSubst, phiPred = nil, nil
	if !known {
		return all
	}
	if val {
		return []int{0}
	}
	return []int{1}
}

// FactsAt returns the facts holding just before instruction at.
func FactsAt(in map[*ssa.BasicBlock]Facts, at ssa.Instruction, gen, kill InstrFn) Facts {
	b := at.Block()
	f := in[b]
	for _, i := range b.Instrs {
		if i == at {
			break
		}
		if kill != nil {
			f &^= kill(i)
		}
		if gen != nil {
			f |= gen(i)
		}
	}
	return f
}

// Reachable returns the set of blocks reachable from the entry block.
func Reachable(fn *ssa.Function) map[*ssa.BasicBlock]bool {
	seen := map[*ssa.BasicBlock]bool{}
	if len(fn.Blocks) == 0 {
		return seen
	}
	var dfs func(b *ssa.BasicBlock)
	dfs = func(b *ssa.BasicBlock) {
		if seen[b] {
			return
		}
		seen[b] = true
		for _, s := range b.Succs {
			dfs(s)
		}
	}
	dfs(fn.Blocks[0])
	return seen
}

// IfOf returns the If terminating block b, or nil.
func IfOf(b *ssa.BasicBlock) *ssa.If {
	if len(b.Instrs) == 0 {
		return nil
	}
	iff, _ := b.Instrs[len(b.Instrs)-1].(*ssa.If)
	return iff
}

// IsNilConst reports whether v is the nil constant.
func IsNilConst(v ssa.Value) bool {
	c, ok := v.(*ssa.Const)
	return ok && c.IsNil()
}

// NilTest decomposes `x == nil` / `x != nil`; eqNil is true for ==.
func NilTest(cond ssa.Value) (x ssa.Value, eqNil bool, ok bool) {
	bo, isb := cond.(*ssa.BinOp)
	if !isb || (bo.Op != token.EQL && bo.Op != token.NEQ) {
		return nil, false, false
	}
	switch {
	case IsNilConst(bo.Y):
		x = bo.X
	case IsNilConst(bo.X):
		x = bo.Y
	default:
		return nil, false, false
	}
	return x, bo.Op == token.EQL, true
}

// NilEdge: if block b ends in a nil test of a value accepted by pred, returns the successor
// index taken when the value IS nil, else -1.
func NilEdge(b *ssa.BasicBlock, pred func(ssa.Value) bool) int {
	iff := IfOf(b)
	if iff == nil {
		return -1
	}
	x, eq, ok := NilTest(SubstPhi(iff.Cond))
	if ok {
		x = SubstPhi(x)
	}
	if !ok || !pred(x) {
		return -1
	}
	if eq {
		return 0
	}
	return 1
}

// ErrSource returns the call whose (error) result v carries: v is the call itself
// (single result) or an Extract of its tuple; looks through defer-spilled locals
// and phi-free stores in the same function is NOT attempted (nil if unknown).
func ErrSource(v ssa.Value) ssa.Value {
	switch x := v.(type) {
	case *ssa.Extract:
		return x.Tuple
	case *ssa.Call:
		return x
	}
	return nil
}

// ErrNilEdge: successor index of the `err == nil` edge when block b tests the error
// produced by a call accepted by isCall; -1 otherwise. The error may have been stored
// to and re-loaded from a local (escaping `err` variables): handled by LoadedFrom.
func ErrNilEdge(b *ssa.BasicBlock, isCall func(ssa.Value) bool) int {
	return NilEdge(b, func(x ssa.Value) bool {
		if s := ErrSource(x); s != nil && isCall(s) {
			return true
		}
		// err variable kept in an alloc: the value tested is a load; accept when the
		// last store into that alloc in the same block (before the load) is from the call.
		if u, ok := x.(*ssa.UnOp); ok && u.Op == token.MUL {
			if last := LastStoreBefore(u); last != nil {
				if s := ErrSource(last); s != nil && isCall(s) {
					return true
				}
			}
		}
		return false
	})
}

// LastStoreBefore returns the value most recently stored to the address loaded by u,
// searching backwards in u's block only (nil if none).
func LastStoreBefore(u *ssa.UnOp) ssa.Value {
	b := u.Block()
	if b == nil {
		return nil
	}
	var last ssa.Value
	for _, in := range b.Instrs {
		if in == ssa.Instruction(u) {
			break
		}
		if st, ok := in.(*ssa.Store); ok && st.Addr == u.X {
			last = st.Val
		}
	}
	return last
}

// RetVals returns the values returned by r, looking through defer-spilled result locals.
func RetVals(r *ssa.Return) []ssa.Value {
	out := make([]ssa.Value, len(r.Results))
	for i, v := range r.Results {
		out[i] = v
		u, ok := v.(*ssa.UnOp)
		if !ok || u.Op != token.MUL {
			continue
		}
		if _, ok := u.X.(*ssa.Alloc); !ok {
			continue
		}
		if last := LastStoreBefore(u); last != nil {
			out[i] = last
		}
	}
	return out
}

// Returns lists the Return instructions of fn in reachable blocks.
func Returns(fn *ssa.Function) []*ssa.Return {
	var out []*ssa.Return
	reach := Reachable(fn)
	for _, b := range fn.Blocks {
		if !reach[b] {
			continue
		}
		for _, in := range b.Instrs {
			if r, ok := in.(*ssa.Return); ok {
				out = append(out, r)
			}
		}
	}
	return out
}

// ConstInt returns the integer value of a constant.
func ConstInt(v ssa.Value) (int64, bool) {
	c, ok := v.(*ssa.Const)
	if !ok || c.Value == nil || c.Value.Kind() != constant.Int {
		return 0, false
	}
	return constant.Int64Val(c.Value)
}

// ConstString returns the string value of a constant.
func ConstString(v ssa.Value) (string, bool) {
	c, ok := v.(*ssa.Const)
	if !ok || c.Value == nil || c.Value.Kind() != constant.String {
		return "", false
	}
	return constant.StringVal(c.Value), true
}

// ConstBool returns the bool value of a constant.
func ConstBool(v ssa.Value) (bool, bool) {
	c, ok := v.(*ssa.Const)
	if !ok || c.Value == nil || c.Value.Kind() != constant.Bool {
		return false, false
	}
	return constant.BoolVal(c.Value), true
}

// IsErrorType reports whether t is the predeclared error type.
func IsErrorType(t types.Type) bool {
	return types.Identical(t, types.Universe.Lookup("error").Type())
}

// Calls lists the call instructions (Call, Go, Defer) of fn in block order.
func Calls(fn *ssa.Function) []ssa.CallInstruction {
	var out []ssa.CallInstruction
	for _, b := range fn.Blocks {
		for _, in := range b.Instrs {
			if c, ok := in.(ssa.CallInstruction); ok {
				out = append(out, c)
			}
		}
	}
	return out
}

// Dominates reports whether instruction a dominates instruction b (same function).
func Dominates(a, b ssa.Instruction) bool {
	ba, bb := a.Block(), b.Block()
	if ba == bb {
		for _, in := range ba.Instrs {
			if in == a {
				return true
			}
			if in == b {
				return false
			}
		}
		return false
	}
	return ba.Dominates(bb)
}

// Unwrap strips ChangeType / MakeInterface / ChangeInterface / Convert wrappers.
func Unwrap(v ssa.Value) ssa.Value {
	for {
		switch x := v.(type) {
		case *ssa.ChangeType:
			v = x.X
		case *ssa.MakeInterface:
			v = x.X
		case *ssa.ChangeInterface:
			v = x.X
		case *ssa.Convert:
			v = x.X
		default:
			return v
		}
	}
}

// SameExpr is a structural comparison of two SSA value trees (SSA performs no CSE).
func SameExpr(a, b ssa.Value) bool { return sameExpr(a, b, 0) }

func sameExpr(a, b ssa.Value, depth int) bool {
	if a == b {
		return true
	}
	if a == nil || b == nil || depth > 12 {
		return false
	}
	switch x := a.(type) {
	case *ssa.Const:
		y, ok := b.(*ssa.Const)
		if !ok {
			return false
		}
		if x.Value == nil || y.Value == nil {
			return x.Value == nil && y.Value == nil && types.Identical(x.Type(), y.Type())
		}
		return constant.Compare(x.Value, token.EQL, y.Value)
	case *ssa.UnOp:
		y, ok := b.(*ssa.UnOp)
		if !ok || x.Op != y.Op || x.CommaOk != y.CommaOk {
			return false
		}
		if x.Op == token.MUL {
			// loads: same address expression; sound only when no intervening store, which callers accept
			return sameExpr(x.X, y.X, depth+1)
		}
		return sameExpr(x.X, y.X, depth+1)
	case *ssa.FieldAddr:
		y, ok := b.(*ssa.FieldAddr)
		return ok && x.Field == y.Field && sameExpr(x.X, y.X, depth+1)
	case *ssa.Field:
		y, ok := b.(*ssa.Field)
		return ok && x.Field == y.Field && sameExpr(x.X, y.X, depth+1)
	case *ssa.IndexAddr:
		y, ok := b.(*ssa.IndexAddr)
		return ok && sameExpr(x.X, y.X, depth+1) && sameExpr(x.Index, y.Index, depth+1)
	case *ssa.Index:
		y, ok := b.(*ssa.Index)
		return ok && sameExpr(x.X, y.X, depth+1) && sameExpr(x.Index, y.Index, depth+1)
	case *ssa.Lookup:
		y, ok := b.(*ssa.Lookup)
		return ok && x.CommaOk == y.CommaOk && sameExpr(x.X, y.X, depth+1) && sameExpr(x.Index, y.Index, depth+1)
	case *ssa.BinOp:
		y, ok := b.(*ssa.BinOp)
		return ok && x.Op == y.Op && sameExpr(x.X, y.X, depth+1) && sameExpr(x.Y, y.Y, depth+1)
	case *ssa.Convert:
		y, ok := b.(*ssa.Convert)
		return ok && types.Identical(x.Type(), y.Type()) && sameExpr(x.X, y.X, depth+1)
	case *ssa.ChangeType:
		y, ok := b.(*ssa.ChangeType)
		return ok && sameExpr(x.X, y.X, depth+1)
	case *ssa.Extract:
		y, ok := b.(*ssa.Extract)
		return ok && x.Index == y.Index && sameExpr(x.Tuple, y.Tuple, depth+1)
	case *ssa.Call:
		y, ok := b.(*ssa.Call)
		if !ok {
			return false
		}
		// only builtin len/cap are treated as pure expressions
		bx, ok1 := x.Call.Value.(*ssa.Builtin)
		by, ok2 := y.Call.Value.(*ssa.Builtin)
		if !ok1 || !ok2 || bx.Name() != by.Name() || (bx.Name() != "len" && bx.Name() != "cap") {
			return false
		}
		return sameExpr(x.Call.Args[0], y.Call.Args[0], depth+1)
	case *ssa.Slice:
		y, ok := b.(*ssa.Slice)
		if !ok {
			return false
		}
		eq := func(p, q ssa.Value) bool {
			if p == nil || q == nil {
				return p == nil && q == nil
			}
			return sameExpr(p, q, depth+1)
		}
		return sameExpr(x.X, y.X, depth+1) && eq(x.Low, y.Low) && eq(x.High, y.High) && eq(x.Max, y.Max)
	}
	return false
}

// Forward looks through a local struct used as a parameter object: a load of field i of a local
// struct variable yields the value stored into that field, when every store to it (in the function)
// stores the same value or there is exactly one; whole-struct copies between locals and struct values
// returned by calls are followed (after normalisation helper calls are inlined, so result structs are
// locals too). Anything else is returned unchanged. Used by identity rules ("the key passed to SetExpiry
// is the key the key-function reported") so that grouping values in a struct does not hide them.
func Forward(v ssa.Value) ssa.Value { return forward(v, 0) }

func forward(v ssa.Value, d int) ssa.Value {
	if d > 8 || v == nil {
		return v
	}
	switch x := v.(type) {
	case *ssa.UnOp:
		if x.Op != token.MUL {
			return v
		}
		switch a := x.X.(type) {
		case *ssa.FieldAddr:
			if r := fieldOf(a.X, a.Field, d+1); r != nil {
				return forward(r, d+1)
			}
		case *ssa.Alloc:
			// scalar local with a single store
			if s := singleStoreTo(a); s != nil {
				return forward(s, d+1)
			}
		}
	case *ssa.Field:
		if r := fieldOfValue(x.X, x.Field, d+1); r != nil {
			return forward(r, d+1)
		}
	case *ssa.Phi:
		var first ssa.Value
		for _, e := range x.Edges {
			f := forward(e, d+1)
			if first == nil {
				first = f
			} else if f != first {
				return v
			}
		}
		if first != nil {
			return first
		}
	}
	return v
}

func singleStoreTo(al *ssa.Alloc) ssa.Value {
	var val ssa.Value
	n := 0
	if al.Referrers() == nil {
		return nil
	}
	for _, r := range *al.Referrers() {
		switch st := r.(type) {
		case *ssa.Store:
			if st.Addr == ssa.Value(al) {
				n++
				val = st.Val
			}
		case *ssa.FieldAddr, *ssa.IndexAddr:
			return nil // partially written elsewhere
		}
	}
	if n == 1 {
		return val
	}
	return nil
}

// fieldOf: the value of field idx of the struct at address base (a local Alloc).
func fieldOf(base ssa.Value, idx int, d int) ssa.Value {
	al, ok := base.(*ssa.Alloc)
	if !ok || d > 8 || al.Referrers() == nil {
		return nil
	}
	var fieldStores []ssa.Value
	var whole []ssa.Value
	for _, r := range *al.Referrers() {
		switch x := r.(type) {
		case *ssa.FieldAddr:
			if x.Field != idx || x.Referrers() == nil {
				continue
			}
			for _, r2 := range *x.Referrers() {
				if st, ok := r2.(*ssa.Store); ok && st.Addr == ssa.Value(x) {
					fieldStores = append(fieldStores, st.Val)
				}
			}
		case *ssa.Store:
			if x.Addr == ssa.Value(al) {
				whole = append(whole, x.Val)
			}
		}
	}
	if len(fieldStores) == 1 && len(whole) == 0 {
		return fieldStores[0]
	}
	if len(fieldStores) == 0 && len(whole) == 1 {
		return fieldOfValue(whole[0], idx, d+1)
	}
	if len(fieldStores) == 1 && len(whole) == 1 {
		// zero-value initialisation followed by the field assignment
		if c, ok := whole[0].(*ssa.Const); ok && c.Value == nil {
			return fieldStores[0]
		}
	}
	return nil
}

// fieldOfValue: field idx of a struct VALUE (a load of a local, a phi-free copy, ...).
func fieldOfValue(v ssa.Value, idx int, d int) ssa.Value {
	if d > 8 {
		return nil
	}
	switch x := v.(type) {
	case *ssa.UnOp:
		if x.Op == token.MUL {
			return fieldOf(x.X, idx, d+1)
		}
	case *ssa.Phi:
		var first ssa.Value
		for _, e := range x.Edges {
			f := fieldOfValue(e, idx, d+1)
			if f == nil {
				return nil
			}
			if first == nil {
				first = f
			} else if f != first {
				return nil
			}
		}
		return first
	}
	return nil
}

// ---- loops whose first iteration is certain ----

// lenOperand: v is len(x) or len(x) - k (k >= 0); returns x and k.
func lenOperand(v ssa.Value) (ssa.Value, int64, bool) {
	if c, ok := v.(*ssa.Call); ok {
		if bi, ok := c.Call.Value.(*ssa.Builtin); ok && bi.Name() == "len" && len(c.Call.Args) == 1 {
			return c.Call.Args[0], 0, true
		}
	}
	if bo, ok := v.(*ssa.BinOp); ok && bo.Op == token.SUB {
		if k, ok := ConstInt(bo.Y); ok && k >= 0 {
			if x, k0, ok := lenOperand(bo.X); ok {
				return x, k0 + k, true
			}
		}
	}
	return nil, 0, false
}

// lenLowerBound: the least value len(x) can have when block b is entered, from the If tests that
// dominate b (len(x) > c, len(x) >= c, !(len(x) <= c), len(x) != 0 ...). -1 when nothing is known.
func lenLowerBound(x ssa.Value, b *ssa.BasicBlock) int64 {
	best := int64(-1)
	for d := b.Idom(); d != nil; d = d.Idom() {
		iff := IfOf(d)
		if iff == nil || len(d.Succs) != 2 {
			continue
		}
		// which edge leads to b
		t := d.Succs[0].Dominates(b) && (len(d.Succs[0].Preds) == 1 || d.Succs[0] == b)
		f := d.Succs[1].Dominates(b) && (len(d.Succs[1].Preds) == 1 || d.Succs[1] == b)
		if t == f {
			continue
		}
		bo, ok := CondValue(iff).(*ssa.BinOp)
		if !ok {
			continue
		}
		lx, k, ok := lenOperand(bo.X)
		c, okc := ConstInt(bo.Y)
		if !ok || !okc || k != 0 || !SameExpr(lx, x) {
			continue
		}
		lb := int64(-1)
		switch bo.Op {
		case token.GTR: // len > c
			if t {
				lb = c + 1
			}
		case token.GEQ:
			if t {
				lb = c
			}
		case token.LEQ: // !(len <= c)
			if f {
				lb = c + 1
			}
		case token.LSS:
			if f {
				lb = c
			}
		case token.EQL:
			if f && c == 0 {
				lb = 1
			}
		case token.NEQ:
			if t && c == 0 {
				lb = 1
			}
		}
		if lb > best {
			best = lb
		}
	}
	return best
}

// FirstTripCertain: h is the header of a counted loop `for i := a; i < len(x)-k; ...` (or <=) whose
// test is certainly true when the loop is entered, because a dominating test bounds len(x) from
// below. Returns the index of the successor edge that leaves the loop (taken only after at least one
// iteration).
func FirstTripCertain(h *ssa.BasicBlock) (exitSucc int, ok bool) {
	iff := IfOf(h)
	if iff == nil || len(h.Succs) != 2 {
		return 0, false
	}
	bo, isB := iff.Cond.(*ssa.BinOp)
	if !isB || (bo.Op != token.LSS && bo.Op != token.LEQ) {
		return 0, false
	}
	phi, isPhi := bo.X.(*ssa.Phi)
	if !isPhi || phi.Block() != h {
		return 0, false
	}
	x, k, isLen := lenOperand(bo.Y)
	if !isLen {
		return 0, false
	}
	// entry edges (predecessors the header does not dominate) must carry a constant
	start := int64(0)
	nEntry := 0
	for i, p := range h.Preds {
		if h.Dominates(p) {
			continue // latch
		}
		c, isC := ConstInt(phi.Edges[i])
		if !isC {
			return 0, false
		}
		if nEntry == 0 || c > start {
			start = c
		}
		nEntry++
	}
	if nEntry == 0 || nEntry == len(h.Preds) {
		return 0, false // not a loop header
	}
	lb := lenLowerBound(x, h)
	if lb < 0 {
		return 0, false
	}
	bound := lb - k
	if (bo.Op == token.LSS && start < bound) || (bo.Op == token.LEQ && start <= bound) {
		return 1, true // the true edge (0) enters the body
	}
	return 0, false
}
