package world

import (
	"strings"
	"sync"

	"golang.org/x/tools/go/ssa"
)

// Effect analysis: does a function (transitively, over module code and VTA-resolved
// dynamic calls) perform an effect that a client could observe or that changes server
// state? Used to decide which calls are "sinks" that an authorization gate must dominate.
//
// Effects: a store / map update / delete through memory that is not a local allocation
// of the function, a channel send, starting a goroutine, and a call to any external
// function outside the pure-package list below.

// purePkgs are packages whose functions do not change server state observable by
// clients (locks, formatting, logging, pure computation).
var purePkgs = map[string]bool{
	"fmt": true, "strings": true, "strconv": true, "errors": true, "context": true, "slices": true,
	"sort": true, "maps": true, "math": true, "math/big": true, "bytes": true, "unicode": true, "unicode/utf8": true,
	"reflect": true, "log": true, "sync": true, "time": true, "regexp": true, "path": true, "path/filepath": true,
	"encoding/json": true, "encoding/hex": true, "crypto/sha256": true, "crypto/md5": true, "hash": true,
	"github.com/gobwas/glob": true, "github.com/tidwall/resp": true, "bufio": true, "io": true, "cmp": true,
	"internal/race": true, "sync/atomic": true, "runtime": true, "math/rand": true, "unsafe": true, "container/heap": true, "gopkg.in/yaml.v3": true,
}

// effectfulExternal names external callees that are effects although their package is
// otherwise pure.
func effectfulExternal(name string) bool {
	switch {
	case strings.HasPrefix(name, "(*github.com/hashicorp/raft.Raft).State"), strings.HasPrefix(name, "(*github.com/hashicorp/raft.Raft).Leader"):
		return false
	case strings.HasPrefix(name, "(*sync/atomic."):
		return strings.HasSuffix(name, ").Store") || strings.HasSuffix(name, ").Add") || strings.HasSuffix(name, ").Swap") || strings.HasSuffix(name, ").CompareAndSwap")
	case strings.HasPrefix(name, "sync/atomic."):
		return strings.Contains(name, "Store") || strings.Contains(name, "Add") || strings.Contains(name, "Swap")
	case strings.HasPrefix(name, "(io.Writer).Write"), strings.HasPrefix(name, "io.WriteString"), strings.HasPrefix(name, "io.Copy"):
		return true
	}
	return false
}

type effState struct {
	mu   sync.Mutex
	memo map[*ssa.Function]string // "" = no effect; otherwise a witness
	done bool
}

var eff = &effState{}

func extPkgPure(f *ssa.Function) bool {
	p := PkgOf(f)
	if p == nil {
		return true // synthetic without package: wrappers; their callees are visited separately
	}
	return purePkgs[p.Path()]
}

// IsLocalAddr reports whether the address v is derived from an Alloc in the same
// function that does not escape through a parameter/global/field load (a local variable
// or a freshly built composite).
func IsLocalAddr(v ssa.Value) bool {
	for i := 0; i < 20; i++ {
		switch x := v.(type) {
		case *ssa.Alloc:
			return true
		case *ssa.FieldAddr:
			v = x.X
		case *ssa.IndexAddr:
			v = x.X
		case *ssa.MakeMap, *ssa.MakeSlice:
			return true
		case *ssa.Slice:
			v = x.X
		case *ssa.Phi:
			for _, e := range x.Edges {
				if e != v && !IsLocalAddr(e) {
					return false
				}
			}
			return true
		default:
			return false
		}
	}
	return false
}

// isLocalMap: the map value is created in this function (make / literal) possibly via a local variable.
func isLocalMap(v ssa.Value) bool {
	switch x := v.(type) {
	case *ssa.MakeMap:
		return true
	case *ssa.UnOp:
		// load from local alloc that only ever holds local maps
		if a, ok := x.X.(*ssa.Alloc); ok {
			for _, ref := range *a.Referrers() {
				if st, ok := ref.(*ssa.Store); ok && st.Addr == a {
					if !isLocalMap(st.Val) {
						return false
					}
				}
			}
			return true
		}
	case *ssa.Phi:
		for _, e := range x.Edges {
			if e != v && !isLocalMap(e) {
				return false
			}
		}
		return true
	}
	return false
}

// OwnEffect returns a witness for a direct effect instruction inside fn ("" if none).
func (w *World) OwnEffect(fn *ssa.Function) string {
	for _, b := range fn.Blocks {
		for _, in := range b.Instrs {
			switch x := in.(type) {
			case *ssa.Store:
				if !IsLocalAddr(x.Addr) {
					// stores into free variables of closures are stores to the enclosing function's locals
					return "store at " + w.InstrPos(in)
				}
			case *ssa.MapUpdate:
				if !isLocalMap(x.Map) {
					return "map update at " + w.InstrPos(in)
				}
			case *ssa.Send:
				return "channel send at " + w.InstrPos(in)
			case *ssa.Go:
				return "go statement at " + w.InstrPos(in)
			case ssa.CallInstruction:
				if bi, ok := x.Common().Value.(*ssa.Builtin); ok {
					if (bi.Name() == "delete" || bi.Name() == "clear") && !isLocalMap(x.Common().Args[0]) && !IsLocalAddr(x.Common().Args[0]) {
						return bi.Name() + " at " + w.InstrPos(in)
					}
				}
			}
		}
	}
	return ""
}

// Effect returns a witness string when fn can (transitively) perform an effect, "" otherwise.
// Computed once as a backward fixpoint over the call graph (sound for recursion cycles).
func (w *World) Effect(fn *ssa.Function) string {
	eff.mu.Lock()
	defer eff.mu.Unlock()
	if eff.memo == nil || !eff.done {
		w.computeEffects()
	}
	if s, ok := eff.memo[fn]; ok {
		return s
	}
	return w.externalEffect(fn)
}

func (w *World) externalEffect(fn *ssa.Function) string {
	name := fn.String()
	if effectfulExternal(name) {
		return "external call " + name
	}
	if strings.HasPrefix(name, "(*github.com/hashicorp/raft.Raft).State") || strings.HasPrefix(name, "(*github.com/hashicorp/raft.Raft).Leader") {
		return ""
	}
	if !extPkgPure(fn) {
		return "external call " + name
	}
	return ""
}

func (w *World) computeEffects() {
	eff.memo = map[*ssa.Function]string{}
	type site struct {
		callees []*ssa.Function
		invoke  string
		pos     string
	}
	sites := map[*ssa.Function][]site{}
	for _, fn := range w.ModFns {
		eff.memo[fn] = w.OwnEffect(fn)
		for _, c := range Calls(fn) {
			if _, ok := c.Common().Value.(*ssa.Builtin); ok {
				continue
			}
			s := site{callees: w.Callees(c), pos: w.InstrPos(c)}
			if len(s.callees) == 0 && c.Common().IsInvoke() {
				n := c.Common().Method.FullName()
				p := c.Common().Method.Pkg()
				if effectfulExternal(n) || (p != nil && !purePkgs[p.Path()] && !strings.HasPrefix(p.Path(), Mod)) {
					s.invoke = n
				}
			}
			sites[fn] = append(sites[fn], s)
		}
	}
	for changed := true; changed; {
		changed = false
		for _, fn := range w.ModFns {
			if eff.memo[fn] != "" {
				continue
			}
		scan:
			for _, s := range sites[fn] {
				if s.invoke != "" {
					eff.memo[fn] = "interface call " + s.invoke + " at " + s.pos
					changed = true
					break
				}
				for _, callee := range s.callees {
					var e string
					if m, ok := eff.memo[callee]; ok {
						e = m
					} else {
						e = w.externalEffect(callee)
					}
					if e != "" {
						r := FuncName(callee) + ": " + e
						if len(r) > 300 {
							r = r[:300]
						}
						eff.memo[fn] = r
						changed = true
						break scan
					}
				}
			}
		}
	}
	eff.done = true
}
