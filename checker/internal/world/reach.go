package world

import (
	"sort"

	"golang.org/x/tools/go/ssa"
)

// Reach is the module code reachable from a root without entering the keyspace
// primitives (calls through HandlerFuncParams fields are recorded, not followed).
type Reach struct {
	Root      *ssa.Function
	Fns       []*ssa.Function // module functions with bodies, root first
	In        map[*ssa.Function]bool
	Accessors map[string][]ssa.CallInstruction      // accessor field -> call sites
	External  map[string][]ssa.CallInstruction      // fully qualified external callee -> sites
	Via       map[*ssa.Function]ssa.CallInstruction // how a function was first reached (for witness chains)
}

// ReachFrom walks static callees, VTA-resolved dynamic callees and closures created
// in reachable code. followAccessors=false stops at HandlerFuncParams field calls.
func (w *World) ReachFrom(root *ssa.Function, followAccessors bool) *Reach {
	return w.reachFrom(root, followAccessors, true)
}

// ReachCalls is ReachFrom restricted to call edges: closures and bound methods that are
// merely created (stored in a struct, returned) are not entered unless they are called.
func (w *World) ReachCalls(root *ssa.Function) *Reach { return w.reachFrom(root, true, false) }

func (w *World) reachFrom(root *ssa.Function, followAccessors, closures bool) *Reach {
	r := &Reach{Root: root, In: map[*ssa.Function]bool{}, Accessors: map[string][]ssa.CallInstruction{},
		External: map[string][]ssa.CallInstruction{}, Via: map[*ssa.Function]ssa.CallInstruction{}}
	var work []*ssa.Function
	add := func(f *ssa.Function, via ssa.CallInstruction) {
		if f == nil || r.In[f] {
			return
		}
		if !InModule(f) || f.Blocks == nil {
			return
		}
		r.In[f] = true
		r.Fns = append(r.Fns, f)
		if via != nil {
			r.Via[f] = via
		}
		work = append(work, f)
	}
	add(root, nil)
	for len(work) > 0 {
		fn := work[len(work)-1]
		work = work[:len(work)-1]
		for _, b := range fn.Blocks {
			for _, in := range b.Instrs {
				if mc, ok := in.(*ssa.MakeClosure); ok && closures {
					if f, ok := mc.Fn.(*ssa.Function); ok {
						add(f, nil)
					}
				}
				c, ok := in.(ssa.CallInstruction)
				if !ok {
					continue
				}
				if a := AccessorCall(c); a != "" {
					r.Accessors[a] = append(r.Accessors[a], c)
					if !followAccessors {
						continue
					}
				}
				for _, callee := range w.Callees(c) {
					if InModule(callee) && callee.Blocks != nil {
						add(callee, c)
					} else {
						n := callee.String()
						r.External[n] = append(r.External[n], c)
					}
				}
				if c.Common().IsInvoke() {
					// keep the interface method name too (for models of library behaviour)
					n := "invoke " + c.Common().Method.FullName()
					r.External[n] = append(r.External[n], c)
				}
			}
		}
	}
	return r
}

// AccessorNames returns the sorted accessor fields reached.
func (r *Reach) AccessorNames() []string {
	var out []string
	for a := range r.Accessors {
		out = append(out, a)
	}
	sort.Strings(out)
	return out
}

// Chain renders the call chain from the root to fn.
func (r *Reach) Chain(fn *ssa.Function) string {
	var parts []string
	for fn != nil && fn != r.Root {
		parts = append([]string{FuncName(fn)}, parts...)
		via := r.Via[fn]
		if via == nil {
			if fn.Parent() != nil {
				fn = fn.Parent()
				continue
			}
			break
		}
		fn = via.Parent()
	}
	parts = append([]string{FuncName(r.Root)}, parts...)
	s := ""
	for i, p := range parts {
		if i > 0 {
			s += " -> "
		}
		s += p
	}
	return s
}
