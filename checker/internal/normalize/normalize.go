// Package normalize is a source-level pre-pass of svcheck.
//
// The rules of svcheck are written against the function structure of the tree they were
// confirmed on (known_funcs.txt lists every function and method of that tree). When the tree
// under analysis declares a function that is NOT in that list — typically a helper that a
// refactoring extracted from a function the rules know — its statically resolved calls are
// inlined back into their callers, in memory, before the program is type-checked and handed to
// go/ssa. The transformation is semantics-preserving (restricted to the call contexts and callee
// shapes listed below; everything else is left alone), it is validated by type-checking the
// transformed package, and it changes nothing when the tree declares no unknown function
// (which is the case for the tree the rules were written on).
//
// Inlined contexts (the call is evaluated unconditionally and first in its statement):
//
//	f(a)                      x, err := f(a)   x = f(a)   var x = f(a)
//	return f(a)               if err := f(a); err != nil {...}
//	if f(a) {...}  if !f(a) {...}              for ... range f(a) {...}
//	go f(a)                   (turned into a function literal with the body)
//
// and an unknown function or method used as a value (aof.WithGetStateFunc(s.getState)) is wrapped
// into a function literal that calls it, which the next pass inlines.
//
// Not inlined: callees that contain defer, recover, labels or goto, generic or recursive callees,
// callees declared in another package, calls nested inside larger expressions, promoted methods.
package normalize

import (
	"bytes"
	_ "embed"
	"fmt"
	"go/ast"
	"go/parser"
	"go/token"
	"go/types"
	"os"
	"path/filepath"
	"sort"
	"strings"

	"golang.org/x/tools/go/ast/astutil"
	"golang.org/x/tools/go/packages"
	"golang.org/x/tools/go/types/typeutil"
)

//go:embed known_funcs.txt
var knownFuncsTxt string

// Result describes what the pre-pass did.
type Result struct {
	Overlay  map[string][]byte // absolute file name -> transformed content (nil when nothing changed)
	Renamed  map[string]string // declared name -> the known name it is taken to be (same scope, same signature, unique)
	Unknown  []string          // functions of the tree that are not in known_funcs.txt
	Inlined  []string          // "callee into caller (context)"
	Removed  []string          // unknown functions removed after all their uses were inlined
	Skipped  []string          // candidate calls left alone, with the reason
	Problems []string          // transformations dropped because the result did not type-check
}

func known() map[string]bool {
	m := map[string]bool{}
	for n := range knownSigs() {
		m[n] = true
	}
	return m
}

// knownSigs: qualified name -> signature text ("" if the list carries none).
func knownSigs() map[string]string {
	m := map[string]string{}
	for _, l := range strings.Split(knownFuncsTxt, "\n") {
		l = strings.TrimRight(l, " \r")
		if l == "" || strings.HasPrefix(l, "#") {
			continue
		}
		parts := strings.Split(l, "\t")
		sig := ""
		if len(parts) >= 2 {
			sig = parts[1]
		}
		m[strings.TrimSpace(parts[0])] = sig
		if len(parts) >= 3 {
			knownOrder[strings.TrimSpace(parts[0])] = parts[2]
		}
	}
	return m
}

var knownOrder = map[string]string{}

// declOrder: qualified name -> "file#index of the declaration in its file" (last declaredFuncs call).
var declOrder map[string]string

// sigText renders a function type without parameter names: "(context.Context, []string) (int, error)".
func sigText(ft *ast.FuncType) string {
	list := func(fl *ast.FieldList) string {
		if fl == nil {
			return ""
		}
		var ps []string
		for _, f := range fl.List {
			t := types.ExprString(f.Type)
			n := len(f.Names)
			if n == 0 {
				n = 1
			}
			for i := 0; i < n; i++ {
				ps = append(ps, t)
			}
		}
		return strings.Join(ps, ", ")
	}
	return "(" + list(ft.Params) + ") (" + list(ft.Results) + ")"
}

// scope of a qualified name: the package and receiver part ("sugardb.(SugarDB)." / "internal.")
func nameScope(q string) string {
	i := strings.LastIndex(q, ".")
	if i < 0 {
		return ""
	}
	return q[:i+1]
}

// DeclaredFuncs parses (syntax only) every non-test .go file below root and returns the
// qualified names of the declared functions and methods: "<rel dir>.Name" / "<rel dir>.(Recv).Name".
func DeclaredFuncs(root string) (map[string][]string, error) {
	m, _, err := declaredFuncs(root)
	return m, err
}

func declaredFuncs(root string) (map[string][]string, map[string]string, error) {
	sigs := map[string]string{}
	declOrder = map[string]string{}
	out := map[string][]string{} // rel dir -> names
	fset := token.NewFileSet()
	err := filepath.Walk(root, func(p string, fi os.FileInfo, err error) error {
		if err != nil {
			return err
		}
		if fi.IsDir() {
			n := fi.Name()
			if p != root && (strings.HasPrefix(n, ".") || n == "testdata" || n == "vendor" || n == "node_modules") {
				return filepath.SkipDir
			}
			return nil
		}
		if !strings.HasSuffix(p, ".go") || strings.HasSuffix(p, "_test.go") {
			return nil
		}
		f, err := parser.ParseFile(fset, p, nil, parser.SkipObjectResolution)
		if err != nil {
			return nil // the real load reports syntax errors
		}
		rel, _ := filepath.Rel(root, filepath.Dir(p))
		rel = filepath.ToSlash(rel)
		for i, d := range f.Decls {
			if fd, ok := d.(*ast.FuncDecl); ok {
				q := qualName(rel, fd)
				out[rel] = append(out[rel], q)
				sigs[q] = sigText(fd.Type)
				declOrder[q] = fmt.Sprintf("%s#%04d", filepath.Base(p), i)
			}
		}
		return nil
	})
	return out, sigs, err
}

func recvBase(fd *ast.FuncDecl) string {
	if fd.Recv == nil || len(fd.Recv.List) == 0 {
		return ""
	}
	t := fd.Recv.List[0].Type
	for {
		switch x := t.(type) {
		case *ast.StarExpr:
			t = x.X
		case *ast.ParenExpr:
			t = x.X
		case *ast.IndexExpr:
			t = x.X
		case *ast.IndexListExpr:
			t = x.X
		case *ast.Ident:
			return x.Name
		default:
			return "?"
		}
	}
}

func qualName(rel string, fd *ast.FuncDecl) string {
	if r := recvBase(fd); r != "" {
		return rel + ".(" + r + ")." + fd.Name.Name
	}
	return rel + "." + fd.Name.Name
}

// EmitKnown prints the list for known_funcs.txt.
func EmitKnown(root string) (string, error) {
	m, sigs, err := declaredFuncs(root)
	if err != nil {
		return "", err
	}
	var all []string
	for _, ns := range m {
		for _, n := range ns {
			all = append(all, n+"\t"+sigs[n]+"\t"+declOrder[n])
		}
	}
	sort.Strings(all)
	return "# functions and methods of the tree the rules were confirmed on (svcheck -emit-known-funcs)\n" + strings.Join(all, "\n") + "\n", nil
}

type edit struct {
	start, end int
	text       string
	what       string
}

type pkgState struct {
	rel     string
	dir     string
	path    string
	files   []string
	content map[string][]byte
	imp     types.Importer

	fset   *token.FileSet
	syntax map[string]*ast.File
	info   *types.Info
	tpkg   *types.Package
	errs   []types.Error
}

type mapImporter map[string]*types.Package

func (m mapImporter) Import(path string) (*types.Package, error) {
	if p, ok := m[path]; ok && p != nil {
		return p, nil
	}
	return nil, fmt.Errorf("normalize: package %q not available", path)
}

func (ps *pkgState) check() {
	ps.fset = token.NewFileSet()
	ps.syntax = map[string]*ast.File{}
	ps.errs = nil
	var files []*ast.File
	for _, fn := range ps.files {
		f, err := parser.ParseFile(ps.fset, fn, ps.content[fn], parser.ParseComments|parser.SkipObjectResolution)
		if err != nil {
			ps.errs = append(ps.errs, types.Error{Fset: ps.fset, Msg: err.Error()})
			if f == nil {
				continue
			}
		}
		ps.syntax[fn] = f
		files = append(files, f)
	}
	ps.info = &types.Info{
		Types:      map[ast.Expr]types.TypeAndValue{},
		Defs:       map[*ast.Ident]types.Object{},
		Uses:       map[*ast.Ident]types.Object{},
		Selections: map[*ast.SelectorExpr]*types.Selection{},
		Scopes:     map[ast.Node]*types.Scope{},
		Implicits:  map[ast.Node]types.Object{},
		Instances:  map[*ast.Ident]types.Instance{},
	}
	cfg := &types.Config{Importer: ps.imp, Error: func(err error) {
		if te, ok := err.(types.Error); ok {
			// plugin example packages declare package main without func main
			if strings.Contains(te.Msg, "function main is undeclared") {
				return
			}
			ps.errs = append(ps.errs, te)
		}
	}}
	ps.tpkg, _ = cfg.Check(ps.path, ps.fset, files, ps.info)
}

func (ps *pkgState) off(p token.Pos) int { return ps.fset.Position(p).Offset }

func (ps *pkgState) text(fn string, from, to token.Pos) string {
	return string(ps.content[fn][ps.off(from):ps.off(to)])
}

func (ps *pkgState) lineDirective(p token.Pos) string {
	pos := ps.fset.PositionFor(p, true)
	return fmt.Sprintf("/*line %s:%d:%d*/", pos.Filename, pos.Line, pos.Column)
}

// Run computes the overlay for the repository at root. env is passed to the go command.
func Run(root string, env []string) (*Result, error) {
	res := &Result{}
	kn := known()
	ksig := knownSigs()
	decl, dsig, err := declaredFuncs(root)
	if err != nil {
		return res, err
	}
	// renames: a known function that is no longer declared and exactly one undeclared-in-the-list
	// function of the same package/receiver with the same signature (and vice versa)
	declared := map[string]bool{}
	for _, names := range decl {
		for _, n := range names {
			declared[n] = true
		}
	}
	missingBy := map[string][]string{} // scope|sig -> known names that disappeared
	for n, sg := range ksig {
		if !declared[n] && sg != "" {
			k := nameScope(n) + "|" + sg
			missingBy[k] = append(missingBy[k], n)
		}
	}
	newBy := map[string][]string{}
	for n := range declared {
		if !kn[n] {
			k := nameScope(n) + "|" + dsig[n]
			newBy[k] = append(newBy[k], n)
		}
	}
	for k, olds := range missingBy {
		news := newBy[k]
		if len(olds) == 1 && len(news) > 1 {
			// one function disappeared and several new ones have its signature (a rename plus freshly
			// extracted helpers): take the new function declared closest to where the old one was, in the same file
			fo := knownOrder[olds[0]]
			best, bestD := "", 1<<30
			for _, n := range news {
				fn := declOrder[n]
				i, j := strings.Index(fo, "#"), strings.Index(fn, "#")
				if i < 0 || j < 0 || fo[:i] != fn[:j] {
					continue
				}
				var a, b int
				fmt.Sscanf(fo[i+1:], "%d", &a)
				fmt.Sscanf(fn[j+1:], "%d", &b)
				d := a - b
				if d < 0 {
					d = -d
				}
				if d < bestD {
					best, bestD = n, d
				}
			}
			if best == "" || bestD > 6 {
				continue
			}
			news = []string{best}
		}
		if len(olds) != len(news) || len(olds) == 0 {
			continue
		}
		if len(olds) > 1 {
			// several functions of one signature renamed at once: pair them by file and declaration order
			sort.Slice(olds, func(i, j int) bool { return knownOrder[olds[i]] < knownOrder[olds[j]] })
			sort.Slice(news, func(i, j int) bool { return declOrder[news[i]] < declOrder[news[j]] })
			ok := true
			for i := range olds {
				fo, fn := knownOrder[olds[i]], declOrder[news[i]]
				if fo == "" || fn == "" || fo[:strings.Index(fo, "#")+1] != fn[:strings.Index(fn, "#")+1] {
					ok = false
				}
			}
			if !ok {
				continue
			}
		}
		for i := range olds {
			if res.Renamed == nil {
				res.Renamed = map[string]string{}
			}
			res.Renamed[news[i]] = olds[i]
			kn[news[i]] = true
		}
	}
	unknownIn := map[string]map[string]bool{} // rel dir -> qualified names
	for rel, names := range decl {
		for _, n := range names {
			if !kn[n] {
				if unknownIn[rel] == nil {
					unknownIn[rel] = map[string]bool{}
				}
				unknownIn[rel][n] = true
				res.Unknown = append(res.Unknown, n)
			}
		}
	}
	sort.Strings(res.Unknown)
	if len(unknownIn) == 0 {
		return res, nil
	}
	var patterns []string
	for rel := range unknownIn {
		patterns = append(patterns, "./"+rel)
	}
	sort.Strings(patterns)
	cfg := &packages.Config{Mode: packages.LoadSyntax, Dir: root, Env: env, Tests: false}
	pkgs, err := packages.Load(cfg, patterns...)
	if err != nil {
		return res, fmt.Errorf("normalize: packages.Load: %v", err)
	}
	imp := mapImporter{}
	packages.Visit(pkgs, nil, func(p *packages.Package) {
		if p.Types != nil {
			imp[p.PkgPath] = p.Types
		}
	})
	overlay := map[string][]byte{}
	for _, p := range pkgs {
		if len(p.Errors) > 0 {
			continue // the real load will report it
		}
		var rel string
		if len(p.GoFiles) == 0 {
			continue
		}
		r, _ := filepath.Rel(root, filepath.Dir(p.GoFiles[0]))
		rel = filepath.ToSlash(r)
		unk := unknownIn[rel]
		if len(unk) == 0 {
			continue
		}
		ps := &pkgState{rel: rel, dir: filepath.Dir(p.GoFiles[0]), path: p.PkgPath, imp: imp, content: map[string][]byte{}}
		for _, fn := range p.GoFiles {
			if strings.HasSuffix(fn, "_test.go") {
				continue
			}
			b, err := os.ReadFile(fn)
			if err != nil {
				return res, err
			}
			ps.files = append(ps.files, fn)
			ps.content[fn] = b
		}
		sort.Strings(ps.files)
		orig := map[string][]byte{}
		for k, v := range ps.content {
			orig[k] = v
		}
		ps.transform(unk, res)
		for _, fn := range ps.files {
			if !bytes.Equal(orig[fn], ps.content[fn]) {
				overlay[fn] = ps.content[fn]
			}
		}
	}
	if len(overlay) > 0 {
		res.Overlay = overlay
	}
	return res, nil
}

const maxPasses = 5

func (ps *pkgState) transform(unk map[string]bool, res *Result) {
	ps.check()
	if len(ps.errs) > 0 {
		res.Problems = append(res.Problems, fmt.Sprintf("%s: does not type-check before normalisation (%s); left alone", ps.rel, ps.errs[0].Msg))
		return
	}
	seq := 0
	for pass := 0; pass < maxPasses; pass++ {
		g := &gen{ps: ps, unk: unk, res: res, seq: &seq, aliases: map[string]map[string]string{}}
		edits := g.collect()
		if len(edits) == 0 {
			break
		}
		if !ps.applyChecked(edits, g, res) {
			break
		}
	}
	ps.removeUnused(unk, res)
}

// applyChecked applies the edits (grouped by file); if the package no longer type-checks, the
// edits are retried one by one and the failing ones are dropped.
func (ps *pkgState) applyChecked(edits map[string][]edit, g *gen, res *Result) bool {
	snapshot := map[string][]byte{}
	for k, v := range ps.content {
		snapshot[k] = v
	}
	apply := func(sel map[string][]edit) {
		for fn, es := range sel {
			ps.content[fn] = applyEdits(snapshot[fn], es, g.importText(fn, es))
		}
	}
	apply(edits)
	ps.check()
	if len(ps.errs) == 0 {
		for _, es := range edits {
			for _, e := range es {
				if e.what != "" {
					res.Inlined = append(res.Inlined, e.what)
				}
			}
		}
		return true
	}
	firstErr := ps.errs[0]
	// retry one by one
	for k, v := range snapshot {
		ps.content[k] = v
	}
	good := map[string][]edit{}
	any := false
	for _, fn := range sortedKeys(edits) {
		for _, e := range edits[fn] {
			trial := map[string][]edit{}
			for k, v := range good {
				trial[k] = append([]edit{}, v...)
			}
			trial[fn] = append(trial[fn], e)
			for k, v := range snapshot {
				ps.content[k] = v
			}
			apply(trial)
			ps.check()
			if len(ps.errs) == 0 {
				good = trial
				any = true
				if e.what != "" {
					res.Inlined = append(res.Inlined, e.what)
				}
			} else {
				res.Problems = append(res.Problems, fmt.Sprintf("%s: dropped (%s)", e.what, ps.errs[0].Msg))
			}
		}
	}
	for k, v := range snapshot {
		ps.content[k] = v
	}
	apply(good)
	ps.check()
	if len(ps.errs) > 0 { // cannot happen: good was validated
		for k, v := range snapshot {
			ps.content[k] = v
		}
		ps.check()
		res.Problems = append(res.Problems, fmt.Sprintf("%s: normalisation abandoned (%s)", ps.rel, firstErr.Msg))
		return false
	}
	return any
}

func sortedKeys(m map[string][]edit) []string {
	var ks []string
	for k := range m {
		ks = append(ks, k)
	}
	sort.Strings(ks)
	return ks
}

// applyEdits applies non-overlapping edits to src; importText (if any) is inserted after the package clause.
func applyEdits(src []byte, es []edit, imports *edit) []byte {
	all := append([]edit{}, es...)
	if imports != nil {
		all = append(all, *imports)
	}
	sort.Slice(all, func(i, j int) bool { return all[i].start < all[j].start })
	var out bytes.Buffer
	at := 0
	for _, e := range all {
		if e.start < at {
			continue // overlapping: skipped (collect avoids this)
		}
		out.Write(src[at:e.start])
		out.WriteString(e.text)
		at = e.end
	}
	out.Write(src[at:])
	return out.Bytes()
}

// ---------------------------------------------------------------------------------------------

type gen struct {
	ps      *pkgState
	unk     map[string]bool
	res     *Result
	seq     *int
	aliases map[string]map[string]string // file -> import path -> alias used by generated text
	decls   map[*types.Func]*ast.FuncDecl
	declFn  map[*types.Func]string
}

func (g *gen) importText(fn string, es []edit) *edit {
	al := g.aliases[fn]
	if len(al) == 0 {
		return nil
	}
	// only aliases that occur in the applied edits
	var paths []string
	for p, a := range al {
		used := false
		for _, e := range es {
			if strings.Contains(e.text, a+".") {
				used = true
			}
		}
		if used {
			paths = append(paths, p)
		}
	}
	if len(paths) == 0 {
		return nil
	}
	sort.Strings(paths)
	f := g.ps.syntax[fn]
	end := f.Name.End()
	var b strings.Builder
	for _, p := range paths {
		fmt.Fprintf(&b, "; import %s %q", al[p], p)
	}
	b.WriteString(g.ps.lineDirective(end))
	off := g.ps.off(end)
	return &edit{start: off, end: off, text: b.String()}
}

func (g *gen) alias(fn string, pkg *types.Package) string {
	if g.aliases[fn] == nil {
		g.aliases[fn] = map[string]string{}
	}
	if a, ok := g.aliases[fn][pkg.Path()]; ok {
		return a
	}
	*g.seq++
	a := fmt.Sprintf("_ip%d_%s", *g.seq, sanitize(pkg.Name()))
	g.aliases[fn][pkg.Path()] = a
	return a
}

func sanitize(s string) string {
	var b strings.Builder
	for _, r := range s {
		if r == '_' || (r >= 'a' && r <= 'z') || (r >= 'A' && r <= 'Z') || (r >= '0' && r <= '9') {
			b.WriteRune(r)
		}
	}
	return b.String()
}

func (g *gen) typeStr(fn string, t types.Type) string {
	return types.TypeString(t, func(p *types.Package) string {
		if p == g.ps.tpkg {
			return ""
		}
		return g.alias(fn, p)
	})
}

func (g *gen) qual(f *types.Func) string {
	sig := f.Type().(*types.Signature)
	if r := sig.Recv(); r != nil {
		t := r.Type()
		if p, ok := t.(*types.Pointer); ok {
			t = p.Elem()
		}
		if n, ok := t.(*types.Named); ok {
			return g.ps.rel + ".(" + n.Obj().Name() + ")." + f.Name()
		}
		return g.ps.rel + ".(?)." + f.Name()
	}
	return g.ps.rel + "." + f.Name()
}

func (g *gen) isUnknown(f *types.Func) bool {
	return f != nil && f.Pkg() == g.ps.tpkg && g.unk[g.qual(f)] && g.decls[f] != nil
}

// inlinable reports why the callee cannot be inlined ("" if it can).
func (g *gen) inlinable(fd *ast.FuncDecl) string {
	if fd.Body == nil {
		return "no body"
	}
	if fd.Type.TypeParams != nil && len(fd.Type.TypeParams.List) > 0 {
		return "generic"
	}
	if fd.Recv != nil && len(fd.Recv.List) == 1 {
		switch t := fd.Recv.List[0].Type.(type) {
		case *ast.IndexExpr, *ast.IndexListExpr:
			return "method of a generic type"
		case *ast.StarExpr:
			switch t.X.(type) {
			case *ast.IndexExpr, *ast.IndexListExpr:
				return "method of a generic type"
			}
		}
	}
	why := ""
	ast.Inspect(fd.Body, func(n ast.Node) bool {
		switch x := n.(type) {
		case *ast.FuncLit:
			return false
		case *ast.DeferStmt:
			why = "contains defer"
		case *ast.LabeledStmt:
			why = "contains a label"
		case *ast.BranchStmt:
			if x.Tok == token.GOTO {
				why = "contains goto"
			}
		case *ast.CallExpr:
			if id, ok := x.Fun.(*ast.Ident); ok && id.Name == "recover" {
				why = "calls recover"
			}
		}
		return why == ""
	})
	return why
}

type site struct {
	fn       string // file
	stmt     ast.Stmt
	call     *ast.CallExpr
	callee   *types.Func
	encl     ast.Node // enclosing FuncDecl or FuncLit
	enclDecl *ast.FuncDecl
	kind     string
}

func (g *gen) collect() map[string][]edit {
	ps := g.ps
	g.decls = map[*types.Func]*ast.FuncDecl{}
	g.declFn = map[*types.Func]string{}
	for fn, f := range ps.syntax {
		for _, d := range f.Decls {
			if fd, ok := d.(*ast.FuncDecl); ok {
				if obj, ok := ps.info.Defs[fd.Name].(*types.Func); ok {
					g.decls[obj] = fd
					g.declFn[obj] = fn
				}
			}
		}
	}
	out := map[string][]edit{}
	for _, fn := range ps.files {
		f := ps.syntax[fn]
		if f == nil {
			continue
		}
		var es []edit
		covered := func(a, b int) bool {
			for _, e := range es {
				if a < e.end && e.start < b {
					return true
				}
			}
			return false
		}
		var enclStack []ast.Node
		var declStack []*ast.FuncDecl
		astutil.Apply(f, func(c *astutil.Cursor) bool {
			n := c.Node()
			switch x := n.(type) {
			case *ast.FuncDecl:
				enclStack = append(enclStack, x)
				declStack = append(declStack, x)
			case *ast.FuncLit:
				enclStack = append(enclStack, x)
			}
			st, ok := n.(ast.Stmt)
			if !ok || len(enclStack) == 0 {
				// value uses of unknown functions
				if e, ok := n.(ast.Expr); ok && len(enclStack) >= 0 {
					if ed := g.valueUse(fn, e, c, enclOf(enclStack)); ed != nil && !covered(ed.start, ed.end) {
						es = append(es, *ed)
						return false
					}
				}
				return true
			}
			s := g.candidate(fn, st, c)
			if s == nil {
				return true
			}
			s.encl = enclStack[len(enclStack)-1]
			if len(declStack) > 0 {
				s.enclDecl = declStack[len(declStack)-1]
			}
			if g.decls[s.callee] == s.enclDecl && s.enclDecl != nil {
				return true // self-recursive
			}
			ed := g.inline(s)
			if ed == nil || covered(ed.start, ed.end) {
				return true
			}
			es = append(es, *ed)
			return false
		}, func(c *astutil.Cursor) bool {
			switch c.Node().(type) {
			case *ast.FuncDecl:
				enclStack = enclStack[:len(enclStack)-1]
				declStack = declStack[:len(declStack)-1]
			case *ast.FuncLit:
				enclStack = enclStack[:len(enclStack)-1]
			}
			return true
		})
		if len(es) > 0 {
			out[fn] = es
		}
	}
	return out
}

func enclOf(st []ast.Node) ast.Node {
	if len(st) == 0 {
		return nil
	}
	return st[len(st)-1]
}

func unparen(e ast.Expr) ast.Expr {
	for {
		p, ok := e.(*ast.ParenExpr)
		if !ok {
			return e
		}
		e = p.X
	}
}

func (g *gen) unknownCall(e ast.Expr) (*ast.CallExpr, *types.Func) {
	call, ok := unparen(e).(*ast.CallExpr)
	if !ok {
		return nil, nil
	}
	f, _ := typeutil.Callee(g.ps.info, call).(*types.Func)
	if f == nil || !g.isUnknown(f) {
		return nil, nil
	}
	if sel, ok := unparen(call.Fun).(*ast.SelectorExpr); ok {
		if s := g.ps.info.Selections[sel]; s != nil {
			if s.Kind() != types.MethodVal || len(s.Index()) != 1 {
				return nil, nil // promoted through an embedded field, or method expression
			}
			if types.IsInterface(s.Recv()) {
				return nil, nil
			}
		}
	}
	return call, f
}

func simpleLHS(e ast.Expr) bool {
	switch x := unparen(e).(type) {
	case *ast.Ident:
		return true
	case *ast.SelectorExpr:
		return simpleLHS(x.X)
	case *ast.StarExpr:
		return simpleLHS(x.X)
	}
	return false
}

// candidate recognises the statement shapes in which an unknown call can be hoisted.
func (g *gen) candidate(fn string, st ast.Stmt, c *astutil.Cursor) *site {
	mk := func(kind string, call *ast.CallExpr, f *types.Func) *site {
		if call == nil {
			return nil
		}
		return &site{fn: fn, stmt: st, call: call, callee: f, kind: kind}
	}
	initCall := func(s ast.Stmt) (*ast.CallExpr, *types.Func) {
		switch x := s.(type) {
		case *ast.ExprStmt:
			return g.unknownCall(x.X)
		case *ast.AssignStmt:
			if len(x.Rhs) == 1 && (x.Tok == token.ASSIGN || x.Tok == token.DEFINE) {
				for _, l := range x.Lhs {
					if !simpleLHS(l) {
						return nil, nil
					}
				}
				return g.unknownCall(x.Rhs[0])
			}
		}
		return nil, nil
	}
	switch x := st.(type) {
	case *ast.ExprStmt:
		// only as an element of a statement list (not the Init/Post of another statement)
		if c.Index() < 0 {
			return nil
		}
		call, f := g.unknownCall(x.X)
		return mk("stmt", call, f)
	case *ast.AssignStmt:
		if c.Index() < 0 {
			return nil
		}
		call, f := initCall(x)
		return mk("assign", call, f)
	case *ast.DeclStmt:
		if c.Index() < 0 {
			return nil
		}
		gd, ok := x.Decl.(*ast.GenDecl)
		if !ok || gd.Tok != token.VAR || len(gd.Specs) != 1 {
			return nil
		}
		vs := gd.Specs[0].(*ast.ValueSpec)
		if len(vs.Values) != 1 {
			return nil
		}
		call, f := g.unknownCall(vs.Values[0])
		return mk("assign", call, f)
	case *ast.ReturnStmt:
		if len(x.Results) != 1 {
			return nil
		}
		call, f := g.unknownCall(x.Results[0])
		return mk("return", call, f)
	case *ast.IfStmt:
		if x.Init != nil {
			call, f := initCall(x.Init)
			return mk("if-init", call, f)
		}
		cond := unparen(x.Cond)
		if u, ok := cond.(*ast.UnaryExpr); ok && u.Op == token.NOT {
			cond = unparen(u.X)
		}
		call, f := g.unknownCall(cond)
		return mk("if-cond", call, f)
	case *ast.RangeStmt:
		call, f := g.unknownCall(x.X)
		return mk("range", call, f)
	case *ast.GoStmt:
		call, f := g.unknownCall(x.Call)
		return mk("go", call, f)
	}
	// `defer f(a)` is left alone: the lock and flag analyses summarise release wrappers as calls,
	// and a deferred function literal would hide the release from them.
	return nil
}

// shadowed reports whether a package-level / universe name used by the callee body resolves to
// something else at the call site.
func (g *gen) shadowed(fd *ast.FuncDecl, at token.Pos) string {
	ps := g.ps
	inner := ps.tpkg.Scope().Innermost(at)
	if inner == nil {
		return "no scope at the call site"
	}
	bad := ""
	ast.Inspect(fd.Body, func(n ast.Node) bool {
		id, ok := n.(*ast.Ident)
		if !ok || bad != "" {
			return bad == ""
		}
		obj := ps.info.Uses[id]
		if obj == nil {
			return true
		}
		if _, isPkg := obj.(*types.PkgName); isPkg {
			return true // rewritten to a fresh alias
		}
		if obj.Parent() == ps.tpkg.Scope() || obj.Parent() == types.Universe {
			_, found := inner.LookupParent(id.Name, at)
			if found != obj {
				bad = id.Name
			}
		}
		return true
	})
	return bad
}

type retMode int

const (
	retKeep   retMode = iota // tail call with identical result types: returns stay returns
	retAssign                // assign to result variables and leave the inlined block
	retDrop                  // go/defer literal: results are discarded
)

// bodyText copies the callee body (without braces), rewriting return statements and
// package-qualified identifiers.
func (g *gen) bodyText(callerFile string, fd *ast.FuncDecl, calleeFile string, mode retMode, resVars []string, label string) string {
	ps := g.ps
	src := ps.content[calleeFile]
	lo, hi := ps.off(fd.Body.Lbrace)+1, ps.off(fd.Body.Rbrace)
	var es []edit
	var named []string
	if fd.Type.Results != nil {
		for _, f := range fd.Type.Results.List {
			for _, n := range f.Names {
				named = append(named, n.Name)
			}
		}
	}
	var walk func(n ast.Node) bool
	walk = func(n ast.Node) bool {
		switch x := n.(type) {
		case *ast.FuncLit:
			// returns inside belong to the literal; still rewrite package names
			ast.Inspect(x, func(m ast.Node) bool {
				if id, ok := m.(*ast.Ident); ok {
					if pn, ok := ps.info.Uses[id].(*types.PkgName); ok {
						es = append(es, edit{start: ps.off(id.Pos()), end: ps.off(id.End()), text: g.alias(callerFile, pn.Imported())})
					}
				}
				return true
			})
			return false
		case *ast.Ident:
			if pn, ok := ps.info.Uses[x].(*types.PkgName); ok {
				es = append(es, edit{start: ps.off(x.Pos()), end: ps.off(x.End()), text: g.alias(callerFile, pn.Imported())})
			}
		case *ast.ReturnStmt:
			if mode == retKeep {
				return true
			}
			var vals string
			if len(x.Results) > 0 {
				// nested edits (package names) inside the result expressions
				sub := &gen{ps: ps, unk: g.unk, res: g.res, seq: g.seq, aliases: g.aliases}
				vals = sub.exprsText(callerFile, calleeFile, x.Results)
			} else if len(named) > 0 {
				vals = strings.Join(named, ", ")
			}
			var t string
			switch mode {
			case retAssign:
				if vals != "" && len(resVars) > 0 {
					t = fmt.Sprintf("{ %s = %s; break %s }", strings.Join(resVars, ", "), vals, label)
				} else if vals != "" {
					blanks := strings.TrimSuffix(strings.Repeat("_, ", g.nres(fd)), ", ")
					t = fmt.Sprintf("{ %s = %s; break %s }", blanks, vals, label)
				} else {
					t = fmt.Sprintf("break %s", label)
				}
			case retDrop:
				if vals != "" {
					blanks := strings.TrimSuffix(strings.Repeat("_, ", g.nres(fd)), ", ")
					t = fmt.Sprintf("{ %s = %s; return }", blanks, vals)
				} else {
					t = "return"
				}
			}
			es = append(es, edit{start: ps.off(x.Pos()), end: ps.off(x.End()), text: t + ps.lineDirective(x.End())})
			return false
		}
		return true
	}
	ast.Inspect(fd.Body, walk)
	sort.Slice(es, func(i, j int) bool { return es[i].start < es[j].start })
	var b bytes.Buffer
	b.WriteString(ps.lineDirective(fd.Body.Lbrace + 1))
	at := lo
	for _, e := range es {
		if e.start < at || e.end > hi {
			continue
		}
		b.Write(src[at:e.start])
		b.WriteString(e.text)
		at = e.end
	}
	b.Write(src[at:hi])
	b.WriteString("\n")
	return b.String()
}

func (g *gen) nres(fd *ast.FuncDecl) int {
	obj, _ := g.ps.info.Defs[fd.Name].(*types.Func)
	if obj == nil {
		return 0
	}
	return obj.Type().(*types.Signature).Results().Len()
}

// exprsText renders expressions of calleeFile, rewriting package names for callerFile.
func (g *gen) exprsText(callerFile, calleeFile string, xs []ast.Expr) string {
	ps := g.ps
	var parts []string
	for _, x := range xs {
		src := ps.content[calleeFile]
		lo, hi := ps.off(x.Pos()), ps.off(x.End())
		var es []edit
		ast.Inspect(x, func(n ast.Node) bool {
			if id, ok := n.(*ast.Ident); ok {
				if pn, ok := ps.info.Uses[id].(*types.PkgName); ok {
					es = append(es, edit{start: ps.off(id.Pos()), end: ps.off(id.End()), text: g.alias(callerFile, pn.Imported())})
				}
			}
			return true
		})
		sort.Slice(es, func(i, j int) bool { return es[i].start < es[j].start })
		var b bytes.Buffer
		at := lo
		for _, e := range es {
			b.Write(src[at:e.start])
			b.WriteString(e.text)
			at = e.end
		}
		b.Write(src[at:hi])
		parts = append(parts, b.String())
	}
	return strings.Join(parts, ", ")
}

// binds renders the evaluation of receiver and arguments into fresh variables and their binding to
// the callee's parameter names. ok=false if the call shape is not supported.
func (g *gen) binds(s *site, fd *ast.FuncDecl, id string) (outer, inner string, ok bool) {
	ps := g.ps
	sig := s.callee.Type().(*types.Signature)
	type bnd struct{ name, typ, val string }
	var bs []bnd
	if sig.Recv() != nil {
		sel, isSel := unparen(s.call.Fun).(*ast.SelectorExpr)
		if !isSel {
			return "", "", false
		}
		selInfo := ps.info.Selections[sel]
		if selInfo == nil {
			return "", "", false
		}
		val := ps.text(s.fn, sel.X.Pos(), sel.X.End())
		recvT := sig.Recv().Type()
		xt := ps.info.TypeOf(sel.X)
		_, wantPtr := recvT.(*types.Pointer)
		_, havePtr := xt.Underlying().(*types.Pointer)
		switch {
		case wantPtr && !havePtr:
			val = "&(" + val + ")"
		case !wantPtr && havePtr:
			val = "*(" + val + ")"
		}
		name := ""
		if len(fd.Recv.List) == 1 && len(fd.Recv.List[0].Names) == 1 {
			name = fd.Recv.List[0].Names[0].Name
		}
		bs = append(bs, bnd{name, g.typeStr(s.fn, recvT), val})
	}
	params := sig.Params()
	var pnames []string
	for _, f := range fd.Type.Params.List {
		if len(f.Names) == 0 {
			pnames = append(pnames, "")
		}
		for _, n := range f.Names {
			pnames = append(pnames, n.Name)
		}
	}
	if len(pnames) != params.Len() {
		return "", "", false
	}
	args := s.call.Args
	if len(args) == 1 && params.Len() > 1 {
		return "", "", false // f(g()) with a tuple
	}
	for i := 0; i < params.Len(); i++ {
		pt := params.At(i).Type()
		if sig.Variadic() && i == params.Len()-1 {
			var val string
			switch {
			case s.call.Ellipsis.IsValid():
				if len(args) != params.Len() {
					return "", "", false
				}
				val = ps.text(s.fn, args[i].Pos(), args[i].End())
			case len(args) <= i:
				val = "nil"
			default:
				var parts []string
				for _, a := range args[i:] {
					parts = append(parts, ps.text(s.fn, a.Pos(), a.End()))
				}
				val = g.typeStr(s.fn, pt) + "{" + strings.Join(parts, ", ") + "}"
			}
			bs = append(bs, bnd{pnames[i], g.typeStr(s.fn, pt), val})
			continue
		}
		if i >= len(args) {
			return "", "", false
		}
		if tv, ok := ps.info.Types[args[i]]; ok {
			if _, isTuple := tv.Type.(*types.Tuple); isTuple {
				return "", "", false
			}
		}
		bs = append(bs, bnd{pnames[i], g.typeStr(s.fn, pt), ps.text(s.fn, args[i].Pos(), args[i].End())})
	}
	if !sig.Variadic() && len(args) != params.Len() {
		return "", "", false
	}
	var ob, ib strings.Builder
	var ln, rn []string
	for i, b := range bs {
		v := fmt.Sprintf("_i%s_a%d", id, i)
		fmt.Fprintf(&ob, "var %s %s = %s; _ = %s; ", v, b.typ, b.val, v)
		if b.name != "" && b.name != "_" {
			ln = append(ln, b.name)
			rn = append(rn, v)
		}
	}
	if len(ln) > 0 {
		fmt.Fprintf(&ib, "%s := %s; ", strings.Join(ln, ", "), strings.Join(rn, ", "))
		blanks := strings.TrimSuffix(strings.Repeat("_, ", len(ln)), ", ")
		fmt.Fprintf(&ib, "%s = %s; ", blanks, strings.Join(ln, ", "))
	}
	// named results are ordinary locals of the callee
	if fd.Type.Results != nil {
		res := sig.Results()
		k := 0
		for _, f := range fd.Type.Results.List {
			if len(f.Names) == 0 {
				k++
				continue
			}
			for _, n := range f.Names {
				if n.Name != "_" {
					fmt.Fprintf(&ib, "var %s %s; _ = %s; ", n.Name, g.typeStr(s.fn, res.At(k).Type()), n.Name)
				}
				k++
			}
		}
	}
	return ob.String(), ib.String(), true
}

func (g *gen) skip(s *site, why string) *edit {
	pos := g.ps.fset.PositionFor(s.call.Pos(), true)
	g.res.Skipped = append(g.res.Skipped, fmt.Sprintf("%s at %s:%d (%s): %s", g.qual(s.callee), filepath.Base(pos.Filename), pos.Line, s.kind, why))
	return nil
}

func (g *gen) enclResults(s *site) *types.Tuple {
	switch e := s.encl.(type) {
	case *ast.FuncDecl:
		if obj, ok := g.ps.info.Defs[e.Name].(*types.Func); ok {
			return obj.Type().(*types.Signature).Results()
		}
	case *ast.FuncLit:
		if t, ok := g.ps.info.TypeOf(e).(*types.Signature); ok {
			return t.Results()
		}
	}
	return nil
}

func (g *gen) inline(s *site) *edit {
	ps := g.ps
	fd := g.decls[s.callee]
	calleeFile := g.declFn[s.callee]
	if why := g.inlinable(fd); why != "" {
		// as the body of a go/defer function literal, defers, recover and labels keep their meaning
		lit := s.kind == "go" || s.kind == "defer"
		if !lit || why == "generic" || why == "method of a generic type" || why == "no body" {
			return g.skip(s, why)
		}
	}
	if bad := g.shadowed(fd, s.call.Pos()); bad != "" {
		return g.skip(s, "the name "+bad+" means something else at the call site")
	}
	*g.seq++
	id := fmt.Sprintf("%d", *g.seq)
	sig := s.callee.Type().(*types.Signature)
	nres := sig.Results().Len()
	what := fmt.Sprintf("%s into %s (%s)", g.qual(s.callee), g.enclName(s), s.kind)
	start, end := ps.off(s.stmt.Pos()), ps.off(s.stmt.End())
	after := ps.lineDirective(s.stmt.End())

	if s.kind == "go" || s.kind == "defer" {
		// go f(a) -> go func(params) { body }(a)
		var ps2 []string
		if sig.Recv() != nil {
			name := "_"
			if len(fd.Recv.List) == 1 && len(fd.Recv.List[0].Names) == 1 {
				name = fd.Recv.List[0].Names[0].Name
			}
			ps2 = append(ps2, name+" "+g.typeStr(s.fn, sig.Recv().Type()))
		}
		k := 0
		for _, f := range fd.Type.Params.List {
			names := f.Names
			if len(names) == 0 {
				names = []*ast.Ident{{Name: "_"}}
			}
			for _, n := range names {
				t := sig.Params().At(k).Type()
				ts := g.typeStr(s.fn, t)
				if sig.Variadic() && k == sig.Params().Len()-1 {
					ts = "..." + g.typeStr(s.fn, t.(*types.Slice).Elem())
				}
				ps2 = append(ps2, n.Name+" "+ts)
				k++
			}
		}
		var args []string
		if sig.Recv() != nil {
			sel, ok := unparen(s.call.Fun).(*ast.SelectorExpr)
			if !ok {
				return g.skip(s, "receiver shape")
			}
			val := ps.text(s.fn, sel.X.Pos(), sel.X.End())
			_, wantPtr := sig.Recv().Type().(*types.Pointer)
			_, havePtr := ps.info.TypeOf(sel.X).Underlying().(*types.Pointer)
			switch {
			case wantPtr && !havePtr:
				val = "&(" + val + ")"
			case !wantPtr && havePtr:
				val = "*(" + val + ")"
			}
			args = append(args, val)
		}
		for _, a := range s.call.Args {
			args = append(args, ps.text(s.fn, a.Pos(), a.End()))
		}
		ell := ""
		if s.call.Ellipsis.IsValid() {
			ell = "..."
		}
		var named strings.Builder
		if fd.Type.Results != nil {
			k := 0
			for _, f := range fd.Type.Results.List {
				if len(f.Names) == 0 {
					k++
					continue
				}
				for _, n := range f.Names {
					if n.Name != "_" {
						fmt.Fprintf(&named, "var %s %s; _ = %s; ", n.Name, g.typeStr(s.fn, sig.Results().At(k).Type()), n.Name)
					}
					k++
				}
			}
		}
		body := g.bodyText(s.fn, fd, calleeFile, retDrop, nil, "")
		text := fmt.Sprintf("%s func(%s) { %s%s}(%s%s)%s", s.kind, strings.Join(ps2, ", "), named.String(), body, strings.Join(args, ", "), ell, after)
		return &edit{start: start, end: end, text: text, what: what}
	}

	outer, inner, ok := g.binds(s, fd, id)
	if !ok {
		return g.skip(s, "argument shape not supported")
	}

	// tail call with identical result types
	if s.kind == "return" {
		er := g.enclResults(s)
		same := er != nil && er.Len() == nres
		if same {
			for i := 0; i < nres; i++ {
				if !types.Identical(er.At(i).Type(), sig.Results().At(i).Type()) {
					same = false
				}
			}
		}
		if same {
			body := g.bodyText(s.fn, fd, calleeFile, retKeep, nil, "")
			text := fmt.Sprintf("{ %s{ %s%s} }%s", outer, inner, body, after)
			return &edit{start: start, end: end, text: text, what: what}
		}
	}

	var resVars []string
	var decl strings.Builder
	for i := 0; i < nres; i++ {
		v := fmt.Sprintf("_i%s_r%d", id, i)
		resVars = append(resVars, v)
		fmt.Fprintf(&decl, "var %s %s; _ = %s; ", v, g.typeStr(s.fn, sig.Results().At(i).Type()), v)
	}
	label := fmt.Sprintf("_i%s_L", id)
	body := g.bodyText(s.fn, fd, calleeFile, retAssign, resVars, label)
	block := fmt.Sprintf("{ %s{ %s%s: for { %sbreak %s } } }", outer, inner, label, body, label)
	resList := strings.Join(resVars, ", ")
	stmtWith := func() string {
		// the statement with the call replaced by the result variables
		return ps.text(s.fn, s.stmt.Pos(), s.call.Pos()) + resList + ps.text(s.fn, s.call.End(), s.stmt.End())
	}
	var text string
	switch s.kind {
	case "stmt":
		text = fmt.Sprintf("{ %s%s }%s", decl.String(), block, after)
	case "assign":
		if nres == 0 {
			return g.skip(s, "no result")
		}
		text = fmt.Sprintf("%s%s; %s%s", decl.String(), block, stmtWith(), after)
	case "return", "if-init", "if-cond", "range":
		if nres == 0 && s.kind != "if-init" {
			return g.skip(s, "no result")
		}
		if s.kind == "if-init" {
			ifs := s.stmt.(*ast.IfStmt)
			if _, isExpr := ifs.Init.(*ast.ExprStmt); isExpr {
				// if f(); cond {...}  ->  { inline; if cond {...} }
				text = fmt.Sprintf("{ %s%s; if %s }%s", decl.String(), block, ps.text(s.fn, ifs.Cond.Pos(), ifs.End()), after)
				break
			}
		}
		text = fmt.Sprintf("{ %s%s; %s }%s", decl.String(), block, stmtWith(), after)
	default:
		return g.skip(s, "context")
	}
	return &edit{start: start, end: end, text: text, what: what}
}

func (g *gen) enclName(s *site) string {
	if s.enclDecl != nil {
		return qualName(g.ps.rel, s.enclDecl)
	}
	return "?"
}

// valueUse wraps an unknown function / method used as a value into a function literal.
func (g *gen) valueUse(fn string, e ast.Expr, c *astutil.Cursor, encl ast.Node) *edit {
	ps := g.ps
	var f *types.Func
	var recvText string
	switch x := e.(type) {
	case *ast.Ident:
		obj, ok := ps.info.Uses[x].(*types.Func)
		if !ok || obj.Type().(*types.Signature).Recv() != nil {
			return nil
		}
		if _, isSel := c.Parent().(*ast.SelectorExpr); isSel {
			return nil
		}
		f = obj
	case *ast.SelectorExpr:
		sel := ps.info.Selections[x]
		if sel == nil || sel.Kind() != types.MethodVal || len(sel.Index()) != 1 || types.IsInterface(sel.Recv()) {
			return nil
		}
		obj, ok := sel.Obj().(*types.Func)
		if !ok {
			return nil
		}
		id, ok := unparen(x.X).(*ast.Ident)
		if !ok {
			return nil
		}
		v, ok := ps.info.Uses[id].(*types.Var)
		if !ok || v.IsField() {
			return nil
		}
		if encl == nil || g.reassigned(encl, v) {
			return nil
		}
		f = obj
		recvText = id.Name
	default:
		return nil
	}
	if !g.isUnknown(f) {
		return nil
	}
	if call, ok := c.Parent().(*ast.CallExpr); ok && c.Name() == "Fun" && call.Fun == e {
		return nil
	}
	if pe, ok := c.Parent().(*ast.ParenExpr); ok {
		_ = pe
		return nil
	}
	if g.inlinable(g.decls[f]) != "" {
		return nil
	}
	sig := f.Type().(*types.Signature)
	var ps2, as []string
	for i := 0; i < sig.Params().Len(); i++ {
		t := sig.Params().At(i).Type()
		ts := g.typeStr(fn, t)
		a := fmt.Sprintf("_p%d", i)
		if sig.Variadic() && i == sig.Params().Len()-1 {
			ts = "..." + g.typeStr(fn, t.(*types.Slice).Elem())
			as = append(as, a+"...")
		} else {
			as = append(as, a)
		}
		ps2 = append(ps2, a+" "+ts)
	}
	var rs []string
	for i := 0; i < sig.Results().Len(); i++ {
		rs = append(rs, g.typeStr(fn, sig.Results().At(i).Type()))
	}
	target := f.Name()
	if recvText != "" {
		target = recvText + "." + f.Name()
	}
	ret := "return "
	if len(rs) == 0 {
		ret = ""
	}
	text := fmt.Sprintf("func(%s) (%s) { %s%s(%s) }%s", strings.Join(ps2, ", "), strings.Join(rs, ", "), ret, target, strings.Join(as, ", "), ps.lineDirective(e.End()))
	return &edit{start: ps.off(e.Pos()), end: ps.off(e.End()), text: text, what: fmt.Sprintf("%s used as a value: wrapped in a function literal", g.qual(f))}
}

// reassigned: the variable is assigned (other than its declaration) or has its address taken in encl.
func (g *gen) reassigned(encl ast.Node, v *types.Var) bool {
	ps := g.ps
	bad := false
	ast.Inspect(encl, func(n ast.Node) bool {
		switch x := n.(type) {
		case *ast.AssignStmt:
			for _, l := range x.Lhs {
				if id, ok := unparen(l).(*ast.Ident); ok {
					if ps.info.Uses[id] == v {
						bad = true
					}
				}
			}
		case *ast.IncDecStmt:
			if id, ok := unparen(x.X).(*ast.Ident); ok && ps.info.Uses[id] == v {
				bad = true
			}
		case *ast.UnaryExpr:
			if x.Op == token.AND {
				if id, ok := unparen(x.X).(*ast.Ident); ok && ps.info.Uses[id] == v {
					bad = true
				}
			}
		case *ast.RangeStmt:
			for _, l := range []ast.Expr{x.Key, x.Value} {
				if id, ok := l.(*ast.Ident); ok && ps.info.Uses[id] == v {
					bad = true
				}
			}
		}
		return !bad
	})
	return bad
}

// removeUnused deletes unknown unexported functions that are no longer referenced, and blanks
// imports that became unused.
func (ps *pkgState) removeUnused(unk map[string]bool, res *Result) {
	for round := 0; round < 4; round++ {
		used := map[types.Object]bool{}
		for _, obj := range ps.info.Uses {
			used[obj] = true
		}
		for _, sel := range ps.info.Selections {
			used[sel.Obj()] = true
		}
		snapshot := map[string][]byte{}
		for k, v := range ps.content {
			snapshot[k] = v
		}
		var removed []string
		changed := false
		for _, fn := range ps.files {
			f := ps.syntax[fn]
			if f == nil {
				continue
			}
			var es []edit
			for _, d := range f.Decls {
				fd, ok := d.(*ast.FuncDecl)
				if !ok || ast.IsExported(fd.Name.Name) || fd.Name.Name == "init" || fd.Name.Name == "main" {
					continue
				}
				q := qualName(ps.rel, fd)
				obj := ps.info.Defs[fd.Name]
				if !unk[q] || obj == nil || used[obj] {
					continue
				}
				from := fd.Pos()
				if fd.Doc != nil {
					from = fd.Doc.Pos()
				}
				es = append(es, edit{start: ps.off(from), end: ps.off(fd.End()), text: ps.lineDirective(fd.End())})
				removed = append(removed, q)
			}
			if len(es) > 0 {
				ps.content[fn] = applyEdits(ps.content[fn], es, nil)
				changed = true
			}
		}
		if !changed {
			return
		}
		ps.check()
		// imports that became unused
		for try := 0; try < 24 && len(ps.errs) > 0; try++ {
			fixed := false
			for _, e := range ps.errs {
				if !strings.Contains(e.Msg, "imported and not used") && !strings.Contains(e.Msg, "imported as") {
					continue
				}
				pos := ps.fset.Position(e.Pos)
				f := ps.syntax[pos.Filename]
				if f == nil {
					continue
				}
				for _, is := range f.Imports {
					if ps.off(is.Pos()) <= pos.Offset && pos.Offset <= ps.off(is.End()) {
						ed := edit{start: ps.off(is.Pos()), end: ps.off(is.End()), text: "_ " + is.Path.Value}
						ps.content[pos.Filename] = applyEdits(ps.content[pos.Filename], []edit{ed}, nil)
						fixed = true
					}
				}
				if fixed {
					break
				}
			}
			if !fixed {
				break
			}
			ps.check()
		}
		if len(ps.errs) > 0 {
			res.Problems = append(res.Problems, fmt.Sprintf("%s: removal of inlined helpers dropped (%s)", ps.rel, ps.errs[0].Msg))
			for k, v := range snapshot {
				ps.content[k] = v
			}
			ps.check()
			return
		}
		res.Removed = append(res.Removed, removed...)
	}
}
