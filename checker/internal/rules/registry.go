// Package rules holds the rule catalogue (DESIGN.md section 4) and the mapping from
// properties to rules.
package rules

import (
	"fmt"
	"runtime/debug"
	"sort"
	"strings"
	"sync"

	"svcheck/internal/report"
	"svcheck/internal/world"
)

// RuleFn decides one rule on the loaded world.
type RuleFn func(w *world.World, r *report.RuleResult)

type ruleDef struct {
	ID    string
	Note  string
	Floor int
	Fn    RuleFn
}

var registry = map[string]*ruleDef{}

func register(id string, floor int, note string, fn RuleFn) {
	if _, dup := registry[id]; dup {
		panic("duplicate rule " + id)
	}
	registry[id] = &ruleDef{ID: id, Note: note, Floor: floor, Fn: fn}
}

var (
	memoMu sync.Mutex
	memo   = map[string]*report.RuleResult{}
)

// Run evaluates a rule (memoised per process). A panic inside a rule fails the rule closed.
func Run(w *world.World, id string) *report.RuleResult {
	memoMu.Lock()
	if r, ok := memo[id]; ok {
		memoMu.Unlock()
		return r
	}
	memoMu.Unlock()
	def := registry[id]
	res := &report.RuleResult{Rule: id}
	if def == nil {
		res.Err = fmt.Errorf("rule %s is not registered", id)
		return res
	}
	res.Floor, res.Note = def.Floor, def.Note
	func() {
		defer func() {
			if x := recover(); x != nil {
				st := string(debug.Stack())
				if len(st) > 1500 {
					st = st[:1500]
				}
				res.Err = fmt.Errorf("panic in rule %s: %v\n%s", id, x, st)
			}
		}()
		def.Fn(w, res)
	}()
	memoMu.Lock()
	memo[id] = res
	memoMu.Unlock()
	return res
}

// RuleIDs lists the registered rules.
func RuleIDs() []string {
	var out []string
	for id := range registry {
		out = append(out, id)
	}
	sort.Strings(out)
	return out
}

// RuleRef selects a rule for a property, optionally restricted to obligations whose key
// contains one of the Scope substrings (e.g. a package path).
type RuleRef struct {
	ID    string
	Scope []string // substrings of the obligation key (any); empty = all
	Must  []string // substrings that must all occur in the key
	Not   []string // substrings that must not occur in the key
	Floor int      // floor for the scoped view (0 = rule's own floor when unscoped, else 1)
}

func (rr RuleRef) view(full *report.RuleResult) *report.RuleResult {
	if len(rr.Scope) == 0 && len(rr.Must) == 0 && len(rr.Not) == 0 {
		return full
	}
	v := &report.RuleResult{Rule: full.Rule, Note: full.Note + " [scope: " + strings.Join(append(append(append([]string{}, rr.Scope...), rr.Must...), rr.Not...), ", ") + "]", Err: full.Err, Floor: rr.Floor}
	if v.Floor == 0 {
		v.Floor = 1
	}
	if v.Floor < 0 {
		v.Floor = 0 // scoped view of a pattern rule whose instances may legitimately all be written another way
	}
	for _, ob := range full.Obs {
		ok := len(rr.Scope) == 0
		for _, s := range rr.Scope {
			if strings.Contains(ob.Key, s) {
				ok = true
				break
			}
		}
		for _, s := range rr.Must {
			if !strings.Contains(ob.Key, s) {
				ok = false
			}
		}
		for _, s := range rr.Not {
			if strings.Contains(ob.Key, s) {
				ok = false
			}
		}
		if ok {
			v.Obs = append(v.Obs, ob)
		}
	}
	return v
}

// Prop describes one property check.
type Prop struct {
	ID            string
	Title         string
	Explanation   string
	Decides       []string
	NotCovered    []string
	Assumptions   []string
	Rules         []RuleRef
	NotApplicable string // reason, when the property is not claimed
	Tech          string
}

// Technique names the deciding method for MANIFEST.json.
func (p *Prop) Technique() string {
	if p.Tech != "" {
		return p.Tech
	}
	return "static analysis: SSA must/may dataflow on CFG edges, call-graph reachability and typed-AST table rules"
}

var props = map[string]*Prop{}

func defProp(p *Prop) { props[p.ID] = p }

func GetProp(id string) *Prop { return props[id] }

func PropIDs() []string {
	var out []string
	for id := range props {
		out = append(out, id)
	}
	sort.Strings(out)
	return out
}

// RunProp evaluates all rules of a property.
func RunProp(w *world.World, p *Prop) []*report.RuleResult {
	var out []*report.RuleResult
	for _, rr := range p.Rules {
		out = append(out, rr.view(Run(w, rr.ID)))
	}
	return out
}
