package rules

import (
	"fmt"
	"sort"
	"strings"

	"golang.org/x/tools/go/ssa"

	"svcheck/internal/lockset"
	"svcheck/internal/report"
	"svcheck/internal/world"
)

func init() {
	register("RT", 4, "role table of the handler callbacks: T2, FA, EW and the purity rules classify the HandlerFuncParams callbacks by name (SetValues, SetExpiry, DeleteKey, Flush change the keyspace); this rule derives the role from the implementation - a callback whose implementation can store an entry into a database's key map, or put anything but a new empty map under a database index, is in that list. A callback that starts to change the dataset (SWAPDB exchanging the databases' contents) without being classified would leave its commands outside the write/Sync requirement: not logged, not replicated", ruleRT)
}

func ruleRT(w *world.World, r *report.RuleResult) {
	// bindings: HandlerFuncParams.F = <function value>
	bind := map[string][]*ssa.Function{}
	pos := map[string]string{}
	for _, fn := range w.FuncsIn("sugardb") {
		if strings.Contains(w.Pos(fn.Pos()), "_test.go") {
			continue
		}
		for _, b := range fn.Blocks {
			for _, in := range b.Instrs {
				st, ok := in.(*ssa.Store)
				if !ok {
					continue
				}
				fa, ok := st.Addr.(*ssa.FieldAddr)
				if !ok || !world.TypeIs(fa.X.Type(), "/internal", "HandlerFuncParams") {
					continue
				}
				var f *ssa.Function
				switch v := st.Val.(type) {
				case *ssa.MakeClosure:
					f, _ = v.Fn.(*ssa.Function)
				case *ssa.Function:
					f = v
				case *ssa.ChangeType:
					if mc, ok := v.X.(*ssa.MakeClosure); ok {
						f, _ = mc.Fn.(*ssa.Function)
					} else if g, ok := v.X.(*ssa.Function); ok {
						f = g
					}
				}
				if f == nil {
					continue
				}
				name := world.FieldName(fa)
				bind[name] = append(bind[name], f)
				if pos[name] == "" {
					pos[name] = w.InstrPos(st)
				}
			}
		}
	}
	if len(bind) == 0 {
		r.Err = fmt.Errorf("no binding of a HandlerFuncParams callback found in package sugardb")
		return
	}
	var names []string
	for n := range bind {
		names = append(names, n)
	}
	sort.Strings(names)
	for _, name := range names {
		var events []string
		for _, f := range bind[name] {
			reach := w.ReachCalls(f)
			for _, g := range reach.Fns {
				for _, b := range g.Blocks {
					for _, in := range b.Instrs {
						mu, ok := in.(*ssa.MapUpdate)
						if !ok || !onPath(mu.Map, pStore) {
							continue
						}
						if _, inner := mu.Map.(*ssa.Lookup); !inner {
							// store[d] = make(...): a new, empty database
							if _, fresh := mu.Value.(*ssa.MakeMap); fresh {
								continue
							}
						}
						events = append(events, fmt.Sprintf("%s at %s (%s)", world.FuncName(g), w.InstrPos(in), strings.TrimPrefix(lockset.Path(mu.Map), "sugardb.SugarDB.")))
					}
				}
			}
		}
		key := "HandlerFuncParams." + name
		switch {
		case len(events) > 0 && !world.Mutators[name]:
			r.Fail(key, pos[name], fmt.Sprintf("the callback %s can change the dataset (%s) but is not classified as a keyspace mutator: a command whose handler uses it is not required to be in the write category and Sync, so its effect is neither appended to the log nor replicated - after a restart or on the other nodes the data is where it was before", name, events[0]))
		case len(events) > 0:
			r.OK(key, pos[name], fmt.Sprintf("writes entries (%d site(s)) and is classified as a mutator", len(events)))
		case world.Mutators[name]:
			r.OK(key, pos[name], "classified as a mutator (removes or clears entries)")
		default:
			r.OK(key, pos[name], "stores no entry into a database's key map")
		}
	}
}
