package rules

import (
	"fmt"
	"go/token"
	"go/types"
	"strings"

	"golang.org/x/tools/go/ssa"

	"svcheck/internal/report"
	"svcheck/internal/world"
)

func init() {
	register("W5", 2, "panic containment: every goroutine / library-callback root from which a command handler is invoked installs a deferred recover() before the invocation (embedded API entry points are exempt: a panic propagates to the embedding caller)", ruleW5)
	register("CL", 2, "connection loop: after a command was handled, every path back to the read loop writes a reply or an error line to the connection, except for the empty reply (subscribe family) and EOF/quit", ruleCL)
	register("S1", 1, "pub/sub delivery order: between taking a message from a channel's queue and writing it to a subscriber's socket no goroutine is started (per-message goroutines lose publish order)", ruleS1)
}

// hasRecoverDefer: fn has a Defer whose deferred function calls recover(), dominating instruction at.
func hasRecoverDefer(fn *ssa.Function, at ssa.Instruction) bool {
	for _, b := range fn.Blocks {
		for _, in := range b.Instrs {
			df, ok := in.(*ssa.Defer)
			if !ok {
				continue
			}
			var body *ssa.Function
			switch v := df.Call.Value.(type) {
			case *ssa.MakeClosure:
				body, _ = v.Fn.(*ssa.Function)
			case *ssa.Function:
				body = v
			}
			if body == nil {
				continue
			}
			calls := false
			for _, c := range world.Calls(body) {
				if bi, ok := c.Common().Value.(*ssa.Builtin); ok && bi.Name() == "recover" {
					calls = true
				}
			}
			if calls && (at == nil || world.Dominates(df, at)) {
				return true
			}
		}
	}
	return false
}

func ruleW5(w *world.World, r *report.RuleResult) {
	disp, _, err := w.Dispatcher()
	if err != nil {
		r.Err = err
		return
	}
	// roots: (1) functions started with `go` from which the dispatcher is reachable by calls;
	// (2) other HandlerFunc invokers that are library callbacks (raft FSM.Apply)
	type chain struct {
		root *ssa.Function
		path []ssa.CallInstruction // call sites root -> ... -> dispatcher / handler
		fns  []*ssa.Function
	}
	var chains []chain
	// find call paths (depth <= 3) from go-started functions to the dispatcher
	goTargets := map[*ssa.Function]bool{}
	for _, fn := range w.ModFns {
		for _, b := range fn.Blocks {
			for _, in := range b.Instrs {
				if g, ok := in.(*ssa.Go); ok {
					if f := g.Call.StaticCallee(); f != nil {
						goTargets[f] = true
					}
					if mc, ok := g.Call.Value.(*ssa.MakeClosure); ok {
						goTargets[mc.Fn.(*ssa.Function)] = true
					}
				}
			}
		}
	}
	var search func(fn *ssa.Function, path []ssa.CallInstruction, fns []*ssa.Function, depth int, root *ssa.Function)
	search = func(fn *ssa.Function, path []ssa.CallInstruction, fns []*ssa.Function, depth int, root *ssa.Function) {
		if depth > 3 {
			return
		}
		for _, c := range world.Calls(fn) {
			if _, isGo := c.(*ssa.Go); isGo {
				continue
			}
			var callee *ssa.Function
			if mc, ok := c.Common().Value.(*ssa.MakeClosure); ok {
				callee = mc.Fn.(*ssa.Function)
			} else {
				callee = c.Common().StaticCallee()
			}
			if callee == nil {
				continue
			}
			if callee == disp {
				// only network-facing roots: the embedded API's own helper goroutines pass embedded=true
				embeddedCall := false
				if dc, err := getDisp(w); err == nil {
					for i, p := range disp.Params {
						if p == dc.embedded && i < len(c.Common().Args) {
							if v, ok := world.ConstBool(c.Common().Args[i]); ok && v {
								embeddedCall = true
							}
						}
					}
				}
				if embeddedCall {
					continue
				}
				chains = append(chains, chain{root, append(append([]ssa.CallInstruction{}, path...), c), append(append([]*ssa.Function{}, fns...), fn)})
				continue
			}
			if world.InModule(callee) && callee.Blocks != nil && callee != fn {
				search(callee, append(path, c), append(fns, fn), depth+1, root)
			}
		}
	}
	for fn := range goTargets {
		if world.InModule(fn) {
			search(fn, nil, nil, 0, fn)
		}
	}
	seenRoot := map[*ssa.Function]bool{}
	for _, ch := range chains {
		if seenRoot[ch.root] {
			continue
		}
		seenRoot[ch.root] = true
		key := world.FuncName(ch.root) + "|recover"
		ok := false
		for i, fn := range ch.fns {
			if hasRecoverDefer(fn, ch.path[i]) {
				ok = true
			}
		}
		if ok {
			r.OK(key, w.Pos(ch.root.Pos()), "goroutine "+world.FuncName(ch.root)+" runs the dispatcher under a deferred recover()")
		} else {
			r.Fail(key, w.Pos(ch.root.Pos()), fmt.Sprintf("%s runs on its own goroutine and calls the dispatcher (and thereby every command handler) with no deferred recover(): a panic in any handler terminates the whole process and disconnects every client", world.FuncName(ch.root)))
		}
	}
	for fn, calls := range w.HandlerInvokers() {
		if fn == disp {
			continue
		}
		key := world.FuncName(fn) + "|recover"
		if hasRecoverDefer(fn, calls[0]) {
			r.OK(key, w.Pos(fn.Pos()), "handler invoked under a deferred recover()")
		} else {
			r.Fail(key, w.Pos(fn.Pos()), fmt.Sprintf("%s is called back by the raft library on its own goroutine and invokes command handlers with no deferred recover(): a panicking handler takes the node down — on every replica, since all of them apply the same entry", world.FuncName(fn)))
		}
	}
	if len(seenRoot) == 0 {
		r.Fail("connection-goroutine", "-", "no goroutine that calls the dispatcher was found: the connection loop anchor is lost")
	}
}

// isRequestRead: the call obtains the next request from the connection - the RESP frame reader
// ((*resp.Reader).ReadValue / ReadMultiBulk) or the project's ReadMessage.
func isRequestRead(c ssa.CallInstruction) bool {
	f := c.Common().StaticCallee()
	if f == nil {
		return false
	}
	if world.BaseName(f) == "ReadMessage" {
		return true
	}
	return isFrameRead(c)
}

func isFrameRead(c ssa.CallInstruction) bool {
	_, ok := frameReader(c, 0)
	return ok
}

// frameReader: the call reads one RESP frame - directly ((*resp.Reader).ReadValue / ReadMultiBulk)
// or through a module helper that does so on a reader it is handed; returns the reader value at
// this call site.
func frameReader(c ssa.CallInstruction, depth int) (ssa.Value, bool) {
	f := c.Common().StaticCallee()
	if f == nil || len(c.Common().Args) == 0 {
		return nil, false
	}
	if (f.Name() == "ReadValue" || f.Name() == "ReadMultiBulk") && f.Signature.Recv() != nil && world.TypeIs(f.Signature.Recv().Type(), "tidwall/resp", "Reader") {
		return c.Common().Args[0], true
	}
	if depth < 2 && world.InModule(f) && f.Blocks != nil {
		for _, c2 := range world.Calls(f) {
			if rd, ok := frameReader(c2, depth+1); ok {
				for i, p := range f.Params {
					if rd == ssa.Value(p) && i < len(c.Common().Args) {
						return c.Common().Args[i], true
					}
				}
			}
		}
	}
	return nil, false
}

// connLoop finds the connection loop: the function that reads request messages
// (internal.ReadMessage) and from which the dispatcher is reached, directly, through an
// immediately invoked closure or a helper; cmdCall is that call.
func connLoop(w *world.World) (*ssa.Function, ssa.Instruction, error) {
	disp, _, err := w.Dispatcher()
	if err != nil {
		return nil, nil, err
	}
	var loop *ssa.Function
	var cmdCall ssa.Instruction
	for _, fn := range w.FuncsIn("sugardb") {
		reads := false
		for _, c := range world.Calls(fn) {
			if isRequestRead(c) {
				reads = true
			}
		}
		if !reads {
			continue
		}
		for _, c := range world.Calls(fn) {
			callee := c.Common().StaticCallee()
			if mc, ok := c.Common().Value.(*ssa.MakeClosure); ok {
				callee = mc.Fn.(*ssa.Function)
			}
			if callee == nil {
				continue
			}
			if callee == disp || (world.InModule(callee) && w.ReachCalls(callee).In[disp]) {
				// the request read and the command call belong to one loop (the embedded API's
				// wrappers also call the dispatcher and parse a reply, but only once)
				inLoop := false
				for _, rc := range world.Calls(fn) {
					if !isRequestRead(rc) {
						continue
					}
					for d := rc.Block(); d != nil; d = d.Idom() {
						if nl := naturalLoop(d); nl != nil && nl[rc.Block()] && nl[c.Block()] {
							inLoop = true
						}
					}
				}
				if inLoop {
					loop, cmdCall = fn, c
				}
			}
		}
	}
	if loop == nil {
		return nil, nil, fmt.Errorf("connection loop (function reading request messages and calling the dispatcher) not found")
	}
	return loop, cmdCall, nil
}

func ruleCL(w *world.World, r *report.RuleResult) {
	loop, cmdCall, err := connLoop(w)
	if err != nil {
		r.Err = err
		return
	}
	fname := world.FuncName(loop)
	const (
		HANDLED world.Facts = 1 << iota
		DONE
	)
	isWrite := func(in ssa.Instruction) bool {
		c, ok := in.(ssa.CallInstruction)
		if !ok {
			return false
		}
		if c.Common().IsInvoke() && c.Common().Method.Name() == "Write" {
			return true
		}
		if f := c.Common().StaticCallee(); f != nil && (world.BaseName(f) == "Write" || world.BaseName(f) == "WriteString") && f.Signature.Recv() != nil {
			return true
		}
		return false
	}
	// answers: a module helper every return of which is reached only after a write to the connection
	// (or over the empty-reply edge) counts as a write at its call site
	answersMemo := map[*ssa.Function]bool{}
	var answers func(f *ssa.Function, depth int) bool
	var eg func(b *ssa.BasicBlock, si int) world.Facts
	gen := func(in ssa.Instruction) world.Facts {
		if in == cmdCall {
			return HANDLED
		}
		if isWrite(in) {
			return DONE
		}
		if c, ok := in.(*ssa.Call); ok {
			if f := c.Call.StaticCallee(); f != nil && world.InModule(f) && f.Blocks != nil && answers(f, 0) {
				return DONE
			}
		}
		return 0
	}
	answers = func(f *ssa.Function, depth int) bool {
		if v, ok := answersMemo[f]; ok {
			return v
		}
		answersMemo[f] = false
		if depth > 2 {
			return false
		}
		hasWriter := false
		for _, p := range f.Params {
			if _, isIface := p.Type().Underlying().(*types.Interface); isIface || world.TypeIs(p.Type(), "net", "Conn") {
				hasWriter = true
			}
		}
		for _, fv := range f.FreeVars {
			t := fv.Type()
			if pt, ok := t.(*types.Pointer); ok {
				t = pt.Elem()
			}
			if _, isIface := t.Underlying().(*types.Interface); isIface || world.TypeIs(t, "net", "Conn") {
				hasWriter = true // a local closure around the connection's writer
			}
		}
		if !hasWriter {
			return false
		}
		hm := world.Must(f, eg, gen, nil)
		ok := true
		for _, ret := range world.Returns(f) {
			if world.FactsAt(hm, ret, gen, nil)&DONE == 0 {
				ok = false
			}
		}
		answersMemo[f] = ok
		return ok
	}
	kill := func(in ssa.Instruction) world.Facts {
		if in == cmdCall {
			return DONE
		}
		return 0
	}
	eg = func(b *ssa.BasicBlock, si int) world.Facts {
		iff := world.IfOf(b)
		if iff == nil {
			return 0
		}
		// len(res) == 0 true edge
		if bo, ok := world.CondValue(iff).(*ssa.BinOp); ok && (bo.Op == token.EQL || bo.Op == token.LEQ) {
			if lc, ok := bo.X.(*ssa.Call); ok {
				if bi, ok := lc.Call.Value.(*ssa.Builtin); ok && bi.Name() == "len" {
					if k, ok := world.ConstInt(bo.Y); ok && k == 0 && si == 0 {
						return DONE
					}
				}
			}
		}
		return 0
	}
	must := world.Must(loop, eg, gen, kill)
	// a counted loop over the reply whose first iteration is certain (`for i := 0; i < len(res); ...`
	// after a test len(res) > c) is left only after an iteration: when every iteration writes, the
	// edge that leaves the loop carries the write
	{
		certain := map[*ssa.BasicBlock]int{}
		for _, h := range loop.Blocks {
			exit, ok := world.FirstTripCertain(h)
			if !ok {
				continue
			}
			all := true
			for _, p := range h.Preds {
				if !h.Dominates(p) {
					continue
				}
				f := must[p]
				for _, in := range p.Instrs {
					f &^= kill(in)
					f |= gen(in)
				}
				if f&DONE == 0 {
					all = false
				}
			}
			if all {
				certain[h] = exit
			}
		}
		if len(certain) > 0 {
			eg0 := eg
			eg = func(b *ssa.BasicBlock, si int) world.Facts {
				if e, ok := certain[b]; ok && e == si {
					return DONE | eg0(b, si)
				}
				return eg0(b, si)
			}
			must = world.Must(loop, eg, gen, kill)
		}
	}
	// loop header: the block containing the message read (ReadMessage) — back edges to it
	var header *ssa.BasicBlock
	for _, c := range world.Calls(loop) {
		if isRequestRead(c) {
			header = c.Block()
		}
	}
	if header == nil {
		r.Err = fmt.Errorf("%s: message read not found", fname)
		return
	}
	n := 0
	for _, p := range header.Preds {
		// facts at the end of p
		f := must[p]
		for _, in := range p.Instrs {
			f &^= kill(in)
			f |= gen(in)
		}
		for si, sc := range p.Succs {
			if sc == header {
				f |= eg(p, si)
			}
		}
		if f&HANDLED == 0 {
			continue // entry edge
		}
		n++
		key := fmt.Sprintf("%s|back-edge#%d", fname, n)
		last := p.Instrs[len(p.Instrs)-1]
		if f&DONE != 0 {
			r.OK(key, w.InstrPos(last), "every path from the command to this loop iteration end wrote to the connection (or the reply is empty)")
		} else {
			r.Fail(key, w.InstrPos(last), "after handling a command the loop can return to reading the next message without having written a reply or an error line: the client waits for ever and later replies are attributed to the wrong command")
		}
	}
	if n == 0 {
		r.Fail(fname+"|back-edge", w.Pos(loop.Pos()), "no loop back edge after the command call: the connection handles one command only")
	}
}

func ruleS1(w *world.World, r *report.RuleResult) {
	n := 0
	for _, fn := range w.FuncsIn("internal/modules/pubsub") {
		// delivery loop: receives from the channel's message queue
		recv := false
		for _, b := range fn.Blocks {
			for _, in := range b.Instrs {
				if u, ok := in.(*ssa.UnOp); ok && u.Op == token.ARROW {
					recv = true
				}
			}
		}
		if !recv {
			continue
		}
		n++
		key := world.FuncName(fn) + "|deliver"
		// socket writes: calls to methods of resp.Conn / net.Conn named Write*
		writesHere, writesInGo := 0, 0
		var goAt ssa.Instruction
		var scan func(f *ssa.Function, viaGo bool, depth int)
		scan = func(f *ssa.Function, viaGo bool, depth int) {
			if depth > 3 {
				return
			}
			for _, c := range world.Calls(f) {
				callee := c.Common().StaticCallee()
				if mc, ok := c.Common().Value.(*ssa.MakeClosure); ok {
					callee = mc.Fn.(*ssa.Function)
				}
				_, isGo := c.(*ssa.Go)
				if callee != nil && strings.HasPrefix(callee.Name(), "Write") && callee.Signature.Recv() != nil {
					if viaGo || isGo {
						writesInGo++
					} else {
						writesHere++
					}
					continue
				}
				if c.Common().IsInvoke() && strings.HasPrefix(c.Common().Method.Name(), "Write") {
					if viaGo || isGo {
						writesInGo++
					} else {
						writesHere++
					}
					continue
				}
				if callee != nil && world.InModule(callee) && callee.Parent() != nil {
					if isGo && goAt == nil {
						goAt = c
					}
					scan(callee, viaGo || isGo, depth+1)
				}
			}
		}
		scan(fn, false, 0)
		switch {
		case writesInGo > 0:
			r.Fail(key, w.InstrPos(goAt), fmt.Sprintf("%s takes a message from the channel queue and starts a new goroutine per subscriber per message to write it: two messages published in order to one channel are written by two unordered goroutines, so a subscriber can receive them in the opposite order (and interleaved frames if a write is split)", world.FuncName(fn)))
		case writesHere > 0:
			r.OK(key, w.Pos(fn.Pos()), "messages are written to subscribers by the goroutine that dequeues them, in queue order")
		default:
			r.Und(key, w.Pos(fn.Pos()), "delivery loop found but no socket write reachable from it")
		}
	}
	if n == 0 {
		r.Fail("deliver", "-", "no function of the pubsub package receives from a message queue: the delivery anchor is lost")
	}
}
