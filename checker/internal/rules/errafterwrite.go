package rules

import (
	"fmt"

	"golang.org/x/tools/go/ssa"

	"svcheck/internal/report"
	"svcheck/internal/world"
)

func init() {
	register("EW", 1, "a command that fails has changed nothing: values are handed to handlers by reference, so a handler that has written through a store-derived reference (updated a stored hash/list/set in place) must not afterwards return an error of its own - the client is told the command failed while the stored value has already changed", ruleEW)
}

// ruleEW: may-analysis per handler: W = "a write through a store-derived reference has happened".
// Every error return reachable with W is reported, except the return of the keyspace write's own
// error (the refusal of SetValues - the refusable write after an in-place update is inventoried by
// P3/FA, since no handler of the tree copies before it writes).
func ruleEW(w *world.World, r *report.RuleResult) {
	cmds, err := w.Commands()
	if err != nil {
		r.Err = err
		return
	}
	eng := engine(w)
	hs, _ := handlersOf(cmds, nil)
	const W world.Facts = 1
	for _, h := range hs {
		res := eng.Analyze(h)
		if len(res.Sites) == 0 {
			r.OK(world.FuncName(h)+"|no-error-after-in-place-write", w.Pos(h.Pos()), "the handler never writes through a reference to a stored value")
			continue
		}
		gen := func(in ssa.Instruction) world.Facts {
			if !res.Sites[in] {
				return 0
			}
			// only writes made by the handler's own instructions (map update, store, append, copy,
			// in-place library call): whether a module helper can fail after it wrote is a question
			// about the helper's own paths (several helpers validate first and cannot), not decided here
			if c, ok := in.(ssa.CallInstruction); ok {
				if f := c.Common().StaticCallee(); f != nil && world.InModule(f) {
					return 0
				}
				if _, isClosure := c.Common().Value.(*ssa.MakeClosure); isClosure {
					return 0
				}
			}
			return W
		}
		may := world.May(h, nil, gen, nil)
		name := world.FuncName(h)
		n := 0
		for _, ret := range world.Returns(h) {
			rv := world.RetVals(ret)
			if len(rv) != 2 || world.IsNilConst(rv[1]) {
				continue
			}
			if world.FactsAt(may, ret, gen, nil)&W == 0 {
				continue
			}
			// the error of a keyspace mutator itself (refused write), also through a variable that
			// collects it from several branches
			if fromMutatorOnly(rv[1], 0) {
				continue
			}
			// an error variable that a dominating test has shown to be nil
			if isNil, known := world.NilnessAt(rv[1], ret.Block()); known && isNil {
				continue
			}
			// the rejection of the stored value's type (default arm of a type switch / failed assertion on
			// a value read from the store): reached with the value as it was stored, not as just written
			if typeRejection(ret.Block()) {
				continue
			}
			n++
			key := fmt.Sprintf("%s|error-return-after-in-place-write#%d", name, n)
			r.Fail(key, w.InstrPos(ret), fmt.Sprintf("%s can return an error here after it has already written through a reference to the stored value (the keyspace hands out the stored map/slice/set itself, not a copy): the command is reported as failed but the stored value has changed", name))
		}
		if n == 0 {
			r.OK(name+"|no-error-after-in-place-write", w.Pos(h.Pos()), "no error return of the handler is reachable after an in-place write to a stored object (other than the refusal of the keyspace write itself)")
		}
	}
}

var _ = report.Discharged


func fromMutatorOnly(v ssa.Value, d int) bool {
	if d > 4 {
		return false
	}
	if world.IsNilConst(v) {
		return true
	}
	if ph, ok := v.(*ssa.Phi); ok {
		for _, e := range ph.Edges {
			if !fromMutatorOnly(e, d+1) {
				return false
			}
		}
		return len(ph.Edges) > 0
	}
	if src := world.ErrSource(v); src != nil {
		if c, ok := src.(ssa.CallInstruction); ok && world.Mutators[world.AccessorCall(c)] {
			return true
		}
	}
	return false
}

// typeRejection: block b is dominated by the not-ok edge of a comma-ok type assertion.
func typeRejection(b *ssa.BasicBlock) bool {
	for d := b.Idom(); d != nil; d = d.Idom() {
		iff := world.IfOf(d)
		if iff == nil || len(d.Succs) != 2 {
			continue
		}
		c := iff.Cond
		neg := false
		if u, ok := c.(*ssa.UnOp); ok && u.Op.String() == "!" {
			c, neg = u.X, true
		}
		ex, ok := c.(*ssa.Extract)
		if !ok || ex.Index != 1 {
			continue
		}
		if _, ok := ex.Tuple.(*ssa.TypeAssert); !ok {
			continue
		}
		notOk := d.Succs[1]
		if neg {
			notOk = d.Succs[0]
		}
		if len(notOk.Preds) == 1 && (notOk == b || notOk.Dominates(b)) {
			return true
		}
	}
	return false
}
