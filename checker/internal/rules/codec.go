package rules

import (
	"fmt"
	"go/types"
	"sort"
	"strings"

	"golang.org/x/tools/go/ssa"

	"svcheck/internal/report"
	"svcheck/internal/world"
)

func init() {
	register("E8", 6, "codec table agreement: every concrete type that handlers store as a key's value (the encoder table, collected from all SetValues call sites, recursively for hash values) is reproduced with the same dynamic type by the persistence decoder (encoding/json into interface{} unless KeyData declares its own UnmarshalJSON); applies to the snapshot, AOF-preamble and raft-snapshot encode/decode pairs, which all marshal internal.KeyData", ruleE8)
}

// dynTypes collects the concrete types an interface-typed value may hold.
func dynTypes(w *world.World, v ssa.Value, out map[string]string, where string, inner bool, depth int, seen map[ssa.Value]bool) {
	if depth > 12 || seen[v] {
		return
	}
	seen[v] = true
	tag := func(t string) string {
		if inner {
			return "hash-value:" + t
		}
		return "value:" + t
	}
	switch x := v.(type) {
	case *ssa.MakeInterface:
		t := x.X.Type()
		out[tag(shortType(t.String()))] = where
		if mp, ok := t.Underlying().(*types.Map); ok {
			if _, isIface := mp.Elem().Underlying().(*types.Interface); isIface {
				collectMapVals(w, x.X, out, where, depth+1, seen)
			}
		}
	case *ssa.Phi:
		for _, e := range x.Edges {
			dynTypes(w, e, out, where, inner, depth+1, seen)
		}
	case *ssa.Call:
		if f := x.Call.StaticCallee(); f != nil && world.InModule(f) && f.Blocks != nil {
			for _, ret := range world.Returns(f) {
				for _, rv := range world.RetVals(ret) {
					if _, ok := rv.Type().Underlying().(*types.Interface); ok {
						dynTypes(w, rv, out, where+" via "+f.Name(), inner, depth+1, seen)
					}
				}
			}
			return
		}
		// value read back from the store / other dynamic source: already in the table through its writer
	case *ssa.UnOp:
		if al, ok := x.X.(*ssa.Alloc); ok {
			for _, ref := range *al.Referrers() {
				if st, ok := ref.(*ssa.Store); ok && st.Addr == ssa.Value(al) {
					dynTypes(w, st.Val, out, where, inner, depth+1, seen)
				}
			}
		}
	case *ssa.ChangeInterface:
		dynTypes(w, x.X, out, where, inner, depth+1, seen)
	}
}

func collectMapVals(w *world.World, m ssa.Value, out map[string]string, where string, depth int, seen map[ssa.Value]bool) {
	// m may be a load of a local; find map updates on the same value or on its allocation's stored values
	cands := []ssa.Value{m}
	if u, ok := m.(*ssa.UnOp); ok {
		if al, ok := u.X.(*ssa.Alloc); ok {
			for _, ref := range *al.Referrers() {
				if st, ok := ref.(*ssa.Store); ok && st.Addr == ssa.Value(al) {
					cands = append(cands, st.Val)
				}
				if ld, ok := ref.(*ssa.UnOp); ok {
					cands = append(cands, ld)
				}
			}
		}
	}
	if p, ok := m.(*ssa.Phi); ok {
		cands = append(cands, p.Edges...)
	}
	for _, c := range cands {
		refs := c.Referrers()
		if refs == nil {
			continue
		}
		for _, ref := range *refs {
			if mu, ok := ref.(*ssa.MapUpdate); ok && mu.Map == c {
				dynTypes(w, mu.Value, out, where, true, depth+1, seen)
			}
		}
	}
}

// jsonRoundTrip models encoding/json: marshal a value of type t held in an interface{}, then
// unmarshal into interface{}. Returns the resulting dynamic type and whether it equals t.
func jsonRoundTrip(t string) (string, bool) {
	switch t {
	case "string", "float64", "bool":
		return t, true
	case "map[string]interface{}", "map[string]any":
		return "map[string]interface{}", true
	case "int", "int8", "int16", "int32", "int64", "uint", "uint8", "uint16", "uint32", "uint64", "float32":
		return "float64", false
	case "[]string", "[]interface{}", "[]int", "[]float64":
		if t == "[]interface{}" {
			return t, true
		}
		return "[]interface{}", false
	}
	if strings.HasPrefix(t, "*") || strings.HasPrefix(t, "internal/") {
		return "map[string]interface{} (a struct marshals to a JSON object; unexported fields are dropped, so the content is lost)", false
	}
	if strings.HasPrefix(t, "[]") {
		return "[]interface{}", false
	}
	if strings.HasPrefix(t, "map[") {
		return "map[string]interface{}", false
	}
	return "?", false
}

func ruleE8(w *world.World, r *report.RuleResult) {
	// decoder table: default JSON unless KeyData has custom (un)marshalling
	custom := false
	if p := w.Pkg("internal"); p != nil {
		if obj := p.Types.Scope().Lookup("KeyData"); obj != nil {
			ms := types.NewMethodSet(types.NewPointer(obj.Type()))
			for i := 0; i < ms.Len(); i++ {
				if n := ms.At(i).Obj().Name(); n == "UnmarshalJSON" || n == "MarshalJSON" {
					custom = true
				}
			}
		}
	}
	if custom {
		r.Und("keydata-custom-codec", "-", "internal.KeyData now declares custom JSON (un)marshalling: the rule's model of the decoder (default encoding/json into interface{}) no longer applies and must be re-derived from the type switch / tags of the new codec")
		return
	}
	table := map[string]string{}
	nSites := 0
	for _, fn := range w.ModFns {
		pos := w.Pos(fn.Pos())
		if strings.Contains(pos, "_test.go") || strings.Contains(pos, "test_helpers") || strings.Contains(pos, "volumes/") {
			continue
		}
		// restore paths write back what was decoded; they are not encoders of new types
		if world.ShortPkg(world.PkgOf(fn)) == "sugardb" && fn.Parent() != nil {
			continue
		}
		if world.ShortPkg(world.PkgOf(fn)) == "internal/raft" {
			continue
		}
		for _, c := range world.Calls(fn) {
			isSet := world.AccessorCall(c) == "SetValues"
			if f := c.Common().StaticCallee(); f != nil && world.FuncName(f) == "sugardb.(*SugarDB).setValues" {
				isSet = true
			}
			if !isSet {
				continue
			}
			nSites++
			args := c.Common().Args
			m := args[len(args)-1]
			refs := m.Referrers()
			if refs == nil {
				continue
			}
			for _, ref := range *refs {
				if mu, ok := ref.(*ssa.MapUpdate); ok && mu.Map == m {
					dynTypes(w, mu.Value, table, world.FuncName(fn), false, 0, map[ssa.Value]bool{})
				}
			}
		}
	}
	if nSites < 30 {
		r.Und("setvalues-sites", "-", fmt.Sprintf("only %d SetValues call sites found (42 on the pinned tree): the encoder table would be incomplete", nSites))
	}
	var ks []string
	for k := range table {
		ks = append(ks, k)
	}
	sort.Strings(ks)
	for _, k := range ks {
		t := k[strings.Index(k, ":")+1:]
		got, same := jsonRoundTrip(t)
		key := "stored-" + k
		if same {
			r.OK(key, "-", fmt.Sprintf("stored by %s; JSON round trip through interface{} reproduces %s", table[k], t))
		} else {
			r.Fail(key, "-", fmt.Sprintf("values of dynamic type %s are stored in the keyspace (e.g. by %s) but the persistence codec (json.Marshal of internal.KeyData, json.Unmarshal into interface{}) gives them back as %s: after a snapshot restore, an AOF rewrite + restore, or a raft snapshot install the key has another type (commands of the original type then fail with a wrong-type error or compute differently)", t, table[k], got))
		}
	}
}
