package rules

import (
	"fmt"
	"go/token"
	"strings"

	"golang.org/x/tools/go/ssa"

	"svcheck/internal/report"
	"svcheck/internal/world"
)

// HC — aggregate header / element count agreement.
//
// A reply value is evaluated into a *template*: its literal text with placeholders for numbers (\x01),
// string payloads (\x02), repeated parts (\x03 ... \x04) and alternatives created at branch joins.
// A template that can be tokenised completely as RESP is checked: every aggregate header with a
// CONSTANT count (*N, %N, ~N, >N) is followed by exactly N (2N for maps) complete elements. A header
// whose count is a number placeholder followed by a repeated part is accepted as one element (the
// relation between the count and the iterations is value-level). Anything the evaluator cannot read
// (unknown calls, odd joins) makes the instance "not decided" — never a finding.

func init() {
	register("HC", 8, "constant aggregate headers agree with the number of elements that follow: a reply whose text is fully determined by literals, format strings and loops is parsed as RESP and every *N / %N header with a constant N is followed by exactly N (2N) elements", ruleHC)
}

const (
	phNum  = "\x01"
	phStr  = "\x02"
	phLoop = "\x03"
	phEnd  = "\x04"
)

type tmpl struct {
	alts []string // alternative texts (branch joins); nil = unknown
}

func (t tmpl) ok() bool { return len(t.alts) > 0 && len(t.alts) <= 8 }

func lit(s string) tmpl { return tmpl{[]string{s}} }

func cat(a, b tmpl) tmpl {
	if !a.ok() || !b.ok() || len(a.alts)*len(b.alts) > 8 {
		return tmpl{}
	}
	var out []string
	for _, x := range a.alts {
		for _, y := range b.alts {
			out = append(out, x+y)
		}
	}
	return tmpl{out}
}

func join(ts ...tmpl) tmpl {
	seen := map[string]bool{}
	var out []string
	for _, t := range ts {
		if !t.ok() {
			return tmpl{}
		}
		for _, a := range t.alts {
			if !seen[a] {
				seen[a] = true
				out = append(out, a)
			}
		}
	}
	if len(out) > 8 {
		return tmpl{}
	}
	return tmpl{out}
}

type hcEval struct {
	w     *world.World
	memo  map[ssa.Value]tmpl
	busy  map[ssa.Value]bool
	depth int
}

func (e *hcEval) eval(v ssa.Value) tmpl {
	if v == nil {
		return tmpl{}
	}
	if t, ok := e.memo[v]; ok {
		return t
	}
	if e.busy[v] {
		return tmpl{}
	}
	e.busy[v] = true
	t := e.eval1(v)
	delete(e.busy, v)
	e.memo[v] = t
	return t
}

func isNumeric(v ssa.Value) bool {
	if v == nil {
		return false
	}
	s := v.Type().Underlying().String()
	switch s {
	case "int", "int8", "int16", "int32", "int64", "uint", "uint8", "uint16", "uint32", "uint64", "float32", "float64":
		return true
	}
	return false
}

func (e *hcEval) sprintf(format string, args []ssa.Value) tmpl {
	out := lit("")
	for _, seg := range parseFormat(format) {
		if seg.verb == 0 {
			out = cat(out, lit(seg.lit))
			continue
		}
		var a ssa.Value
		if seg.arg < len(args) {
			a = args[seg.arg]
		}
		switch seg.verb {
		case 'd':
			out = cat(out, lit(phNum))
		case 's', 'v', 'q':
			if a != nil && isNumeric(a) {
				out = cat(out, lit(phNum))
				continue
			}
			// a string argument produced by a module helper or a literal is expanded; anything else is payload
			if a != nil {
				if s, ok := world.ConstString(a); ok {
					out = cat(out, lit(s))
					continue
				}
				if c, ok := a.(*ssa.Call); ok {
					if f := c.Call.StaticCallee(); f != nil && world.InModule(f) {
						if t := e.eval(a); t.ok() {
							out = cat(out, t)
							continue
						}
					}
				}
			}
			out = cat(out, lit(phStr))
		case 'f', 'g', 'e':
			out = cat(out, lit(phStr)) // rendered number used as payload text
		default:
			return tmpl{}
		}
	}
	return out
}

func (e *hcEval) eval1(v ssa.Value) tmpl {
	switch x := v.(type) {
	case *ssa.Const:
		if s, ok := world.ConstString(x); ok {
			return lit(s)
		}
		if x.IsNil() {
			return lit("")
		}
		return tmpl{}
	case *ssa.Convert:
		return e.eval(x.X)
	case *ssa.ChangeType:
		return e.eval(x.X)
	case *ssa.MakeInterface:
		return e.eval(x.X)
	case *ssa.Slice:
		if x.Low == nil && x.High == nil {
			return e.eval(x.X)
		}
		return tmpl{}
	case *ssa.BinOp:
		if x.Op == token.ADD {
			return cat(e.eval(x.X), e.eval(x.Y))
		}
		return tmpl{}
	case *ssa.Phi:
		// loop phi: one edge (transitively) extends the phi itself
		var outside []tmpl
		var loopParts []tmpl
		for _, ed := range x.Edges {
			if part, isLoop := e.extends(ed, x, 0); isLoop {
				loopParts = append(loopParts, part)
				continue
			}
			outside = append(outside, e.eval(ed))
		}
		if len(outside) == 0 {
			return tmpl{}
		}
		base := join(outside...)
		if len(loopParts) == 0 {
			return base
		}
		body := join(loopParts...)
		if !body.ok() {
			return tmpl{}
		}
		var alts []string
		for _, b := range body.alts {
			alts = append(alts, phLoop+b+phEnd)
		}
		return cat(base, tmpl{alts})
	case *ssa.Call:
		if bi, ok := x.Call.Value.(*ssa.Builtin); ok {
			if bi.Name() == "append" && len(x.Call.Args) == 2 {
				return cat(e.eval(x.Call.Args[0]), e.eval(x.Call.Args[1]))
			}
			return tmpl{}
		}
		f := x.Call.StaticCallee()
		if f == nil {
			return tmpl{}
		}
		if isBuilderRead(f) {
			return e.builderTemplate(x)
		}
		switch f.String() {
		case "fmt.Sprintf":
			fs, ok := world.ConstString(x.Call.Args[0])
			if !ok {
				return tmpl{}
			}
			return e.sprintf(fs, varargsOf(x.Call.Args[1]))
		case "strconv.Itoa", "strconv.FormatInt", "strconv.FormatUint":
			return lit(phNum)
		case "fmt.Sprint":
			return tmpl{}
		}
		if world.InModule(f) && f.Blocks != nil && e.depth < 2 {
			// helper returning a reply fragment: every return must evaluate
			e.depth++
			defer func() { e.depth-- }()
			var ts []tmpl
			for _, ret := range world.Returns(f) {
				rv := world.RetVals(ret)
				if len(rv) == 0 {
					return tmpl{}
				}
				ts = append(ts, e.eval(rv[0]))
			}
			return join(ts...)
		}
		return tmpl{}
	case *ssa.UnOp:
		// local accumulator kept in an alloc (captured by a closure): not followed
		return tmpl{}
	}
	return tmpl{}
}

// builderTemplate: the text written into a strings.Builder / bytes.Buffer before the read rd, for the
// common shape "straight-line writes, loops whose body only appends, straight-line writes": the CFG
// is walked from the entry along the unique path of blocks that dominate rd; a loop on the way (a
// block with a back edge) contributes one repeated part made of the writes in the loop's blocks.
// Anything else (writes under conditions) gives up.
func (e *hcEval) builderTemplate(rd *ssa.Call) tmpl {
	if len(rd.Call.Args) == 0 {
		return tmpl{}
	}
	recv := rd.Call.Args[0]
	if _, ok := recv.(*ssa.Alloc); !ok {
		return tmpl{}
	}
	fn := rd.Parent()
	writeT := func(in ssa.Instruction) (tmpl, bool) {
		val, fp, ok := builderWrite(in, recv)
		if !ok {
			return tmpl{}, false
		}
		if fp != nil {
			if fp.Call.StaticCallee().String() == "fmt.Fprintf" && len(fp.Call.Args) >= 3 {
				if fs, ok := world.ConstString(fp.Call.Args[1]); ok {
					return e.sprintf(fs, varargsOf(fp.Call.Args[2])), true
				}
			}
			return tmpl{}, true
		}
		if isStringy(val.Type()) || isByteSlice(val.Type()) {
			return e.eval(val), true
		}
		return tmpl{}, true
	}
	blockT := func(b *ssa.BasicBlock, upto ssa.Instruction) tmpl {
		t := lit("")
		for _, in := range b.Instrs {
			if in == upto {
				break
			}
			if w, ok := writeT(in); ok {
				t = cat(t, w)
			}
		}
		return t
	}
	hasWrite := func(b *ssa.BasicBlock) bool {
		for _, in := range b.Instrs {
			if _, _, ok := builderWrite(in, recv); ok {
				return true
			}
		}
		return false
	}
	target := rd.Block()
	out := lit("")
	for _, b := range fn.Blocks {
		if b == target {
			return cat(out, blockT(b, rd))
		}
		if b.Dominates(target) {
			out = cat(out, blockT(b, nil))
			continue
		}
		if !hasWrite(b) {
			continue
		}
		// a writing block that does not dominate the read: accepted only as the body of a loop whose
		// header dominates the read (every iteration appends the same shape)
		inLoop := false
		for d := b.Idom(); d != nil; d = d.Idom() {
			if d.Dominates(target) {
				// d is the innermost dominator of b that also dominates the read: b is in a loop headed at d
				// iff some block dominated by d branches back to d
				for _, p := range d.Preds {
					if d.Dominates(p) && (p == b || b.Dominates(p) || pathWithin(b, p, d)) {
						inLoop = true
					}
				}
				break
			}
		}
		if !inLoop {
			return tmpl{}
		}
		body := blockT(b, nil)
		if !body.ok() {
			return tmpl{}
		}
		var alts []string
		for _, a := range body.alts {
			alts = append(alts, phLoop+a+phEnd)
		}
		out = cat(out, tmpl{alts})
	}
	return tmpl{}
}

// pathWithin: p is reachable from b without passing through header h.
func pathWithin(b, p, h *ssa.BasicBlock) bool {
	seen := map[*ssa.BasicBlock]bool{h: true}
	var dfs func(x *ssa.BasicBlock) bool
	dfs = func(x *ssa.BasicBlock) bool {
		if x == p {
			return true
		}
		if seen[x] {
			return false
		}
		seen[x] = true
		for _, s := range x.Succs {
			if dfs(s) {
				return true
			}
		}
		return false
	}
	return dfs(b)
}

// extends: v is phi extended by some text (v = phi + part, append(phi, part...), possibly through a
// chain or inner phis); returns the appended part.
func (e *hcEval) extends(v ssa.Value, phi *ssa.Phi, d int) (tmpl, bool) {
	if d > 12 {
		return tmpl{}, false
	}
	if v == ssa.Value(phi) {
		return lit(""), true
	}
	switch x := v.(type) {
	case *ssa.BinOp:
		if x.Op == token.ADD {
			if p, ok := e.extends(x.X, phi, d+1); ok {
				return cat(p, e.eval(x.Y)), true
			}
		}
	case *ssa.Call:
		if bi, ok := x.Call.Value.(*ssa.Builtin); ok && bi.Name() == "append" && len(x.Call.Args) == 2 {
			if p, ok := e.extends(x.Call.Args[0], phi, d+1); ok {
				return cat(p, e.eval(x.Call.Args[1])), true
			}
		}
	case *ssa.Phi:
		if e.busy[x] {
			return tmpl{}, false
		}
		// inner join (if/else inside the loop body): every edge must extend the outer phi
		e.busy[x] = true
		defer delete(e.busy, x)
		var parts []tmpl
		for _, ed := range x.Edges {
			p, ok := e.extends(ed, phi, d+1)
			if !ok {
				return tmpl{}, false
			}
			parts = append(parts, p)
		}
		return join(parts...), true
	case *ssa.Convert:
		return e.extends(x.X, phi, d+1)
	case *ssa.ChangeType:
		return e.extends(x.X, phi, d+1)
	}
	return tmpl{}, false
}

// ---- RESP tokeniser over templates ----

type hcParser struct {
	s   string
	i   int
	err string // structural problem: not decided
	bad string // count mismatch: finding
}

func (p *hcParser) crlf() bool {
	if strings.HasPrefix(p.s[p.i:], "\r\n") {
		p.i += 2
		return true
	}
	return false
}

// number: digits or a placeholder; returns (value, isConst)
func (p *hcParser) number() (int, bool, bool) {
	if strings.HasPrefix(p.s[p.i:], phNum) {
		p.i++
		return 0, false, true
	}
	j := p.i
	if j < len(p.s) && p.s[j] == '-' {
		j++
	}
	k := j
	for k < len(p.s) && p.s[k] >= '0' && p.s[k] <= '9' {
		k++
	}
	if k == j {
		return 0, false, false
	}
	n := 0
	fmt.Sscanf(p.s[p.i:k], "%d", &n)
	p.i = k
	return n, true, true
}

// line: simple payload up to CRLF (literal text and placeholders, no CR/LF inside)
func (p *hcParser) line() bool {
	for p.i < len(p.s) {
		if strings.HasPrefix(p.s[p.i:], "\r\n") {
			p.i += 2
			return true
		}
		c := p.s[p.i]
		if c == '\r' || c == '\n' || c == phLoop[0] || c == phEnd[0] {
			return false
		}
		p.i++
	}
	return false
}

// element parses one complete RESP value.
func (p *hcParser) element(depth int) bool {
	if p.i >= len(p.s) || depth > 6 {
		p.err = "unexpected end"
		return false
	}
	switch c := p.s[p.i]; c {
	case '+', '-', ':', '_', '#', ',', '(':
		p.i++
		if !p.line() {
			p.err = "unterminated simple value"
			return false
		}
		return true
	case '$', '=', '!':
		p.i++
		n, isConst, ok := p.number()
		if !ok || !p.crlf() {
			p.err = "bulk header"
			return false
		}
		if isConst && n < 0 {
			return true // null bulk
		}
		// payload: placeholder(s) / literal text up to CRLF
		if !p.line() {
			p.err = "bulk payload"
			return false
		}
		return true
	case '*', '%', '~', '>':
		p.i++
		start := p.i
		n, isConst, ok := p.number()
		if !ok || !p.crlf() {
			p.err = "aggregate header"
			return false
		}
		if !isConst {
			// dynamic count: accept a repeated part (or nothing more at this level) as the content
			if strings.HasPrefix(p.s[p.i:], phLoop) {
				if !p.loop(depth) {
					return false
				}
			}
			return true
		}
		if n < 0 {
			return true
		}
		want := n
		if c == '%' {
			want = 2 * n
		}
		for k := 0; k < want; k++ {
			if p.i >= len(p.s) || p.s[p.i] == phEnd[0] {
				p.bad = fmt.Sprintf("header %c%s announces %d element(s) but only %d follow", c, p.s[start:start+len(fmt.Sprint(n))], want, k)
				return false
			}
			if strings.HasPrefix(p.s[p.i:], phLoop) {
				p.err = "repeated part inside a constant-count aggregate"
				return false
			}
			if !p.element(depth + 1) {
				return false
			}
		}
		return true
	}
	p.err = fmt.Sprintf("unknown type byte %q", p.s[p.i])
	return false
}

func (p *hcParser) loop(depth int) bool {
	p.i++ // phLoop
	for p.i < len(p.s) && p.s[p.i] != phEnd[0] {
		if !p.element(depth + 1) {
			return false
		}
	}
	if p.i >= len(p.s) {
		p.err = "unterminated repeated part"
		return false
	}
	p.i++
	return true
}

// checkTemplate: "" / finding message / "?reason" for not decided.
func checkTemplate(s string) (finding, undecided string) {
	if !strings.ContainsAny(s, "*%~>") {
		return "", ""
	}
	p := &hcParser{s: s}
	n := 0
	for p.i < len(p.s) {
		if strings.HasPrefix(p.s[p.i:], phLoop) {
			if !p.loop(0) {
				break
			}
			continue
		}
		if !p.element(0) {
			break
		}
		n++
	}
	if p.bad != "" {
		return p.bad, ""
	}
	if p.err != "" {
		return "", p.err
	}
	if n > 1 && hasConstHeaderAtStart(s) {
		return fmt.Sprintf("the reply consists of %d top-level values: the constant-count aggregate at its start is followed by %d value(s) it does not cover", n, n-1), ""
	}
	return "", ""
}

func hasConstHeaderAtStart(s string) bool {
	if len(s) < 2 {
		return false
	}
	switch s[0] {
	case '*', '%', '~', '>':
		return s[1] >= '0' && s[1] <= '9'
	}
	return false
}

func hasConstHeader(s string) bool {
	for i := 0; i+1 < len(s); i++ {
		switch s[i] {
		case '*', '%', '~', '>':
			if s[i+1] >= '0' && s[i+1] <= '9' && (i == 0 || s[i-1] == '\n' || s[i-1] == phLoop[0]) {
				return true
			}
		}
	}
	return false
}

func ruleHC(w *world.World, r *report.RuleResult) {
	fns := replyFuncs(w)
	// reply builders that return string (pubsub confirmations are written by the callee itself)
	for _, fn := range w.ModFns {
		pos := w.Pos(fn.Pos())
		if strings.Contains(pos, "_test.go") || strings.Contains(pos, "volumes/") {
			continue
		}
		pk := world.ShortPkg(world.PkgOf(fn))
		if strings.HasPrefix(pk, "internal/modules/") && fn.Signature.Results().Len() == 1 && fn.Signature.Results().At(0).Type().String() == "string" {
			fns = append(fns, fn)
		}
	}
	for _, fn := range fns {
		n := 0
		for _, ret := range world.Returns(fn) {
			rv := world.RetVals(ret)
			if len(rv) == 0 || (len(rv) == 2 && !world.IsNilConst(rv[1])) {
				continue
			}
			e := &hcEval{w: w, memo: map[ssa.Value]tmpl{}, busy: map[ssa.Value]bool{}}
			t := e.eval(rv[0])
			if !t.ok() {
				continue
			}
			any := false
			for _, a := range t.alts {
				if hasConstHeader(a) {
					any = true
				}
			}
			if !any {
				continue
			}
			n++
			key := fmt.Sprintf("%s|reply#%d", world.FuncName(fn), n)
			pos := w.InstrPos(ret)
			var findings, und []string
			for _, a := range t.alts {
				f, u := checkTemplate(a)
				if f != "" {
					findings = append(findings, f+" (reply shape "+showTemplate(a)+")")
				}
				if u != "" {
					und = append(und, u)
				}
			}
			switch {
			case len(findings) > 0:
				r.Fail(key, pos, fmt.Sprintf("%s builds a reply whose aggregate header does not match the elements that follow: %s. The client reads the announced number of elements as this reply and takes the rest as the replies to its next commands (or blocks waiting for elements that never come): every later reply on the connection is out of step", world.FuncName(fn), strings.Join(findings, "; ")))
			case len(und) > 0:
				r.Skip(key, pos, "reply shape not fully readable ("+und[0]+"): not decided")
			default:
				r.OK(key, pos, "every constant-count aggregate header is followed by exactly the announced number of elements ("+showTemplate(t.alts[0])+")")
			}
		}
	}
}

func showTemplate(s string) string {
	s = strings.NewReplacer(phNum, "<n>", phStr, "<s>", phLoop, "{", phEnd, "}", "\r\n", "¶").Replace(s)
	if len(s) > 90 {
		s = s[:90] + "…"
	}
	return s
}

var _ = report.Discharged
