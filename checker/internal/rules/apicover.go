package rules

import (
	"fmt"
	"go/types"
	"sort"
	"strings"

	"golang.org/x/tools/go/ssa"

	"svcheck/internal/report"
	"svcheck/internal/world"
)

func init() {
	register("AP", 100, "the embedded API passes on what it is given: every parameter of an exported SugarDB method that issues a command is used (it reaches the command that is built, or a decision about it), and every field of the option structs these methods take is read somewhere in the package - an argument or option that is silently dropped makes the embedded call differ from the wire command it stands for", ruleAP)
}

func ruleAP(w *world.World, r *report.RuleResult) {
	p := w.Pkg("sugardb")
	if p == nil {
		r.Err = fmt.Errorf("package sugardb not found")
		return
	}
	disp, err := getDisp(w)
	if err != nil {
		r.Err = err
		return
	}
	callsDispatcher := func(fn *ssa.Function) bool {
		for _, c := range world.Calls(fn) {
			if f := c.Common().StaticCallee(); f != nil && f == disp.fn {
				return true
			}
		}
		return false
	}
	optTypes := map[*types.TypeName]bool{}
	// (1) parameters
	for _, fn := range w.FuncsIn("sugardb") {
		if fn.Parent() != nil || fn.Signature.Recv() == nil || !types.NewMethodSet(fn.Signature.Recv().Type()).Lookup(p.Types, fn.Name()).Obj().Exported() {
			continue
		}
		if strings.Contains(w.Pos(fn.Pos()), "_test.go") || !callsDispatcher(fn) {
			continue
		}
		name := world.FuncName(fn)
		for i, prm := range fn.Params {
			if i == 0 || prm.Name() == "_" {
				continue
			}
			if nt, ok := prm.Type().(*types.Named); ok && nt.Obj().Pkg() == p.Types {
				if _, isStruct := nt.Underlying().(*types.Struct); isStruct {
					optTypes[nt.Obj()] = true
				}
			}
			key := fmt.Sprintf("%s|param:%s", name, prm.Name())
			if prm.Referrers() != nil && len(*prm.Referrers()) > 0 {
				r.OK(key, w.Pos(fn.Pos()), "parameter is used")
			} else {
				r.Fail(key, w.Pos(fn.Pos()), fmt.Sprintf("%s never uses its parameter %s: what the caller passes is dropped, so the embedded call does not do what the wire command with that argument does", name, prm.Name()))
			}
		}
	}
	// (2) option struct fields
	read := map[*types.Var]bool{}
	for _, fn := range w.FuncsIn("sugardb") {
		for _, b := range fn.Blocks {
			for _, in := range b.Instrs {
				switch x := in.(type) {
				case *ssa.FieldAddr:
					if f := world.FieldOf(x); f != nil {
						// a FieldAddr that is only stored to is a write; count loads and address uses
						if x.Referrers() != nil {
							for _, ref := range *x.Referrers() {
								if st, ok := ref.(*ssa.Store); ok && st.Addr == ssa.Value(x) {
									continue
								}
								read[f] = true
							}
						}
					}
				case *ssa.Field:
					if st, ok := x.X.Type().Underlying().(*types.Struct); ok {
						read[st.Field(x.Field)] = true
					}
				}
			}
		}
	}
	sc := p.Types.Scope()
	names := sc.Names()
	sort.Strings(names)
	for _, n := range names {
		tn, ok := sc.Lookup(n).(*types.TypeName)
		if !ok || !tn.Exported() || !optTypes[tn] {
			continue
		}
		st, ok := tn.Type().Underlying().(*types.Struct)
		if !ok {
			continue
		}
		for i := 0; i < st.NumFields(); i++ {
			f := st.Field(i)
			key := fmt.Sprintf("sugardb.%s|field:%s", n, f.Name())
			if read[f] {
				r.OK(key, w.Pos(f.Pos()), "option field is read by the package")
			} else {
				r.Fail(key, w.Pos(f.Pos()), fmt.Sprintf("the option %s.%s is never read: the embedded API accepts it and ignores it", n, f.Name()))
			}
		}
	}
}

var _ = report.Discharged
