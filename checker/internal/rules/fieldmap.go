package rules

import (
	"fmt"
	"go/ast"
	"go/types"
	"sort"
	"strings"

	"svcheck/internal/report"
	"svcheck/internal/world"
)

func init() {
	register("FM", 6, "option-to-table field mapping: where package sugardb builds an internal.Command / internal.SubCommand from the caller's CommandOptions / SubCommandOptions, a field that exists under the same name in the options of that level is built from that field of those options (the subcommand's Sync, Categories, key extraction and handler come from the subcommand's options, not from the parent command's or a sibling field) - the dispatcher, the ACL and the replication decision read these fields", ruleFM)
}

// fields no property depends on
var fmExempt = map[string]string{
	"Module":      "a subcommand belongs to its parent's module (MODULE UNLOAD removes by the parent's); neither the dispatcher, the ACL nor the replication decision reads it",
	"Description": "documentation only",
}

func ruleFM(w *world.World, r *report.RuleResult) {
	p := w.Pkg("sugardb")
	if p == nil {
		r.Err = fmt.Errorf("package sugardb not found")
		return
	}
	optOf := func(t types.Type) *types.Named {
		name := ""
		switch {
		case world.TypeIs(t, "/internal", "Command"):
			name = "CommandOptions"
		case world.TypeIs(t, "/internal", "SubCommand"):
			name = "SubCommandOptions"
		default:
			return nil
		}
		if o := p.Types.Scope().Lookup(name); o != nil {
			if nt, ok := o.Type().(*types.Named); ok {
				return nt
			}
		}
		return nil
	}
	isOpt := func(t types.Type) *types.Named {
		if pt, ok := t.(*types.Pointer); ok {
			t = pt.Elem()
		}
		nt, ok := t.(*types.Named)
		if !ok || nt.Obj().Pkg() != p.Types {
			return nil
		}
		if nt.Obj().Name() == "CommandOptions" || nt.Obj().Name() == "SubCommandOptions" {
			return nt
		}
		return nil
	}
	hasField := func(nt *types.Named, f string) bool {
		st, ok := nt.Underlying().(*types.Struct)
		if !ok {
			return false
		}
		for i := 0; i < st.NumFields(); i++ {
			if world.CanonField(st.Field(i)) == f {
				return true
			}
		}
		return false
	}
	for _, file := range p.Syntax {
		fname := p.Fset.Position(file.Pos()).Filename
		if strings.HasSuffix(fname, "_test.go") {
			continue
		}
		for _, decl := range file.Decls {
			fd, ok := decl.(*ast.FuncDecl)
			if !ok || fd.Body == nil {
				continue
			}
			// assignments to local variables, for resolving identifiers used as field values
			defs := map[types.Object][]ast.Expr{}
			ast.Inspect(fd.Body, func(n ast.Node) bool {
				switch x := n.(type) {
				case *ast.AssignStmt:
					if len(x.Lhs) == len(x.Rhs) {
						for i, l := range x.Lhs {
							if id, ok := l.(*ast.Ident); ok {
								if o := p.TypesInfo.ObjectOf(id); o != nil {
									defs[o] = append(defs[o], x.Rhs[i])
								}
							}
						}
					}
				case *ast.ValueSpec:
					if len(x.Names) == len(x.Values) {
						for i, id := range x.Names {
							if o := p.TypesInfo.ObjectOf(id); o != nil {
								defs[o] = append(defs[o], x.Values[i])
							}
						}
					}
				}
				return true
			})
			// option selectors an expression is built from
			var sels func(e ast.Node, depth int, seen map[types.Object]bool, out map[string]bool)
			sels = func(e ast.Node, depth int, seen map[types.Object]bool, out map[string]bool) {
				ast.Inspect(e, func(n ast.Node) bool {
					switch x := n.(type) {
					case *ast.SelectorExpr:
						if tv, ok := p.TypesInfo.Types[x.X]; ok {
							if nt := isOpt(tv.Type); nt != nil {
								name := x.Sel.Name
								if fv, ok := p.TypesInfo.Uses[x.Sel].(*types.Var); ok && fv.IsField() {
									name = world.CanonField(fv)
								}
								out[nt.Obj().Name()+"."+name] = true
							}
						}
					case *ast.Ident:
						o := p.TypesInfo.Uses[x]
						if v, ok := o.(*types.Var); ok && !v.IsField() && depth < 4 && !seen[o] && isOpt(v.Type()) == nil {
							seen[o] = true
							for _, d := range defs[o] {
								sels(d, depth+1, seen, out)
							}
						}
					}
					return true
				})
			}
			fnName := fd.Name.Name
			if fd.Recv != nil && len(fd.Recv.List) > 0 {
				fnName = "(" + types.ExprString(fd.Recv.List[0].Type) + ")." + fnName
			}
			count := map[string]int{}
			check := func(target types.Type, field string, val ast.Expr) {
				opt := optOf(target)
				if opt == nil || !hasField(opt, field) || fmExempt[field] != "" {
					return
				}
				tname := "Command"
				if opt.Obj().Name() == "SubCommandOptions" {
					tname = "SubCommand"
				}
				base := fmt.Sprintf("sugardb.%s|%s.%s", fnName, tname, field)
				count[base]++
				key := fmt.Sprintf("%s#%d", base, count[base])
				pos := w.Pos(val.Pos())
				found := map[string]bool{}
				sels(val, 0, map[types.Object]bool{}, found)
				want := opt.Obj().Name() + "." + field
				if len(found) == 0 {
					r.OK(key, pos, "not built from the caller's options (fixed value)")
					return
				}
				if found[want] {
					r.OK(key, pos, "built from "+want)
					return
				}
				var fs []string
				for f := range found {
					fs = append(fs, f)
				}
				sort.Strings(fs)
				r.Fail(key, pos, fmt.Sprintf("the %s field of the registered internal.%s is built from %s and never from %s: what the caller declared for this %s is replaced by another level's or another field's value (the dispatcher, the ACL and the replication decision then act on the wrong %s)", field, tname, strings.Join(fs, ", "), want, strings.ToLower(tname), field))
			}
			ast.Inspect(fd.Body, func(n ast.Node) bool {
				switch x := n.(type) {
				case *ast.CompositeLit:
					tv, ok := p.TypesInfo.Types[x]
					if !ok || optOf(tv.Type) == nil {
						return true
					}
					for _, el := range x.Elts {
						kv, ok := el.(*ast.KeyValueExpr)
						if !ok {
							continue
						}
						if id, ok := kv.Key.(*ast.Ident); ok {
							name := id.Name
							if fv, ok := p.TypesInfo.Uses[id].(*types.Var); ok && fv.IsField() {
								name = world.CanonField(fv)
							}
							check(tv.Type, name, kv.Value)
						}
					}
				case *ast.AssignStmt:
					if len(x.Lhs) != len(x.Rhs) {
						return true
					}
					for i, l := range x.Lhs {
						se, ok := l.(*ast.SelectorExpr)
						if !ok {
							continue
						}
						tv, ok := p.TypesInfo.Types[se.X]
						if !ok {
							continue
						}
						t := tv.Type
						if pt, ok := t.(*types.Pointer); ok {
							t = pt.Elem()
						}
						name := se.Sel.Name
						if fv, ok := p.TypesInfo.Uses[se.Sel].(*types.Var); ok && fv.IsField() {
							name = world.CanonField(fv)
						}
						check(t, name, x.Rhs[i])
					}
				}
				return true
			})
		}
	}
}
