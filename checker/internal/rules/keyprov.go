package rules

import (
	"fmt"
	"go/token"
	"go/types"
	"sort"
	"strings"

	"golang.org/x/tools/go/ssa"

	"svcheck/internal/arity"
	"svcheck/internal/report"
	"svcheck/internal/world"
)

func init() {
	register("K1", 180, "key provenance: every key a handler passes to a keyspace accessor comes from the result of a key-extraction function (ReadKeys or WriteKeys for reads, WriteKeys for writes), or is a command token that the entry's key function also returns; helper-parsed key lists are reviewed exceptions", ruleK1)
	register("T6", 100, "key-function agreement: the key-extraction function a handler calls is the one registered for the command in the table, or the two have equal summaries (same slices of the command per field)", ruleT6)
}

func cIntStr(v ssa.Value) string {
	if v == nil {
		return ""
	}
	if i, ok := world.ConstInt(v); ok {
		return fmt.Sprint(i)
	}
	return "?"
}

// prov: abstract provenance of a key expression (I10).
func prov(v ssa.Value, d int, seen map[ssa.Value]bool) []string {
	if v == nil || d > 14 {
		return []string{"deep"}
	}
	if seen[v] {
		return nil
	}
	seen[v] = true
	defer delete(seen, v)
	// a value carried in a field of a local parameter struct is the value stored into that field
	if f := world.Forward(v); f != v {
		return prov(f, d+1, seen)
	}
	switch x := v.(type) {
	case *ssa.Const:
		if x.IsNil() {
			return nil
		}
		return []string{"const"}
	case *ssa.UnOp:
		if x.Op != token.MUL {
			break
		}
		switch a := x.X.(type) {
		case *ssa.FieldAddr:
			fn := world.FieldName(a)
			if isKeyResType(a.X.Type()) {
				return []string{"keys." + fn}
			}
			if fn == "Command" && world.TypeIs(a.X.Type(), "/internal", "HandlerFuncParams") {
				return []string{"Cmd"}
			}
			return []string{"field." + fn}
		case *ssa.IndexAddr:
			var out []string
			for _, b := range prov(a.X, d+1, seen) {
				out = append(out, b+"["+cIntStr(a.Index)+"]")
			}
			return out
		case *ssa.Alloc:
			var out []string
			for _, r := range *a.Referrers() {
				if st, ok := r.(*ssa.Store); ok && st.Addr == ssa.Value(a) {
					out = append(out, prov(st.Val, d+1, seen)...)
				}
			}
			return out
		case *ssa.FreeVar:
			return []string{"freevar:" + a.Name()}
		}
	case *ssa.Field:
		if isKeyResType(x.X.Type()) {
			st := x.X.Type().Underlying().(*types.Struct)
			return []string{"keys." + world.CanonField(st.Field(x.Field))}
		}
	case *ssa.Slice:
		if al, ok := x.X.(*ssa.Alloc); ok {
			if _, isArr := al.Type().Underlying().(*types.Pointer).Elem().Underlying().(*types.Array); isArr {
				var out []string
				for _, r := range *al.Referrers() {
					if ia, ok := r.(*ssa.IndexAddr); ok {
						for _, r2 := range *ia.Referrers() {
							if st, ok := r2.(*ssa.Store); ok {
								out = append(out, prov(st.Val, d+1, seen)...)
							}
						}
					}
				}
				return out
			}
		}
		var out []string
		for _, b := range prov(x.X, d+1, seen) {
			if x.Low == nil && x.High == nil {
				out = append(out, b)
			} else {
				out = append(out, fmt.Sprintf("%s[%s:%s]", b, cIntStr(x.Low), cIntStr(x.High)))
			}
		}
		return out
	case *ssa.Phi:
		var out []string
		for _, e := range x.Edges {
			out = append(out, prov(e, d+1, seen)...)
		}
		return out
	case *ssa.Extract:
		switch t := x.Tuple.(type) {
		case *ssa.Next:
			rng, ok := t.Iter.(*ssa.Range)
			if !ok {
				break
			}
			var out []string
			for _, b := range prov(rng.X, d+1, seen) {
				if x.Index == 1 {
					out = append(out, "key-of("+b+")")
				} else {
					out = append(out, "val-of("+b+")")
				}
			}
			return out
		case *ssa.Call:
			if f := t.Call.StaticCallee(); f != nil {
				if isKeyResType(x.Type()) {
					return []string{"keys"}
				}
				return []string{fmt.Sprintf("ret%d(%s)", x.Index, f.Name())}
			}
		}
	case *ssa.Call:
		if b, ok := x.Call.Value.(*ssa.Builtin); ok && b.Name() == "append" {
			out := prov(x.Call.Args[0], d+1, seen)
			if len(x.Call.Args) > 1 {
				out = append(out, prov(x.Call.Args[1], d+1, seen)...)
			}
			return out
		}
		if a := world.Accessor(x.Call.Value); a != "" && len(x.Call.Args) > 1 {
			var out []string
			for _, b := range prov(x.Call.Args[1], d+1, seen) {
				out = append(out, "result("+a+" "+b+")")
			}
			return out
		}
		if f := x.Call.StaticCallee(); f != nil {
			return []string{"call(" + f.Name() + ")"}
		}
	case *ssa.Lookup:
		return []string{"lookup"}
	case *ssa.Parameter:
		return []string{"param:" + x.Name()}
	case *ssa.MakeSlice:
		return nil
	case *ssa.MakeMap:
		return nil
	}
	return []string{fmt.Sprintf("<%T>", v)}
}

func uniqProv(s []string) []string {
	m := map[string]bool{}
	for _, x := range s {
		x = strings.ReplaceAll(x, "[?]", "[*]")
		m[x] = true
	}
	var o []string
	for k := range m {
		o = append(o, k)
	}
	sort.Strings(o)
	return o
}

// keyFuncSummary: per field, the provenance of what the key function returns (relative to its parameter).
func keyFuncSummary(fn *ssa.Function) map[string][]string {
	sum := map[string][]string{}
	for _, b := range fn.Blocks {
		for _, in := range b.Instrs {
			st, ok := in.(*ssa.Store)
			if !ok {
				continue
			}
			fa, ok := st.Addr.(*ssa.FieldAddr)
			if !ok || !isKeyResType(fa.X.Type()) {
				continue
			}
			sum[world.FieldName(fa)] = append(sum[world.FieldName(fa)], prov(st.Val, 0, map[ssa.Value]bool{})...)
		}
	}
	for k := range sum {
		sum[k] = uniqProv(sum[k])
	}
	return sum
}

func sumString(s map[string][]string) string {
	return fmt.Sprintf("R=%v W=%v C=%v", s["ReadKeys"], s["WriteKeys"], s["Channels"])
}

// k1Exceptions: handlers whose keys are parsed by a helper with symbolic bounds; reviewed by reading
// (DESIGN.md section 5, C06) — the helper and the key function compute the same token range.
var k1Exceptions = map[string]string{
	"internal/modules/sorted_set.handleZUNION":      "keys from extractKeysWeightsAggregateWithScores(cmd) = cmd[1:firstModifier]; zunionKeyFunc returns the same range",
	"internal/modules/sorted_set.handleZUNIONSTORE": "keys from extractKeysWeightsAggregateWithScores(cmd minus destination); zunionstoreKeyFunc returns cmd[2:firstModifier]",
	"internal/modules/sorted_set.handleZINTER":      "as ZUNION",
	"internal/modules/sorted_set.handleZINTERSTORE": "as ZUNIONSTORE",
	"internal/modules/generic.handleMSet":           "writes every other token cmd[1], cmd[3], ...; msetKeyFunc returns exactly those tokens",
}

func ruleK1(w *world.World, r *report.RuleResult) {
	cmds, err := w.Commands()
	if err != nil {
		r.Err = err
		return
	}
	hs, names := handlersOf(cmds, nil)
	// table key function per handler (first entry using it)
	tableKF := map[*ssa.Function]*ssa.Function{}
	for _, c := range world.Leaves(cmds) {
		if c.Handler != nil && c.KeyFunc != nil && tableKF[c.Handler] == nil {
			tableKF[c.Handler] = c.KeyFunc
		}
	}
	seenSite := map[ssa.Instruction]bool{}
	for _, h := range hs {
		reach := w.ReachFrom(h, false)
		var accs []string
		for a := range reach.Accessors {
			accs = append(accs, a)
		}
		sort.Strings(accs)
		for _, a := range accs {
			for _, c := range reach.Accessors[a] {
				if seenSite[c] {
					continue
				}
				var ps []string
				args := c.Common().Args
				switch a {
				case "KeysExist", "GetValues", "GetExpiry", "SetExpiry", "DeleteKey":
					if len(args) < 2 {
						continue
					}
					ps = prov(args[1], 0, map[ssa.Value]bool{})
				case "SetValues":
					if len(args) < 2 {
						continue
					}
					m := args[1]
					if refs := m.Referrers(); refs != nil {
						for _, ref := range *refs {
							if mu, ok := ref.(*ssa.MapUpdate); ok && mu.Map == m {
								ps = append(ps, prov(mu.Key, 0, map[ssa.Value]bool{})...)
							}
						}
					}
				default:
					continue
				}
				seenSite[c] = true
				ps = uniqProv(ps)
				mut := world.Mutators[a]
				key := fmt.Sprintf("%s|%s(%s)", world.FuncName(c.Parent()), a, strings.Join(ps, ","))
				pos := w.InstrPos(c)
				var bad []string
				for _, p := range ps {
					switch {
					case strings.HasPrefix(p, "keys.WriteKeys"):
					case strings.HasPrefix(p, "keys.ReadKeys"):
						if mut {
							bad = append(bad, p+" (a key the command only declares as read is written)")
						}
					case strings.HasPrefix(p, "key-of(result(KeysExist keys."), strings.HasPrefix(p, "key-of(result(GetValues keys."):
					case strings.HasPrefix(p, "Cmd"):
						// command token: must be covered by the table key function
						if !cmdCovered(p, tableKF[h], mut) {
							bad = append(bad, p+" (a command token the registered key function does not return"+map[bool]string{true: " as a write key", false: ""}[mut]+")")
						}
					default:
						bad = append(bad, p)
					}
				}
				switch {
				case len(bad) == 0:
					r.OK(key, pos, "keys come from the key-extraction result (or are command tokens the key function returns)")
				case k1Exceptions[world.FuncName(h)] != "":
					r.Skip(key, pos, "reviewed exception: "+k1Exceptions[world.FuncName(h)])
				default:
					r.Fail(key, pos, fmt.Sprintf("%s (%s) passes to %s a key that is not what its key-extraction function reports to the ACL layer: %s — the authorization decision is taken on other keys than the ones the command touches", world.FuncName(h), strings.ToUpper(strings.Join(names[h], "/")), a, strings.Join(bad, "; ")))
				}
			}
		}
	}
}

// cmdCovered: command-token provenance p ("Cmd[2]", "Cmd[1:]") is within what the key function returns.
func cmdCovered(p string, kf *ssa.Function, needWrite bool) bool {
	if kf == nil {
		return false
	}
	sum := keyFuncSummary(kf)
	var have []string
	have = append(have, sum["WriteKeys"]...)
	if !needWrite {
		have = append(have, sum["ReadKeys"]...)
	}
	tok := strings.TrimPrefix(p, "Cmd")
	for _, h := range have {
		ht := strings.TrimPrefix(h, "param:cmd")
		if !strings.HasPrefix(h, "param:") {
			continue
		}
		if i := strings.Index(h, "["); i >= 0 {
			ht = h[i:]
		} else {
			ht = ""
		}
		if ht == tok {
			return true
		}
		// index within a slice range [a:b]
		var idx, lo, hi int
		if n, _ := fmt.Sscanf(tok, "[%d]", &idx); n == 1 {
			if n2, _ := fmt.Sscanf(ht, "[%d:%d]", &lo, &hi); n2 == 2 && idx >= lo && idx < hi {
				return true
			}
			if strings.HasSuffix(ht, ":]") {
				if n3, _ := fmt.Sscanf(ht, "[%d:]", &lo); n3 == 1 && idx >= lo {
					return true
				}
			}
		}
		// slice within slice
		var lo2 int
		if strings.HasSuffix(tok, ":]") && strings.HasSuffix(ht, ":]") {
			if n1, _ := fmt.Sscanf(tok, "[%d:]", &lo2); n1 == 1 {
				if n2, _ := fmt.Sscanf(ht, "[%d:]", &lo); n2 == 1 && lo2 >= lo {
					return true
				}
			}
		}
	}
	return false
}

func ruleT6(w *world.World, r *report.RuleResult) {
	cmds, err := w.Commands()
	if err != nil {
		r.Err = err
		return
	}
	isKeyFunc := func(f *ssa.Function) bool {
		sig := f.Signature
		return sig.Params().Len() == 1 && sig.Results().Len() == 2 && isKeyResType(sig.Results().At(0).Type())
	}
	for _, c := range world.Leaves(cmds) {
		if c.Handler == nil || c.KeyFunc == nil {
			continue
		}
		key := "entry:" + c.Name
		// key functions called (statically) by the handler or its helpers
		called := map[*ssa.Function]bool{}
		for _, fn := range w.ReachFrom(c.Handler, false).Fns {
			for _, cc := range world.Calls(fn) {
				if f := cc.Common().StaticCallee(); f != nil && world.InModule(f) && isKeyFunc(f) {
					called[f] = true
				}
			}
		}
		ar, _, _ := arityOf(w)
		full := func(f *ssa.Function) string {
			s := sumString(keyFuncSummary(f))
			if ar != nil {
				if m, ok := ar.KeySummary(f); ok {
					s += " accepts-len=" + arity.MaskString(m)
				}
			}
			return s
		}
		tsum := keyFuncSummary(c.KeyFunc)
		if len(called) == 0 {
			r.OK(key, w.Pos(c.Pos), "handler calls no key function of its own (keys decided by K1 / no keys); table: "+sumString(tsum))
			continue
		}
		if called[c.KeyFunc] {
			r.OK(key, w.Pos(c.Pos), "handler calls the registered key function "+c.KeyFunc.Name())
			continue
		}
		okAny := false
		var others []string
		for f := range called {
			others = append(others, f.Name()+" "+full(f))
			// the keys must agree; the accepted lengths may differ (a stricter handler or a stricter
			// table function only rejects more commands, it never authorizes other keys)
			if sumString(keyFuncSummary(f)) == sumString(tsum) {
				okAny = true
			}
		}
		sort.Strings(others)
		if okAny {
			r.OK(key, w.Pos(c.Pos), fmt.Sprintf("handler calls %s, whose summary equals the registered %s: %s", strings.Join(others, "; "), c.KeyFunc.Name(), sumString(tsum)))
		} else {
			r.Fail(key, w.Pos(c.Pos), fmt.Sprintf("the table registers key function %s (%s) for %s, but the handler extracts its keys with %s: the ACL layer authorizes one set of keys and the handler touches another", world.FuncName(c.KeyFunc), full(c.KeyFunc), strings.ToUpper(c.Name), strings.Join(others, "; ")))
		}
	}
}
