package rules

import (
	"fmt"
	"go/types"
	"strings"

	"golang.org/x/tools/go/ssa"

	"svcheck/internal/report"
	"svcheck/internal/world"
)

func init() {
	register("N5", 3, "database agreement along a data flow: when a function of the server takes a value (a key) out of a per-database structure (store, volatile-key index, LFU/LRU caches) indexed by database d and passes it to a keyspace function that takes its database from a context c, then c carries d — c binds \"Database\" to d, or d was read from c; when both are parameters the relation is established at every call site", ruleN5)
}

// ctxRoot strips the WithValue chain of a context value; binds reports the values bound to key on the way.
func ctxRoot(c ssa.Value, key string) (root ssa.Value, bound []ssa.Value) {
	for i := 0; i < 20; i++ {
		c = world.Unwrap(c)
		call, ok := c.(*ssa.Call)
		if !ok {
			break
		}
		f := call.Call.StaticCallee()
		if f == nil || f.String() != "context.WithValue" {
			break
		}
		if k, ok := world.ConstString(world.Unwrap(call.Call.Args[1])); ok && k == key {
			bound = append(bound, world.Unwrap(call.Call.Args[2]))
			return nil, bound
		}
		c = call.Call.Args[0]
	}
	return c, bound
}

func sameDB(a, b ssa.Value) bool {
	if world.SameExpr(a, b) {
		return true
	}
	return derivesFromNoArith(a, func(v ssa.Value) bool { return v == b }) || derivesFromNoArith(b, func(v ssa.Value) bool { return v == a })
}

// dbAgree: does context c carry database d? (+1 yes, -1 no, 0 both are opaque to this function)
func dbAgree(w *world.World, fn *ssa.Function, c, d ssa.Value, depth int) (int, string) {
	root, bound := ctxRoot(c, "Database")
	if len(bound) > 0 {
		for _, v := range bound {
			if !sameDB(v, d) {
				return -1, "the context binds \"Database\" to " + exprString(v)
			}
		}
		return +1, "the context binds \"Database\" to the same value"
	}
	// d read from a context
	var dctx ssa.Value
	if derivesFromNoArith(d, func(v ssa.Value) bool {
		if cc, ok := isCtxValueRead(v, "Database"); ok {
			dctx = cc
			return true
		}
		return false
	}) {
		r2, b2 := ctxRoot(dctx, "Database")
		if len(b2) == 0 && r2 == root {
			return +1, "the index was read from the same context"
		}
		if dctx == c {
			return +1, "the index was read from the same context"
		}
		return -1, "the index was read from another context"
	}
	// both opaque: parameters related by the callers
	dp, dIsParam := paramOf(d)
	cp, cIsParam := root.(*ssa.Parameter)
	if dIsParam && cIsParam && depth < 2 {
		var di, ci = -1, -1
		for i, p := range fn.Params {
			if p == dp {
				di = i
			}
			if p == cp {
				ci = i
			}
		}
		sites := 0
		for _, cf := range w.ModFns {
			for _, call := range world.Calls(cf) {
				if call.Common().StaticCallee() != fn || di < 0 || ci < 0 || len(call.Common().Args) <= di || len(call.Common().Args) <= ci {
					continue
				}
				sites++
				if v, why := dbAgree(w, cf, call.Common().Args[ci], call.Common().Args[di], depth+1); v < 0 {
					return -1, fmt.Sprintf("at the call site %s %s", w.InstrPos(call), why)
				} else if v == 0 {
					return 0, ""
				}
			}
		}
		if sites > 0 {
			return +1, "every call site passes a context that carries the database argument"
		}
		return 0, ""
	}
	if _, isConst := d.(*ssa.Const); isConst {
		return -1, "the index is a constant"
	}
	return -1, "the index " + exprString(d) + " is unrelated to the context passed on"
}

func paramOf(v ssa.Value) (*ssa.Parameter, bool) {
	var p *ssa.Parameter
	ok := derivesFromNoArith(v, func(x ssa.Value) bool {
		if pp, isP := x.(*ssa.Parameter); isP {
			p = pp
			return true
		}
		return false
	})
	return p, ok && p != nil
}

func ruleN5(w *world.World, r *report.RuleResult) {
	// functions that take their database from their context parameter
	readsDB := map[*ssa.Function]int{} // -> index of the context parameter
	for _, fn := range w.FuncsIn("sugardb") {
		for _, b := range fn.Blocks {
			for _, in := range b.Instrs {
				v, ok := in.(ssa.Value)
				if !ok {
					continue
				}
				if c, ok := isCtxValueRead(v, "Database"); ok {
					root, bound := ctxRoot(c, "Database")
					if len(bound) > 0 {
						continue
					}
					for i, p := range fn.Params {
						if ssa.Value(p) == root {
							readsDB[fn] = i
						}
					}
				}
			}
		}
	}
	for _, fn := range w.FuncsIn("sugardb") {
		if strings.Contains(w.Pos(fn.Pos()), "_test.go") {
			continue
		}
		n := 0
		for _, c := range world.Calls(fn) {
			g := c.Common().StaticCallee()
			if g == nil {
				continue
			}
			ci, ok := readsDB[g]
			if !ok || ci >= len(c.Common().Args) {
				continue
			}
			if _, isCtx := c.Common().Args[ci].Type().Underlying().(*types.Interface); !isCtx {
				continue
			}
			// databases of the per-database structures the other arguments were taken from
			var idxs []ssa.Value
			var idxAt []ssa.Instruction
			for ai, a := range c.Common().Args {
				if ai == ci {
					continue
				}
				derivesFrom(a, func(v ssa.Value) bool {
					lk, ok := v.(*ssa.Lookup)
					if !ok || !isPerDBOuter(lk.X) {
						return false
					}
					dup := false
					for _, o := range idxs {
						dup = dup || sameDB(o, lk.Index)
					}
					if !dup {
						idxs = append(idxs, lk.Index)
						idxAt = append(idxAt, lk)
					}
					return false // keep walking: collect every source
				}, 0)
			}
			for k, d := range idxs {
				n++
				key := fmt.Sprintf("%s|%s-argument-from-database#%d", world.FuncName(fn), g.Name(), n)
				v, why := dbAgree(w, fn, c.Common().Args[ci], d, 0)
				switch {
				case v > 0:
					r.OK(key, w.InstrPos(c), "the argument was taken from a per-database structure indexed by the database the context carries ("+why+")")
				case v == 0:
					r.Skip(key, w.InstrPos(c), "index and context are both supplied by callers outside the module")
				default:
					r.Fail(key, w.InstrPos(c), fmt.Sprintf("%s takes a value out of a per-database structure indexed by %s (at %s) and passes it to %s, which takes its database from the context it is given, with a context that does not carry that database (%s): the two act on different logical databases — e.g. the eviction victim is chosen from one database's cache and deleted (or not found) in another database", world.FuncName(fn), exprString(d), w.InstrPos(idxAt[k]), g.Name(), why))
				}
			}
		}
	}
}
