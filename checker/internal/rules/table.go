package rules

import (
	"fmt"
	"go/token"
	"strings"

	"golang.org/x/tools/go/ssa"

	"svcheck/internal/report"
	"svcheck/internal/world"
)

func init() {
	register("T0", 130, "command table anchor: the static internal.Command/SubCommand literals are found and every one resolves name, categories, Sync, handler and key function", ruleT0)
	register("T1", 100, "complete dispatch: the HandlerFunc the dispatcher invokes is non-nil for every registered entry, or the dispatcher tests it for nil before the call", ruleT1)
	register("T2", 100, "effects agree with classification: a handler that can reach a keyspace mutator (or writes in place to a stored object) is write-classified (so it is logged to the AOF) and Sync (so it is replicated)", ruleT2)
	register("T3", 40, "read-only set: entries with the read category and without the write category resolve to handlers", ruleT3)
}

func ruleT0(w *world.World, r *report.RuleResult) {
	cmds, err := w.Commands()
	if err != nil {
		r.Err = err
		return
	}
	for _, c := range cmds {
		key := "entry:" + c.Name
		var miss []string
		if len(c.Categories) == 0 && len(c.Subs) == 0 {
			miss = append(miss, "categories")
		}
		for _, cat := range c.Categories {
			if strings.HasPrefix(cat, "?") {
				miss = append(miss, "non-constant category "+cat[1:])
			}
		}
		if c.KeyFunc == nil && len(c.Subs) == 0 {
			miss = append(miss, "KeyExtractionFunc")
		}
		if c.Handler == nil && len(c.Subs) == 0 {
			miss = append(miss, "HandlerFunc")
		}
		if len(miss) > 0 {
			r.Und(key, w.Pos(c.Pos), "table entry fields not resolvable: "+strings.Join(miss, ", "))
		} else {
			r.OK(key, w.Pos(c.Pos), fmt.Sprintf("categories=%v sync=%v handler=%s", c.Categories, c.Sync, world.FuncName(c.Handler)))
		}
	}
}

func ruleT1(w *world.World, r *report.RuleResult) {
	cmds, err := w.Commands()
	if err != nil {
		r.Err = err
		return
	}
	disp, hcalls, err := w.Dispatcher()
	if err != nil {
		r.Err = err
		return
	}
	// Does the dispatcher test the invoked value for nil on every path to the call?
	guarded := true
	const NN world.Facts = 1
	for _, hc := range hcalls {
		hv := hc.Common().Value
		in := world.Must(disp, func(b *ssa.BasicBlock, si int) world.Facts {
			iff := world.IfOf(b)
			if iff == nil {
				return 0
			}
			x, eq, ok := world.NilTest(world.CondValue(iff))
			if !ok || !sameOrPhiOf(x, hv) {
				return 0
			}
			// fact on the non-nil edge
			if (eq && si == 1) || (!eq && si == 0) {
				return NN
			}
			return 0
		}, nil, nil)
		if world.FactsAt(in, hc, nil, nil)&NN == 0 {
			guarded = false
		}
	}
	for _, c := range cmds {
		key := "entry:" + c.Name
		pos := w.Pos(c.Pos)
		switch {
		case c.Handler != nil:
			r.OK(key, pos, "entry has a handler")
		case guarded:
			r.OK(key, pos, "no handler, but the dispatcher tests the handler for nil before invoking it")
		case len(c.Subs) > 0:
			r.Fail(key, pos, fmt.Sprintf("command %q has sub-commands and no HandlerFunc, and the dispatcher (%s) invokes the handler without a nil test: the bare command (no sub-command token) calls a nil func and crashes the process", strings.ToUpper(c.Name), world.FuncName(disp)))
		default:
			r.Fail(key, pos, fmt.Sprintf("command %q has no HandlerFunc and the dispatcher invokes it without a nil test", strings.ToUpper(c.Name)))
		}
	}
}

// sameOrPhiOf: x is v, or both are loads of the same local, or v is a phi one of whose edges is x... (conservative).
func sameOrPhiOf(x, v ssa.Value) bool {
	x, v = world.Forward(x), world.Forward(v)
	if x == v {
		return true
	}
	ux, ok1 := x.(*ssa.UnOp)
	uv, ok2 := v.(*ssa.UnOp)
	if ok1 && ok2 && ux.Op == token.MUL && uv.Op == token.MUL && ux.X == uv.X {
		return true
	}
	return false
}

// handlerMutators returns the mutator accessor fields reachable from handler h.
func handlerMutators(w *world.World, h *ssa.Function) (muts []string, reach *world.Reach) {
	reach = w.ReachFrom(h, false)
	for _, a := range reach.AccessorNames() {
		if world.Mutators[a] {
			muts = append(muts, a)
		}
	}
	return
}

func ruleT2(w *world.World, r *report.RuleResult) {
	cmds, err := w.Commands()
	if err != nil {
		r.Err = err
		return
	}
	for _, c := range world.Leaves(cmds) {
		if c.Handler == nil {
			continue
		}
		key := "entry:" + c.Name
		pos := w.Pos(c.Pos)
		muts, _ := handlerMutators(w, c.Handler)
		inplace := inPlaceWriteEvents(w, c.Handler)
		write := c.IsWrite() || (c.Parent != nil && c.Parent.IsWrite())
		switch {
		case (len(muts) > 0 || len(inplace) > 0) && !write:
			what := strings.Join(muts, ",")
			if what == "" {
				what = "in-place write to a stored object (" + inplace[0] + ")"
			}
			r.Fail(key, pos, fmt.Sprintf("handler %s can reach keyspace mutator(s) %s but the entry is not in the write category: its effects are never logged to the AOF", world.FuncName(c.Handler), what))
		case (len(muts) > 0 || len(inplace) > 0) && !c.Sync:
			r.Fail(key, pos, fmt.Sprintf("handler %s mutates the keyspace (%s) but the entry has Sync:false: in a cluster it is applied on one node only", world.FuncName(c.Handler), strings.Join(append(muts, inplace...), ",")))
		default:
			r.OK(key, pos, fmt.Sprintf("write=%v sync=%v mutators=%v inplace=%d", write, c.Sync, muts, len(inplace)))
		}
	}
}

// inPlaceWriteEvents is filled in by the taint analysis (taint.go); it lists write events
// on store-derived objects reachable from the handler.
var inPlaceWriteEvents = func(w *world.World, h *ssa.Function) []string { return nil }

func ruleT3(w *world.World, r *report.RuleResult) {
	cmds, err := w.Commands()
	if err != nil {
		r.Err = err
		return
	}
	for _, c := range world.Leaves(cmds) {
		if !c.IsReadOnly() {
			continue
		}
		key := "entry:" + c.Name
		if c.Handler == nil {
			r.Und(key, w.Pos(c.Pos), "read-only entry without resolvable handler")
			continue
		}
		r.OK(key, w.Pos(c.Pos), "read-only entry, handler "+world.FuncName(c.Handler))
	}
}
