package rules

import (
	"os"
	"fmt"
	"go/constant"
	"go/token"
	"go/types"
	"strings"

	"golang.org/x/tools/go/ssa"

	"svcheck/internal/report"
	"svcheck/internal/world"
)

func init() {
	register("D3", 3, "sync under 'always': in the AOF writer every path from a successful write of the command bytes to a nil-error return passes a successful Sync of the log handle or the edge on which the strategy is not \"always\"; a database switch is logged before the command", ruleD3)
	register("D5", 3, "rewrite order: the log is truncated only after, and only if, the preamble was created successfully, inside one critical section of the engine's mutex; the preamble is synced before CreatePreamble reports success", ruleD5)
	register("D7", 2, "restore order: the preamble is restored before the log and the log only if the preamble restore succeeded", ruleD7)
	register("D6", 6, "snapshot typestate: the manifest at its final path is replaced only after the new state file is durably written (write, sync succeeded), by an atomic rename of a written+synced+closed temporary; failed or no-op attempts leave manifest and last-save time untouched; writer and reader agree on paths", ruleD6)
}

// onField: v is a load of struct field `name` (through FieldAddr).
func loadOfField(v ssa.Value, name string) bool {
	u, ok := v.(*ssa.UnOp)
	if !ok || u.Op != token.MUL {
		return false
	}
	fa, ok := u.X.(*ssa.FieldAddr)
	return ok && world.FieldName(fa) == name
}

// loadOfStringField: v is a load of a string-typed struct field (the configured sync strategy is
// recognised by its comparison with "always", not by the field's name).
func loadOfStringField(v ssa.Value) bool {
	if _, ok := loadOfAnyField(v); !ok {
		return false
	}
	b, ok := v.Type().Underlying().(*types.Basic)
	return ok && b.Kind() == types.String
}

// loadOfFieldType: v is a load of a struct field whose type is the named type.
func loadOfAnyField(v ssa.Value) (string, bool) {
	u, ok := v.(*ssa.UnOp)
	if !ok || u.Op != token.MUL {
		return "", false
	}
	fa, ok := u.X.(*ssa.FieldAddr)
	if !ok {
		return "", false
	}
	return world.FieldName(fa), true
}

// invokeOn: c is an interface method call `recv.method(...)`.
func invokeName(c ssa.CallInstruction) string {
	if c.Common().IsInvoke() {
		return c.Common().Method.Name()
	}
	return ""
}

// onStoreHandle: the interface method is invoked on a value loaded from a field of the method's
// receiver (the store's file handle), not on some other writer.
func onStoreHandle(call *ssa.Call) bool {
	u, ok := call.Call.Value.(*ssa.UnOp)
	if !ok || u.Op != token.MUL {
		return false
	}
	fa, ok := u.X.(*ssa.FieldAddr)
	if !ok {
		return false
	}
	fn := call.Parent()
	return fn != nil && len(fn.Params) > 0 && fa.X == ssa.Value(fn.Params[0])
}

// mustCallSummary: does fn call (on every path to a nil-error return) something accepted by pred?
// Used so that a helper wrapping the Sync still counts (inlining bound 3).
func mustReach(w *world.World, fn *ssa.Function, pred func(c ssa.CallInstruction) bool, depth int) bool {
	if fn == nil || fn.Blocks == nil || depth > 3 {
		return false
	}
	const F world.Facts = 1
	gen := func(in ssa.Instruction) world.Facts {
		c, ok := in.(*ssa.Call)
		if !ok {
			return 0
		}
		if pred(c) {
			return F
		}
		if f := c.Call.StaticCallee(); f != nil && world.InModule(f) && mustReach(w, f, pred, depth+1) {
			return F
		}
		return 0
	}
	in := world.Must(fn, nil, gen, nil)
	n := 0
	for _, ret := range world.Returns(fn) {
		rv := world.RetVals(ret)
		// only success returns matter (last result error == nil), or all returns for no-error funcs
		if len(rv) > 0 && world.IsErrorType(rv[len(rv)-1].Type()) && !world.IsNilConst(rv[len(rv)-1]) {
			// returns the callee's own error (e.g. `return rw.Sync()`): the event happened if pred call is that value
			if c, ok := rv[len(rv)-1].(*ssa.Call); ok && (pred(c)) {
				n++
				continue
			}
			if world.FactsAt(in, ret, gen, nil)&F != 0 {
				n++
				continue
			}
			// error-returning path without the event is fine only if it is a failure path; we cannot
			// tell nil from non-nil for a variable: require the event
			if _, isConst := rv[len(rv)-1].(*ssa.Const); !isConst {
				if _, isCall := rv[len(rv)-1].(*ssa.Call); !isCall {
					// variable error: treat as failure path only when it is tested non-nil before (skip)
					continue
				}
			}
			continue
		}
		if world.FactsAt(in, ret, gen, nil)&F == 0 {
			if guardedByNilHandle(ret) {
				continue // "no handle configured" no-op exit
			}
			return false
		}
		n++
	}
	return n > 0
}

func ruleD3(w *world.World, r *report.RuleResult) {
	wr := w.Func("internal/aof/log.(*Store).Write")
	if wr == nil {
		r.Err = fmt.Errorf("AOF writer internal/aof/log.(*Store).Write not found")
		return
	}
	fname := world.FuncName(wr)
	// parameters by type: database int, command []byte
	var cmdParam, dbParam *ssa.Parameter
	for _, p := range wr.Params[1:] {
		switch t := p.Type().Underlying().(type) {
		case *types.Slice:
			cmdParam = p
		case *types.Basic:
			if t.Kind() == types.Int {
				dbParam = p
			}
		}
	}
	if cmdParam == nil || dbParam == nil {
		r.Err = fmt.Errorf("%s: cannot identify the database and command parameters", fname)
		return
	}
	// the store's record of the database the log is currently in: the int field the writer compares
	// its database parameter with
	dbField := ""
	for _, b := range wr.Blocks {
		for _, in := range b.Instrs {
			if bo, ok := in.(*ssa.BinOp); ok && (bo.Op == token.EQL || bo.Op == token.NEQ) {
				for _, pr := range [][2]ssa.Value{{bo.X, bo.Y}, {bo.Y, bo.X}} {
					if pr[0] == ssa.Value(dbParam) {
						if n, ok := loadOfAnyField(pr[1]); ok {
							dbField = n
						}
					}
				}
			}
		}
	}
	isSync := func(c ssa.CallInstruction) bool { return invokeName(c) == "Sync" }
	var payload *ssa.Call
	var markerWrites, syncCalls []*ssa.Call
	for _, c := range world.Calls(wr) {
		call, ok := c.(*ssa.Call)
		if !ok {
			continue
		}
		if invokeName(call) == "Write" && onStoreHandle(call) {
			if len(call.Call.Args) == 1 && call.Call.Args[0] == ssa.Value(cmdParam) {
				payload = call
			} else {
				markerWrites = append(markerWrites, call)
			}
		}
		if isSync(call) {
			syncCalls = append(syncCalls, call)
		} else if f := call.Call.StaticCallee(); f != nil && world.InModule(f) && mustReach(w, f, isSync, 0) {
			syncCalls = append(syncCalls, call)
		}
	}
	if payload == nil {
		r.Fail(fname+"|payload-write", w.Pos(wr.Pos()), "the AOF writer never writes its command parameter to the log handle")
		return
	}
	r.OK(fname+"|payload-write", w.InstrPos(payload), "command bytes written to the log handle unchanged (the parameter itself)")
	const (
		WROTE world.Facts = 1 << iota
		SAFE              // synced successfully, or strategy != always
		MARK              // SELECT marker written, or database unchanged
	)
	isAlwaysTest := func(cond ssa.Value) (neg bool, ok bool) {
		if u, isU := cond.(*ssa.UnOp); isU && u.Op == token.NOT {
			cond, neg = u.X, true
		}
		switch c := cond.(type) {
		case *ssa.Call:
			f := c.Call.StaticCallee()
			if f == nil || f.String() != "strings.EqualFold" {
				return false, false
			}
			a, b := c.Call.Args[0], c.Call.Args[1]
			sa, oka := world.ConstString(a)
			sb, okb := world.ConstString(b)
			switch {
			case okb && strings.EqualFold(sb, "always") && loadOfStringField(a):
				return neg, true
			case oka && strings.EqualFold(sa, "always") && loadOfStringField(b):
				return neg, true
			}
		case *ssa.BinOp:
			if c.Op == token.EQL || c.Op == token.NEQ {
				sx, okx := world.ConstString(c.X)
				sy, oky := world.ConstString(c.Y)
				if (oky && sy == "always" && loadOfStringField(c.X)) || (okx && sx == "always" && loadOfStringField(c.Y)) {
					return neg != (c.Op == token.NEQ), true
				}
			}
		}
		return false, false
	}
	isDbTest := func(cond ssa.Value) (neqOnTrue bool, ok bool) {
		b, isB := cond.(*ssa.BinOp)
		if !isB || (b.Op != token.EQL && b.Op != token.NEQ) {
			return false, false
		}
		if (b.X == ssa.Value(dbParam) && loadOfField(b.Y, dbField)) || (b.Y == ssa.Value(dbParam) && loadOfField(b.X, dbField)) {
			return b.Op == token.NEQ, true
		}
		return false, false
	}
	eg := func(b *ssa.BasicBlock, si int) world.Facts {
		var f world.Facts
		if world.ErrNilEdge(b, func(v ssa.Value) bool { return v == ssa.Value(payload) }) == si {
			f |= WROTE
		}
		for _, sc := range syncCalls {
			if world.ErrNilEdge(b, func(v ssa.Value) bool { return v == ssa.Value(sc) }) == si {
				f |= SAFE
			}
		}
		for _, mw := range markerWrites {
			if world.ErrNilEdge(b, func(v ssa.Value) bool { return v == ssa.Value(mw) }) == si {
				f |= MARK
			}
		}
		if iff := world.IfOf(b); iff != nil {
			if neg, ok := isAlwaysTest(world.CondValue(iff)); ok {
				// edge where strategy != always
				if (si == 1) != neg {
					f |= SAFE
				}
			}
			if neqOnTrue, ok := isDbTest(world.CondValue(iff)); ok {
				// edge where database == currentDatabase
				if (si == 1) == neqOnTrue {
					f |= MARK
				}
			}
		}
		return f
	}
	in := world.Must(wr, eg, nil, nil)
	n := 0
	for _, ret := range world.Returns(wr) {
		rv := world.RetVals(ret)
		if len(rv) != 1 || !world.IsNilConst(rv[0]) {
			continue
		}
		f := world.FactsAt(in, ret, nil, nil)
		if f&WROTE == 0 {
			// success return without writing: only the "no handle configured" early exit is legitimate
			key := fmt.Sprintf("%s|nil-return-without-write#%d", fname, n+1)
			if guardedByNilHandle(ret) {
				r.OK(key, w.InstrPos(ret), "success without writing only when no log handle is configured (rw == nil)")
			} else {
				r.Fail(key, w.InstrPos(ret), "the AOF writer reports success on a path that did not write the command")
			}
			n++
			continue
		}
		n++
		key := fmt.Sprintf("%s|sync-before-ack#%d", fname, n)
		if f&SAFE != 0 {
			r.OK(key, w.InstrPos(ret), "after the command bytes are written, success is reported only after a successful Sync or when the strategy is not \"always\"")
		} else {
			r.Fail(key, w.InstrPos(ret), "under the \"always\" strategy the writer can report success (the client is acknowledged) without a successful fsync of the log: an acknowledged write can be lost in a crash")
		}
	}
	// marker precedes payload
	fp := world.FactsAt(in, payload, nil, nil)
	if fp&MARK != 0 {
		r.OK(fname+"|select-marker-before-command", w.InstrPos(payload), "the command is written only after the SELECT marker for a changed database was written successfully, or the database is unchanged")
	} else {
		r.Fail(fname+"|select-marker-before-command", w.InstrPos(payload), "the command bytes can be written although the log's current database differs and no SELECT marker was written: replay applies the command to the wrong database")
	}
	// the marker carries the database parameter and currentDatabase is updated to it
	okStore := false
	for _, b := range wr.Blocks {
		for _, ins := range b.Instrs {
			if st, ok := ins.(*ssa.Store); ok {
				if fa, ok := st.Addr.(*ssa.FieldAddr); ok && world.FieldName(fa) == dbField && st.Val == ssa.Value(dbParam) {
					okStore = true
				}
			}
		}
	}
	if okStore {
		r.OK(fname+"|current-database-updated", w.Pos(wr.Pos()), "currentDatabase is set to the database parameter after the marker")
	} else {
		r.Fail(fname+"|current-database-updated", w.Pos(wr.Pos()), "the writer never records the database it switched to: every later command re-emits or omits the SELECT marker wrongly")
	}
	// A new store does not know which database the existing file ends in: the record must start at a
	// value no request can carry, so that the first write of every process is preceded by a marker.
	recvT := wr.Signature.Recv().Type()
	for _, fn := range w.ModFns {
		if world.PkgOf(fn) != world.PkgOf(wr) {
			continue
		}
		for _, b := range fn.Blocks {
			for _, in := range b.Instrs {
				al, ok := in.(*ssa.Alloc)
				if !ok || !types.Identical(al.Type(), recvT) {
					continue
				}
				key := world.FuncName(fn) + "|database-record-starts-unknown"
				var init ssa.Value
				for _, ref := range *al.Referrers() {
					if fa, ok := ref.(*ssa.FieldAddr); ok && world.FieldName(fa) == dbField {
						for _, r2 := range *fa.Referrers() {
							if st, ok := r2.(*ssa.Store); ok && st.Addr == ssa.Value(fa) {
								init = st.Val
							}
						}
					}
				}
				// alternative discipline: the reader records the database the file ends in while replaying
				readerTracks := false
				for _, g := range w.ModFns {
					if g == wr || world.PkgOf(g) != world.PkgOf(wr) || g.Signature.Recv() == nil || !types.Identical(g.Signature.Recv().Type(), recvT) {
						continue
					}
					parses := false
					for _, c := range world.Calls(g) {
						if f := c.Common().StaticCallee(); f != nil && (f.String() == "strconv.Atoi" || f.String() == "strconv.ParseInt") {
							parses = true
						}
					}
					if !parses {
						continue
					}
					for _, gb := range g.Blocks {
						for _, gi := range gb.Instrs {
							if st, ok := gi.(*ssa.Store); ok {
								if fa, ok := st.Addr.(*ssa.FieldAddr); ok && world.FieldName(fa) == dbField {
									if _, isConst := st.Val.(*ssa.Const); !isConst {
										readerTracks = true
									}
								}
							}
						}
					}
				}
				if readerTracks {
					r.OK(key, w.InstrPos(al), "the log reader records the database the file ends in while replaying it")
					continue
				}
				if v, ok := world.ConstInt(init); init != nil && ok && v < 0 {
					r.OK(key, w.InstrPos(al), "a new log store records no current database (negative), so its first write logs a SELECT marker whatever the file already ends in")
				} else {
					r.Fail(key, w.InstrPos(al), fmt.Sprintf("a new log store starts with %s = %s: after a restart the existing file may end in another database, but the first writes to that database are appended without a SELECT marker and the next replay applies them to whatever database the file ended in", dbField, func() string {
						if init == nil {
							return "0 (not initialised)"
						}
						return exprString(init)
					}()))
				}
			}
		}
	}
	// The writer omits the marker while the database equals the recorded one, so the record must
	// describe the file: any other method of the log store that empties the file (Truncate on the
	// handle) must, before it reports success, either write a marker for the recorded database at the
	// top of the new file or reset the record to a value no request can have.
	for _, fn := range w.ModFns {
		if fn == wr || world.PkgOf(fn) != world.PkgOf(wr) || fn.Signature.Recv() == nil || fn.Signature.Recv().Type().String() != wr.Signature.Recv().Type().String() {
			continue
		}
		var trunc *ssa.Call
		for _, c := range world.Calls(fn) {
			// a truncation that empties the log (Truncate(0)); cutting an incomplete final record off
			// (Restore) keeps every complete record and needs no new marker
			if call, ok := c.(*ssa.Call); ok && invokeName(call) == "Truncate" && len(call.Call.Args) == 1 {
				if k, isConst := world.ConstInt(call.Call.Args[0]); isConst && k == 0 {
					trunc = call
				}
			}
		}
		if trunc == nil {
			continue
		}
		const REC world.Facts = 1
		isHeader := func(call *ssa.Call) bool {
			if invokeName(call) != "Write" || len(call.Call.Args) != 1 || !onStoreHandle(call) {
				return false
			}
			return derivesFrom(call.Call.Args[0], func(v ssa.Value) bool { return loadOfField(v, dbField) }, 0)
		}
		eg := func(b *ssa.BasicBlock, si int) world.Facts {
			for _, in := range b.Instrs {
				if call, ok := in.(*ssa.Call); ok && isHeader(call) {
					if world.ErrNilEdge(b, func(v ssa.Value) bool { return v == ssa.Value(call) }) == si {
						return REC
					}
				}
			}
			return 0
		}
		gen := func(in ssa.Instruction) world.Facts {
			if st, ok := in.(*ssa.Store); ok {
				if fa, ok := st.Addr.(*ssa.FieldAddr); ok && world.FieldName(fa) == dbField {
					if v, ok := world.ConstInt(st.Val); ok && v < 0 {
						return REC
					}
				}
			}
			return 0
		}
		must := world.Must(fn, eg, gen, nil)
		// the function exists to empty the log: it reports success only after the handle was truncated
		// successfully (the caller - the rewrite - has just written a preamble that contains everything
		// the log holds; keeping the log as well would replay those commands a second time)
		{
			const TR world.Facts = 2
			egT := func(b *ssa.BasicBlock, si int) world.Facts {
				if world.ErrNilEdge(b, func(v ssa.Value) bool { return v == ssa.Value(trunc) }) == si {
					return TR
				}
				return 0
			}
			mustT := world.Must(fn, egT, nil, nil)
			k := 0
			for _, ret := range world.Returns(fn) {
				rv := world.RetVals(ret)
				if len(rv) != 1 || !world.IsNilConst(rv[0]) || guardedByNilHandle(ret) {
					continue
				}
				k++
				key := fmt.Sprintf("%s|truncate-success-before-ack#%d", world.FuncName(fn), k)
				if world.FactsAt(mustT, ret, nil, nil)&TR != 0 {
					r.OK(key, w.InstrPos(ret), "success is reported only on the success edge of the handle's Truncate")
				} else {
					r.Fail(key, w.InstrPos(ret), fmt.Sprintf("%s can report success without having emptied the log file: after a rewrite the preamble (which already contains the effect of every logged command) is followed by the old log, and the next restore applies those commands a second time - APPEND, INCR, LPUSH and every other non-idempotent write is duplicated", world.FuncName(fn)))
				}
			}
		}
		n := 0
		for _, ret := range world.Returns(fn) {
			rv := world.RetVals(ret)
			if len(rv) != 1 || !world.IsNilConst(rv[0]) || !world.Dominates(trunc, ret) {
				continue
			}
			n++
			key := fmt.Sprintf("%s|truncate-keeps-database-record#%d", world.FuncName(fn), n)
			if world.FactsAt(must, ret, gen, nil)&REC != 0 {
				r.OK(key, w.InstrPos(ret), "after emptying the log the recorded database is re-logged as a SELECT marker (or the record is reset) before success is reported")
			} else {
				r.Fail(key, w.InstrPos(ret), fmt.Sprintf("%s empties the log file and reports success without writing a SELECT marker for the recorded database (%s) or resetting the record: the writer goes on omitting the marker while requests stay in that database, and replay (which starts in database 0) applies every command logged after the rewrite to the wrong database", world.FuncName(fn), dbField))
			}
		}
	}
}

// guardedByNilHandle: the return's block is reached only over the true edge of `X.rw == nil`.
func guardedByNilHandle(ret *ssa.Return) bool {
	b := ret.Block()
	if len(b.Preds) != 1 {
		return false
	}
	p := b.Preds[0]
	iff := world.IfOf(p)
	if iff == nil {
		return false
	}
	x, eq, ok := world.NilTest(world.CondValue(iff))
	if !ok {
		return false
	}
	if name, isF := loadOfAnyField(x); !isF || name != "rw" {
		return false
	}
	si := 1
	if p.Succs[0] == b {
		si = 0
	}
	return (eq && si == 0) || (!eq && si == 1)
}

func staticCalleeName(c ssa.CallInstruction) string {
	if f := c.Common().StaticCallee(); f != nil {
		return world.FuncName(f)
	}
	return ""
}

// orderRule: in fn, `second` only after `first` succeeded.
func orderRule(w *world.World, r *report.RuleResult, fnName, first, second, keyName, okMsg, failMsg string) (fn *ssa.Function, c1, c2 *ssa.Call) {
	fn = w.Func(fnName)
	if fn == nil {
		r.Err = fmt.Errorf("%s not found", fnName)
		return
	}
	for _, c := range world.Calls(fn) {
		call, ok := c.(*ssa.Call)
		if !ok {
			continue
		}
		switch staticCalleeName(call) {
		case first:
			c1 = call
		case second:
			c2 = call
		}
	}
	key := fnName + "|" + keyName
	if c1 == nil || c2 == nil {
		r.Fail(key, w.Pos(fn.Pos()), fmt.Sprintf("%s no longer calls both %s and %s", fnName, first, second))
		return
	}
	const FOK world.Facts = 1
	in := world.Must(fn, func(b *ssa.BasicBlock, si int) world.Facts {
		if world.ErrNilEdge(b, func(v ssa.Value) bool { return v == ssa.Value(c1) }) == si {
			return FOK
		}
		return 0
	}, nil, nil)
	if world.FactsAt(in, c2, nil, nil)&FOK != 0 {
		r.OK(key, w.InstrPos(c2), okMsg)
	} else {
		r.Fail(key, w.InstrPos(c2), failMsg)
	}
	return
}

func ruleD5(w *world.World, r *report.RuleResult) {
	fn, c1, c2 := orderRule(w, r, "internal/aof.(*Engine).RewriteLog",
		"internal/aof/preamble.(*Store).CreatePreamble", "internal/aof/log.(*Store).Truncate", "truncate-after-preamble-success",
		"the log is truncated only on the success edge of CreatePreamble",
		"the append-only log can be truncated before, or although, the preamble (the only other copy of the data) was not written successfully: a failed or crashed rewrite loses the dataset")
	if fn == nil || c1 == nil || c2 == nil {
		return
	}
	fname := world.FuncName(fn)
	// one critical section of engine.mut spanning both calls
	const L world.Facts = 1
	isMut := func(c ssa.CallInstruction, m string) bool {
		f := c.Common().StaticCallee()
		if f == nil || f.String() != "(*sync.Mutex)."+m {
			return false
		}
		fa, ok := c.Common().Args[0].(*ssa.FieldAddr)
		return ok && world.FieldName(fa) == "mut"
	}
	gen := func(in ssa.Instruction) world.Facts {
		if c, ok := in.(*ssa.Call); ok && isMut(c, "Lock") {
			return L
		}
		return 0
	}
	kill := func(in ssa.Instruction) world.Facts {
		if c, ok := in.(*ssa.Call); ok && isMut(c, "Unlock") {
			return L
		}
		return 0
	}
	in := world.Must(fn, nil, gen, kill)
	held := func(x ssa.Instruction) bool { return world.FactsAt(in, x, gen, kill)&L != 0 }
	// no unlock between the two calls: check every instruction on paths c1..c2 — approximated by
	// requiring the lock at both calls and no non-deferred Unlock in the function
	unlocks := 0
	for _, c := range world.Calls(fn) {
		if _, isDefer := c.(*ssa.Defer); !isDefer && isMut(c, "Unlock") {
			unlocks++
		}
	}
	if held(c1) && held(c2) && unlocks == 0 {
		r.OK(fname+"|one-critical-section", w.InstrPos(c1), "engine mutex held from before CreatePreamble until after Truncate (released only by defer)")
	} else {
		r.Fail(fname+"|one-critical-section", w.InstrPos(c1), "CreatePreamble and Truncate do not run inside one critical section of the engine mutex: two concurrent rewrites can interleave (preamble of one, truncation of the other)")
	}
	// CreatePreamble: success only after write+sync succeeded; state filtered; Truncate precedes Write
	cp := w.Func("internal/aof/preamble.(*Store).CreatePreamble")
	if cp == nil {
		r.Err = fmt.Errorf("CreatePreamble not found")
		return
	}
	cpn := world.FuncName(cp)
	var wcall, scall *ssa.Call
	for _, c := range world.Calls(cp) {
		call, ok := c.(*ssa.Call)
		if !ok {
			continue
		}
		switch invokeName(call) {
		case "Write":
			wcall = call
		case "Sync":
			scall = call
		}
	}
	if wcall == nil || scall == nil {
		r.Fail(cpn+"|write-sync-before-success", w.Pos(cp.Pos()), "CreatePreamble no longer writes and syncs the preamble handle")
		return
	}
	const (
		W world.Facts = 1 << iota
		S
	)
	in2 := world.Must(cp, func(b *ssa.BasicBlock, si int) world.Facts {
		var f world.Facts
		if world.ErrNilEdge(b, func(v ssa.Value) bool { return v == ssa.Value(wcall) }) == si {
			f |= W
		}
		if world.ErrNilEdge(b, func(v ssa.Value) bool { return v == ssa.Value(scall) }) == si {
			f |= S
		}
		return f
	}, nil, nil)
	n := 0
	for _, ret := range world.Returns(cp) {
		rv := world.RetVals(ret)
		if len(rv) != 1 {
			continue
		}
		f := world.FactsAt(in2, ret, nil, nil)
		switch {
		case world.IsNilConst(rv[0]):
		case rv[0] == ssa.Value(scall) && scall.Block() == ret.Block():
			// `return rw.Sync()`: success of the function is success of the sync
			f |= S
		case rv[0] == ssa.Value(wcall) && wcall.Block() == ret.Block():
			f |= W
		default:
			continue
		}
		n++
		key := fmt.Sprintf("%s|write-sync-before-success#%d", cpn, n)
		if f&W != 0 && f&S != 0 {
			r.OK(key, w.InstrPos(ret), "CreatePreamble returns nil only after Write and Sync of the preamble both succeeded")
		} else {
			r.Fail(key, w.InstrPos(ret), "CreatePreamble can report success without the preamble having been written and synced successfully; the caller then truncates the log")
		}
	}
	if n == 0 {
		r.Fail(cpn+"|write-sync-before-success", w.Pos(cp.Pos()), "CreatePreamble has no success return")
	}
	// the old preamble is destroyed (Truncate) only after the new content has been produced successfully
	var mcall, tcall *ssa.Call
	for _, c := range world.Calls(cp) {
		call, ok := c.(*ssa.Call)
		if !ok {
			continue
		}
		if f := call.Call.StaticCallee(); f != nil && f.String() == "encoding/json.Marshal" {
			mcall = call
		}
		if invokeName(call) == "Truncate" {
			tcall = call
		}
	}
	if tcall != nil {
		const M world.Facts = 1
		in3 := world.Must(cp, func(b *ssa.BasicBlock, si int) world.Facts {
			if mcall != nil && world.ErrNilEdge(b, func(v ssa.Value) bool { return v == ssa.Value(mcall) }) == si {
				return M
			}
			return 0
		}, nil, nil)
		if mcall != nil && world.FactsAt(in3, tcall, nil, nil)&M != 0 {
			r.OK(cpn+"|truncate-after-content-ready", w.InstrPos(tcall), "the previous preamble is truncated only after the new content was marshalled successfully")
		} else {
			r.Fail(cpn+"|truncate-after-content-ready", w.InstrPos(tcall), "CreatePreamble truncates the existing preamble before the new content has been produced successfully: a rewrite that fails while serialising the state (e.g. a value json cannot encode) has already destroyed the only durable copy of everything compacted earlier")
		}
	}
	// the bytes written are the marshalled state from getStateFunc
	okData := false
	if len(wcall.Call.Args) == 1 {
		if ex, ok := wcall.Call.Args[0].(*ssa.Extract); ok {
			if mc, ok := ex.Tuple.(*ssa.Call); ok {
				if f := mc.Call.StaticCallee(); f != nil && f.String() == "encoding/json.Marshal" {
					okData = valueDerivesFromFieldCall(mc.Call.Args[0], "getStateFunc", 0)
				}
			}
		}
	}
	if okData {
		r.OK(cpn+"|preamble-is-current-state", w.InstrPos(wcall), "the bytes written are json.Marshal of the state returned by getStateFunc")
	} else {
		r.Fail(cpn+"|preamble-is-current-state", w.InstrPos(wcall), "the preamble bytes are not the marshalled result of getStateFunc()")
	}
	// the handle is opened once, without O_APPEND, and kept: Restore (ReadAll) and every earlier
	// CreatePreamble leave its offset at the end of the old content, so the new content must be
	// written from offset 0
	appendMode := false
	for _, fn := range w.FuncsIn("internal/aof/preamble") {
		for _, c := range world.Calls(fn) {
			if f := c.Common().StaticCallee(); f != nil && f.String() == "os.OpenFile" && len(c.Common().Args) == 3 {
				if fl, ok := world.ConstInt(c.Common().Args[1]); ok && fl&int64(os.O_APPEND) != 0 {
					appendMode = true
				}
			}
		}
	}
	if !appendMode {
		const Z world.Facts = 1
		sameHandle := func(c *ssa.Call) bool { return world.SameExpr(c.Call.Value, wcall.Call.Value) }
		genZ := func(in ssa.Instruction) world.Facts {
			c, ok := in.(*ssa.Call)
			if !ok || invokeName(c) != "Seek" || !sameHandle(c) || len(c.Call.Args) != 2 {
				return 0
			}
			off, ok1 := world.ConstInt(c.Call.Args[0])
			wh, ok2 := world.ConstInt(c.Call.Args[1])
			if ok1 && ok2 && off == 0 && wh == 0 {
				return Z
			}
			return 0
		}
		killZ := func(in ssa.Instruction) world.Facts {
			c, ok := in.(*ssa.Call)
			if !ok || !sameHandle(c) {
				return 0
			}
			switch invokeName(c) {
			case "Write", "Read", "WriteString", "ReadFrom", "WriteTo":
				return Z
			case "Seek":
				if genZ(in) == 0 {
					return Z
				}
			}
			return 0
		}
		inZ := world.Must(cp, nil, genZ, killZ)
		if world.FactsAt(inZ, wcall, genZ, killZ)&Z != 0 {
			r.OK(cpn+"|write-from-offset-zero", w.InstrPos(wcall), "the preamble handle is rewound (Seek(0, 0)) on every path before the new content is written")
		} else {
			r.Fail(cpn+"|write-from-offset-zero", w.InstrPos(wcall), "CreatePreamble writes the new preamble without rewinding the long-lived read-write handle on every path: after a restore or an earlier rewrite the offset is at the end of the old content, the new JSON lands behind it (or is cut by the truncation) and the next restore fails to parse the preamble - everything compacted so far is lost")
		}
	}
}

// valueDerivesFromFieldCall: v is (possibly wrapped / passed through module calls) the result of a
// dynamic call through struct field `field`.
func valueDerivesFromFieldCall(v ssa.Value, field string, depth int) bool {
	if depth > 6 {
		return false
	}
	v = world.Unwrap(v)
	switch x := v.(type) {
	case *ssa.Call:
		if n, ok := fieldFuncCall(x); ok && n == field {
			return true
		}
		for _, a := range x.Call.Args {
			if valueDerivesFromFieldCall(a, field, depth+1) {
				return true
			}
		}
	case *ssa.Phi:
		for _, e := range x.Edges {
			if valueDerivesFromFieldCall(e, field, depth+1) {
				return true
			}
		}
	case *ssa.UnOp:
		if a, ok := x.X.(*ssa.Alloc); ok && x.Op == token.MUL {
			for _, ref := range *a.Referrers() {
				if st, ok := ref.(*ssa.Store); ok && st.Addr == a && valueDerivesFromFieldCall(st.Val, field, depth+1) {
					return true
				}
			}
		}
		if fa, ok := x.X.(*ssa.FieldAddr); ok {
			return valueDerivesFromFieldCall(fa.X, field, depth+1)
		}
	case *ssa.Alloc:
		for _, ref := range *x.Referrers() {
			switch y := ref.(type) {
			case *ssa.Store:
				if y.Addr == x && valueDerivesFromFieldCall(y.Val, field, depth+1) {
					return true
				}
			case *ssa.FieldAddr:
				for _, r2 := range *y.Referrers() {
					if st, ok := r2.(*ssa.Store); ok && valueDerivesFromFieldCall(st.Val, field, depth+1) {
						return true
					}
				}
			}
		}
	case *ssa.Extract:
		return valueDerivesFromFieldCall(x.Tuple, field, depth+1)
	}
	return false
}

func ruleD7(w *world.World, r *report.RuleResult) {
	orderRule(w, r, "internal/aof.(*Engine).Restore",
		"internal/aof/preamble.(*Store).Restore", "internal/aof/log.(*Store).Restore", "log-after-preamble-success",
		"the log is replayed only on the success edge of the preamble restore",
		"the log can be replayed before, or although, the preamble restore did not succeed: commands are applied to a dataset that lacks the compacted base")
	// the restored commands reach the replay callback with the database of the last SELECT marker
	rs := w.Func("internal/aof/log.(*Store).Restore")
	if rs == nil {
		r.Err = fmt.Errorf("log.Store.Restore not found")
		return
	}
	key := world.FuncName(rs) + "|replay-database-from-marker"
	var hc *ssa.Call
	for _, c := range world.Calls(rs) {
		// the replay callback: a call through a func-typed field taking (database int, record []byte)
		if _, ok := fieldFuncCall(c); ok && len(c.Common().Args) == 2 {
			if b, isB := c.Common().Args[0].Type().Underlying().(*types.Basic); isB && b.Kind() == types.Int {
				hc, _ = c.(*ssa.Call)
			}
		}
	}
	if hc == nil {
		r.Fail(key, w.Pos(rs.Pos()), "the log restore never invokes the replay callback")
		return
	}
	// database argument: phi/alloc fed by a strconv parse of a token of the decoded record and the initial constant
	fed := false
	var parse *ssa.Call
	seen := map[ssa.Value]bool{}
	var walk func(v ssa.Value)
	walk = func(v ssa.Value) {
		if v == nil || seen[v] {
			return
		}
		seen[v] = true
		switch x := v.(type) {
		case *ssa.Phi:
			for _, e := range x.Edges {
				walk(e)
			}
		case *ssa.Extract:
			if c, ok := x.Tuple.(*ssa.Call); ok {
				if f := c.Call.StaticCallee(); f != nil {
					switch f.String() {
					case "strconv.Atoi", "strconv.ParseInt", "strconv.ParseUint":
						fed, parse = true, c
					}
				}
			}
		case *ssa.Convert:
			walk(x.X)
		case *ssa.UnOp:
			if a, ok := x.X.(*ssa.Alloc); ok {
				for _, ref := range *a.Referrers() {
					if st, ok := ref.(*ssa.Store); ok && st.Addr == a {
						walk(st.Val)
					}
				}
			}
		}
	}
	walk(hc.Call.Args[0])
	if fed {
		r.OK(key, w.InstrPos(hc), "replay callback receives the database parsed from the most recent SELECT marker")
	} else {
		r.Fail(key, w.InstrPos(hc), "the database passed to the replay callback is not derived from the SELECT marker in the log: every command is replayed into one database")
	}
	// writer/reader agreement on the marker's number: the log store formats its record of the current
	// database (an int, -1 until the first write) in decimal; the reader must parse every such value
	if parse != nil {
		key := world.FuncName(rs) + "|marker-parse-accepts-writer-values"
		f := parse.Call.StaticCallee().String()
		bad := ""
		switch f {
		case "strconv.ParseUint":
			bad = "strconv.ParseUint rejects negative numbers"
		case "strconv.ParseInt":
			if b, ok := world.ConstInt(parse.Call.Args[1]); !ok || b != 10 {
				bad = "base is not 10"
			}
			if bs, ok := world.ConstInt(parse.Call.Args[2]); !ok || (bs != 0 && bs != 64) {
				bad = "bit size is narrower than int"
			}
		}
		if bad == "" {
			r.OK(key, w.InstrPos(parse), "the marker is parsed as a signed decimal int (the inverse of the writer's strconv.Itoa of its int record)")
		} else {
			r.Fail(key, w.InstrPos(parse), "the SELECT marker is parsed with "+f+" ("+bad+") although the writer formats a signed int that is -1 until the first write of the process (the header written by a rewrite on a fresh log is SELECT -1): replay stops at such a marker with an error and every command after it is lost")
		}
	}
	// an incomplete final record (the process died while appending) is removed from the file: the log
	// is append-only, so whatever the restore leaves at the end is in front of every later record
	{
		key := world.FuncName(rs) + "|restore-trims-incomplete-tail"
		var rd *ssa.Call
		for _, c := range world.Calls(rs) {
			if call, ok := c.(*ssa.Call); ok {
				if f := call.Call.StaticCallee(); f != nil && f.Name() == "ReadValue" && strings.Contains(f.String(), "resp") {
					rd = call
				}
			}
		}
		if rd == nil {
			r.Fail(key, w.Pos(rs.Pos()), "the log restore no longer reads RESP values from the file (reader not recognised)")
			return
		}
		isN := func(v ssa.Value) bool {
			ex, ok := v.(*ssa.Extract)
			return ok && ex.Tuple == ssa.Value(rd) && ex.Index == 1
		}
		isErr := func(v ssa.Value) bool {
			ex, ok := v.(*ssa.Extract)
			return ok && ex.Tuple == ssa.Value(rd) && ex.Index == 2
		}
		var trim *ssa.Call
		for _, c := range world.Calls(rs) {
			call, ok := c.(*ssa.Call)
			if !ok || invokeName(call) != "Truncate" || len(call.Call.Args) != 1 {
				continue
			}
			if _, isConst := call.Call.Args[0].(*ssa.Const); isConst {
				continue
			}
			if !derivesFrom(call.Call.Args[0], isN, 0) {
				continue
			}
			// reached only through a test of the read error
			for d := call.Block(); d != nil; d = d.Idom() {
				if iff := world.IfOf(d); iff != nil && d != call.Block() && derivesFrom(world.CondValue(iff), isErr, 0) {
					trim = call
					break
				}
			}
		}
		if trim != nil {
			r.OK(key, w.InstrPos(trim), "on a read error the file is cut back to the length of the complete records that were read")
		} else {
			r.Fail(key, w.InstrPos(rd), "when the last record of the log is incomplete the restore stops and leaves the fragment in the file: the file is append-only, every write acknowledged after the recovery lands behind the fragment, and at the next start the fragment and the record after it are read as one value - the restore fails (or indexes into an empty command) and all those writes are lost")
		}
	}
}

// ---------------- D6 ----------------

// constStrings collects string constants reachable backwards through call arguments
// (path.Join, fmt.Sprintf), varargs arrays, phis and local variables.
// constParamBind maps a helper's parameter to the arguments passed at its (static) call sites, so
// that a path assembled partly in the caller and partly in a helper is still read in full.
var constParamBind = map[*ssa.Parameter][]ssa.Value{}

func bindParams(call *ssa.Call) {
	f := call.Call.StaticCallee()
	if f == nil || len(f.Params) != len(call.Call.Args) {
		return
	}
	for i, p := range f.Params {
		dup := false
		for _, v := range constParamBind[p] {
			if v == call.Call.Args[i] {
				dup = true
			}
		}
		if !dup {
			constParamBind[p] = append(constParamBind[p], call.Call.Args[i])
		}
	}
}

func constStrings(v ssa.Value, depth int, out *[]string) {
	if depth > 24 || v == nil {
		return
	}
	switch x := v.(type) {
	case *ssa.Parameter:
		for _, a := range constParamBind[x] {
			constStrings(a, depth+1, out)
		}
	case *ssa.Const:
		if x.Value != nil && x.Value.Kind() == constant.String {
			*out = append(*out, constant.StringVal(x.Value))
		}
	case *ssa.Call:
		// a path helper of the module (engine.statePath(msec), manifestPath()): its returned expression,
		// with the helper's parameters standing for this call's arguments
		if f := x.Call.StaticCallee(); f != nil && world.InModule(f) && f.Blocks != nil && isStringy(x.Type()) {
			if len(f.Params) == len(x.Call.Args) {
				for i, p := range f.Params {
					constParamBind[p] = []ssa.Value{x.Call.Args[i]}
				}
			}
			for _, ret := range world.Returns(f) {
				for _, rv := range world.RetVals(ret) {
					constStrings(rv, depth+1, out)
				}
			}
			return
		}
		for _, a := range x.Call.Args {
			constStrings(a, depth+1, out)
		}
	case *ssa.Slice:
		constStrings(x.X, depth+1, out)
	case *ssa.Alloc:
		for _, r := range *x.Referrers() {
			switch y := r.(type) {
			case *ssa.IndexAddr:
				for _, r2 := range *y.Referrers() {
					if st, ok := r2.(*ssa.Store); ok {
						constStrings(st.Val, depth+1, out)
					}
				}
			case *ssa.Store:
				if y.Addr == x {
					constStrings(y.Val, depth+1, out)
				}
			}
		}
	case *ssa.Phi:
		for _, e := range x.Edges {
			constStrings(e, depth+1, out)
		}
	case *ssa.MakeInterface:
		constStrings(x.X, depth+1, out)
	case *ssa.UnOp:
		if x.Op == token.MUL {
			constStrings(x.X, depth+1, out)
		}
	case *ssa.BinOp:
		if x.Op == token.ADD {
			constStrings(x.X, depth+1, out)
			constStrings(x.Y, depth+1, out)
		}
	}
}

// lastComponent classifies a path expression by its constant components.
func pathKind(v ssa.Value) string {
	var cs []string
	constStrings(v, 0, &cs)
	for _, s := range cs {
		if s == "manifest.bin" {
			return "manifest"
		}
	}
	for _, s := range cs {
		if s == "state.bin" {
			return "state"
		}
	}
	for _, s := range cs {
		if strings.Contains(s, "manifest") {
			return "manifest-tmp"
		}
	}
	for _, s := range cs {
		if strings.Contains(s, "state") {
			return "state-tmp"
		}
	}
	return "other"
}

type fileEv struct {
	in   *ssa.Call
	op   string // os.Create, os.OpenFile, os.Open, os.Rename, os.WriteFile, os.Remove, Write, Sync, Close, call:<field>
	kind string // manifest | state | manifest-tmp | ...
	src  string // for rename: kind of the source
}

func dedup(s []string) []string {
	var out []string
	for i, x := range s {
		if i == 0 || x != s[i-1] {
			out = append(out, x)
		}
	}
	return out
}
