package rules

import (
	"fmt"
	"go/token"
	"go/types"
	"sort"
	"strings"

	"golang.org/x/tools/go/ssa"

	"svcheck/internal/report"
	"svcheck/internal/world"
)

func init() {
	register("DC", 1, "counted changes are duplicate-safe: when a write handler walks a client-supplied list (which may name the same key, field or member twice) and counts what it changed, every unit of the count is taken in the very iteration that makes the change, guarded by a test of the live container (the map being changed, or a keyspace lookup made inside the loop) — a count taken from a snapshot made before the loop, or in a separate pass before the changes, counts a repeated argument twice", ruleDC)
}

func ruleDC(w *world.World, r *report.RuleResult) {
	cmds, err := w.Commands()
	if err != nil {
		r.Err = err
		return
	}
	hs, _ := handlersOf(cmds, func(c *world.CmdEntry) bool { return !c.IsReadOnly() })
	sort.Slice(hs, func(i, j int) bool { return world.FuncName(hs[i]) < world.FuncName(hs[j]) })
	n := 0
	for _, fn := range hs {
		if fn.Blocks == nil {
			continue
		}
		// natural loops: header h with a back edge p->h, h dominates p
		type loop struct {
			h     *ssa.BasicBlock
			backs []*ssa.BasicBlock
		}
		var loops []loop
		for _, h := range fn.Blocks {
			var backs []*ssa.BasicBlock
			for _, p := range h.Preds {
				if h.Dominates(p) {
					backs = append(backs, p)
				}
			}
			if len(backs) > 0 {
				loops = append(loops, loop{h, backs})
			}
		}
		inLoop := func(l loop, b *ssa.BasicBlock) bool {
			if !l.h.Dominates(b) {
				return false
			}
			// b reaches a back edge without leaving through the header
			seen := map[*ssa.BasicBlock]bool{}
			var reach func(x *ssa.BasicBlock) bool
			reach = func(x *ssa.BasicBlock) bool {
				if x == l.h {
					return true
				}
				if seen[x] {
					return false
				}
				seen[x] = true
				for _, s := range x.Succs {
					if l.h.Dominates(s) && reach(s) {
						return true
					}
				}
				return false
			}
			for _, s := range b.Succs {
				if s == l.h || (l.h.Dominates(s) && reach(s)) {
					return true
				}
			}
			return false
		}
		for _, l := range loops {
			// iteration source: a slice (index loop or range over a slice); a range over a map has unique keys
			overMap, overSlice := false, false
			for _, in := range l.h.Instrs {
				if nx, ok := in.(*ssa.Next); ok {
					if rg, ok := nx.Iter.(*ssa.Range); ok {
						if _, isMap := rg.X.Type().Underlying().(*types.Map); isMap {
							overMap = true
						}
					}
				}
			}
			for _, b := range fn.Blocks {
				if !inLoop(l, b) && b != l.h {
					continue
				}
				for _, in := range b.Instrs {
					if ia, ok := in.(*ssa.IndexAddr); ok {
						if _, isConst := ia.Index.(*ssa.Const); !isConst {
							if _, isSl := ia.X.Type().Underlying().(*types.Slice); isSl && sliceOfClientList(ia.X, 0) {
								overSlice = true
							}
						}
					}
				}
			}
			if overMap {
				// a range over a map visits every key once: a counted keyspace change inside it is duplicate-safe
				for _, b := range fn.Blocks {
					if !inLoop(l, b) {
						continue
					}
					mut, cnt := false, false
					for _, in := range b.Instrs {
						if c, ok := in.(ssa.CallInstruction); ok && world.Mutators[world.AccessorCall(c)] {
							mut = true
						}
					}
					for _, bb := range fn.Blocks {
						if !inLoop(l, bb) {
							continue
						}
						for _, in := range bb.Instrs {
							if bo, ok := in.(*ssa.BinOp); ok && bo.Op == token.ADD {
								if ph, ok := bo.X.(*ssa.Phi); ok && ph.Block() == l.h {
									cnt = true
								}
							}
						}
					}
					if mut && cnt {
						n++
						r.OK(fmt.Sprintf("%s|count-step#%d", world.FuncName(fn), n), w.InstrPos(b.Instrs[0]), "the counted changes are made in a loop over a map: every key is visited once")
					}
				}
				continue
			}
			if !overSlice {
				continue
			}
			// counter increments inside the loop: x + const where x is carried by a phi of the header
			for _, b := range fn.Blocks {
				if !inLoop(l, b) {
					continue
				}
				for _, in := range b.Instrs {
					bo, ok := in.(*ssa.BinOp)
					if !ok || bo.Op != token.ADD {
						continue
					}
					if c, isConst := bo.Y.(*ssa.Const); !isConst || !isIntType(c.Type()) {
						continue
					}
					ph, ok := bo.X.(*ssa.Phi)
					if !ok || ph.Block() != l.h || ph.Comment == "rangeindex" {
						continue
					}
					// the loop's own induction variable (i++) is not a count of changes: it feeds an index
					isIndex := false
					for _, ref := range *ph.Referrers() {
						switch x := ref.(type) {
						case *ssa.IndexAddr:
							isIndex = isIndex || x.Index == ssa.Value(ph)
						case *ssa.BinOp:
							if x.Op == token.LSS || x.Op == token.LEQ || x.Op == token.GTR || x.Op == token.GEQ {
								isIndex = true
							}
						}
					}
					if isIndex {
						continue
					}
					// the change made in the same block
					var changed ssa.Value // the map changed, nil for a keyspace mutator
					hasChange := false
					for _, x := range b.Instrs {
						switch y := x.(type) {
						case *ssa.MapUpdate:
							changed, hasChange = y.Map, true
						case ssa.CallInstruction:
							if bi, ok := y.Common().Value.(*ssa.Builtin); ok && bi.Name() == "delete" {
								changed, hasChange = y.Common().Args[0], true
							}
							if world.Mutators[world.AccessorCall(y)] {
								hasChange = true
							}
						}
					}
					// the change made by a method of the stored object whose result guards the count
					for _, pb := range fn.Blocks {
						iff := world.IfOf(pb)
						if iff == nil || !inLoop(l, pb) {
							continue
						}
						if derivesFrom(world.CondValue(iff), func(v ssa.Value) bool {
							in, ok := v.(ssa.Instruction)
							return ok && storedObjectCall(v) && in.Block() != nil && inLoop(l, in.Block())
						}, 0) && pb.Dominates(b) {
							hasChange = true
						}
					}
					n++
					key := fmt.Sprintf("%s|count-step#%d", world.FuncName(fn), n)
					if !hasChange {
						// a count of something other than changes (positions, matches reported as such): only a
						// finding when the handler's loop also lacks any change — decided below by the guard
						r.Fail(key, w.InstrPos(bo), fmt.Sprintf("%s counts a unit here, in a loop over a client-supplied list, in a step that does not itself make the change being counted (the change is made in another pass): an argument named twice is counted twice although it can be changed only once, so the reply is larger than the number of changes made", world.FuncName(fn)))
						continue
					}
					// guard on the live container
					const LIVE world.Facts = 1
					eg := func(bb *ssa.BasicBlock, si int) world.Facts {
						iff := world.IfOf(bb)
						if iff == nil || !inLoop(l, bb) && bb != l.h {
							return 0
						}
						live := derivesFrom(world.CondValue(iff), func(v ssa.Value) bool {
							switch x := v.(type) {
							case *ssa.Lookup:
								if changed != nil && world.SameExpr(x.X, changed) {
									return true
								}
							case ssa.CallInstruction:
								if a := world.AccessorCall(x); (a == "KeysExist" || a == "GetValues") && x.Block() != nil && l.h.Dominates(x.Block()) && x.Block() != l.h {
									return true
								}
								if vv, ok := x.(ssa.Value); ok && storedObjectCall(vv) && x.Block() != nil && inLoop(l, x.Block()) {
									return true
								}
							}
							return false
						}, 0)
						if live {
							return LIVE
						}
						return 0
					}
					must := world.Must(fn, eg, nil, func(in ssa.Instruction) world.Facts {
						if in.Block() == l.h {
							return LIVE
						}
						return 0
					})
					if world.FactsAt(must, bo, nil, nil)&LIVE != 0 {
						r.OK(key, w.InstrPos(bo), "counted in the iteration that makes the change, under a test of the live container")
					} else {
						r.Fail(key, w.InstrPos(bo), fmt.Sprintf("%s counts a change here under a test that does not look at the live container (a snapshot taken before the loop): for an argument named twice the second iteration still sees the old state and counts again, so the reply is larger than the number of changes made", world.FuncName(fn)))
					}
				}
			}
		}
	}
}

// isClientList: the command tokens of the request, or the key lists extracted from them.
func isClientList(v ssa.Value) bool {
	switch x := v.(type) {
	case *ssa.Field:
		if st, ok := x.X.Type().Underlying().(*types.Struct); ok {
			n := world.CanonField(st.Field(x.Field))
			return (n == "Command" && world.TypeIs(x.X.Type(), "/internal", "HandlerFuncParams")) || ((n == "ReadKeys" || n == "WriteKeys" || n == "Channels") && world.TypeIs(x.X.Type(), "/internal", "KeyExtractionFuncResult"))
		}
	case *ssa.FieldAddr:
		n := world.FieldName(x)
		return n == "Command" || n == "ReadKeys" || n == "WriteKeys"
	}
	return false
}

// sliceOfClientList: v is the client list itself or a sub-slice / copy-free view of it (not something
// merely computed from it, such as a stored value looked up under one of its keys).
func sliceOfClientList(v ssa.Value, d int) bool {
	if v == nil || d > 8 {
		return false
	}
	if isClientList(v) {
		return true
	}
	switch x := v.(type) {
	case *ssa.Slice:
		return sliceOfClientList(x.X, d+1)
	case *ssa.Phi:
		for _, e := range x.Edges {
			if sliceOfClientList(e, d+1) {
				return true
			}
		}
	case *ssa.UnOp:
		if x.Op == token.MUL {
			if isClientList(x.X) {
				return true
			}
			if al, ok := x.X.(*ssa.Alloc); ok {
				for _, ref := range *al.Referrers() {
					if st, ok := ref.(*ssa.Store); ok && st.Addr == ssa.Value(al) && sliceOfClientList(st.Val, d+1) {
						return true
					}
				}
			}
		}
	}
	return false
}

// storedObjectCall: a call, inside the loop, of a pointer-receiver method of a module type: the
// stored collection object is asked to make the change and reports whether it did.
func storedObjectCall(v ssa.Value) bool {
	c, ok := v.(*ssa.Call)
	if !ok {
		return false
	}
	f := c.Call.StaticCallee()
	if f == nil || f.Signature.Recv() == nil || !world.InModule(f) {
		return false
	}
	_, isPtr := f.Signature.Recv().Type().(*types.Pointer)
	return isPtr
}

func isIntType(t types.Type) bool {
	b, ok := t.Underlying().(*types.Basic)
	return ok && b.Info()&types.IsInteger != 0
}

var _ = strings.HasPrefix
