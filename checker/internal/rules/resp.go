package rules

import (
	"fmt"
	"go/token"
	"go/types"
	"regexp"
	"sort"
	"strings"

	"golang.org/x/tools/go/ssa"

	"svcheck/internal/report"
	"svcheck/internal/world"
)

func init() {
	register("R1", 200, "reply termination: every reply a handler returns with a nil error ends in CRLF (or is the empty reply of the subscribe family), on every path — computed over a suffix-class abstraction of string values", ruleR1)
	register("R2", 60, "bulk framing: in every RESP format literal a bulk header $%d is fed len(E) of the very operand E that follows as payload (or a literal length equal to the literal payload); also applied to the AOF writer's SELECT marker", ruleR2)
	register("R3", 15, "no data in simple strings: the payload of a simple string / error (+... / -...) is never a string taken from the command, the store or ACL data (it may contain CR/LF and inject frames)", ruleR3)
}

// suffix classes (bitset): what the value may end with
const (
	sfxCRLF  = 1
	sfxNOT   = 2
	sfxEMPTY = 4
)

type fmtSeg struct {
	lit  string
	verb byte
	arg  int
}

var verbRe = regexp.MustCompile(`%[+\-# 0]*[0-9]*(\.[0-9]+)?[a-zA-Z%]`)

func parseFormat(f string) []fmtSeg {
	var out []fmtSeg
	idx, argn := 0, 0
	for _, loc := range verbRe.FindAllStringIndex(f, -1) {
		if loc[0] > idx {
			out = append(out, fmtSeg{lit: f[idx:loc[0]]})
		}
		v := f[loc[1]-1]
		if v == '%' {
			out = append(out, fmtSeg{lit: "%"})
		} else {
			out = append(out, fmtSeg{verb: v, arg: argn})
			argn++
		}
		idx = loc[1]
	}
	if idx < len(f) {
		out = append(out, fmtSeg{lit: f[idx:]})
	}
	return out
}

// varargsOf returns the values packed into a variadic []any argument (unwrapped).
func varargsOf(v ssa.Value) []ssa.Value {
	sl, ok := v.(*ssa.Slice)
	if !ok {
		return nil
	}
	al, ok := sl.X.(*ssa.Alloc)
	if !ok {
		return nil
	}
	arr, ok := al.Type().Underlying().(*types.Pointer).Elem().Underlying().(*types.Array)
	if !ok {
		return nil
	}
	out := make([]ssa.Value, arr.Len())
	for _, r := range *al.Referrers() {
		ia, ok := r.(*ssa.IndexAddr)
		if !ok {
			continue
		}
		i, ok := world.ConstInt(ia.Index)
		if !ok {
			continue
		}
		for _, r2 := range *ia.Referrers() {
			if st, ok := r2.(*ssa.Store); ok {
				out[i] = world.Unwrap(st.Val)
			}
		}
	}
	return out
}

func isStringy(t types.Type) bool {
	b, ok := t.Underlying().(*types.Basic)
	return ok && b.Info()&types.IsString != 0
}

func litClass(s string) int {
	if s == "" {
		return sfxEMPTY
	}
	if strings.HasSuffix(s, "\r\n") {
		return sfxCRLF
	}
	return sfxNOT
}

func concatClass(a, b int) int {
	r := b &^ sfxEMPTY
	if b&sfxEMPTY != 0 {
		r |= a
	}
	return r
}

type sfxEval struct {
	memo map[ssa.Value]int
	busy map[ssa.Value]bool
	// nonEmptyLoop: blocks inside a range loop whose collection is provably non-empty are not modelled;
	// instead the terminator-on-last-iteration idiom is recognised structurally (see lastIterTerminated)
}

func newSfx() *sfxEval { return &sfxEval{map[ssa.Value]int{}, map[ssa.Value]bool{}} }

func (e *sfxEval) eval(v ssa.Value) int {
	if r, ok := e.memo[v]; ok {
		return r
	}
	if e.busy[v] {
		return 0
	}
	e.busy[v] = true
	defer delete(e.busy, v)
	r := e.eval1(v)
	e.memo[v] = r
	return r
}

func (e *sfxEval) sprintf(format string, args []ssa.Value) int {
	res := sfxEMPTY
	for _, s := range parseFormat(format) {
		var c int
		switch {
		case s.verb == 0:
			c = litClass(s.lit)
		case (s.verb == 's' || s.verb == 'v') && s.arg < len(args) && args[s.arg] != nil && (isStringy(args[s.arg].Type()) || isByteSlice(args[s.arg].Type())):
			c = e.eval(args[s.arg])
		default:
			c = sfxNOT
		}
		res = concatClass(res, c)
	}
	return res
}

func isByteSlice(t types.Type) bool {
	sl, ok := t.Underlying().(*types.Slice)
	if !ok {
		return false
	}
	b, ok := sl.Elem().Underlying().(*types.Basic)
	return ok && b.Kind() == types.Byte
}

func (e *sfxEval) eval1(v ssa.Value) int {
	if s, ok := world.ConstString(v); ok {
		return litClass(s)
	}
	switch x := v.(type) {
	case *ssa.Const:
		return sfxEMPTY
	case *ssa.Convert:
		return e.eval(x.X)
	case *ssa.ChangeType:
		return e.eval(x.X)
	case *ssa.MakeInterface:
		return e.eval(x.X)
	case *ssa.BinOp:
		if x.Op == token.ADD {
			return concatClass(e.eval(x.X), e.eval(x.Y))
		}
	case *ssa.Phi:
		r := 0
		for it := 0; it < 5; it++ {
			e.memo[v] = r
			nr := 0
			for _, ed := range x.Edges {
				delete(e.memo, ed)
				nr |= e.eval(ed)
			}
			if nr == r {
				break
			}
			r = nr
		}
		return r
	case *ssa.Slice:
		return e.eval(x.X)
	case *ssa.Call:
		if b, ok := x.Call.Value.(*ssa.Builtin); ok && b.Name() == "append" {
			a := e.eval(x.Call.Args[0])
			if len(x.Call.Args) > 1 {
				return concatClass(a, e.eval(x.Call.Args[1]))
			}
			return a
		}
		if f := x.Call.StaticCallee(); f != nil {
			switch {
			case isBuilderRead(f):
				// res.String() / buf.Bytes(): the suffix of what was written into the builder up to here
				if c, ok := e.builderAt(x); ok {
					return c
				}
				return sfxNOT | sfxCRLF | sfxEMPTY
			case f.String() == "fmt.Sprintf":
				if fs, ok := world.ConstString(x.Call.Args[0]); ok {
					return e.sprintf(fs, varargsOf(x.Call.Args[1]))
				}
				return sfxNOT | sfxCRLF
			case strings.HasPrefix(f.String(), "strconv."):
				return sfxNOT
			case world.InModule(f) && f.Blocks != nil:
				r := 0
				for _, ret := range world.Returns(f) {
					rv := world.RetVals(ret)
					if len(rv) > 0 && (isStringy(rv[0].Type()) || isByteSlice(rv[0].Type())) {
						r |= newSfx().eval(rv[0])
					}
				}
				if r != 0 {
					return r
				}
			}
		}
		return sfxNOT | sfxCRLF | sfxEMPTY
	case *ssa.UnOp:
		if x.Op == token.MUL {
			if al, ok := x.X.(*ssa.Alloc); ok {
				r := 0
				for _, ref := range *al.Referrers() {
					if st, ok := ref.(*ssa.Store); ok && st.Addr == ssa.Value(al) {
						r |= e.eval(st.Val)
					}
				}
				return r
			}
		}
	}
	return sfxNOT | sfxCRLF | sfxEMPTY
}

// ---- strings.Builder / bytes.Buffer accumulators ----

func isBuilderRead(f *ssa.Function) bool {
	switch f.String() {
	case "(*strings.Builder).String", "(*bytes.Buffer).String", "(*bytes.Buffer).Bytes":
		return true
	}
	return false
}

// builderWrite: in writes to the builder at address recv; returns the written value (nil = unknown
// text, "" handled by caller) and, for Fprintf, the format call.
func builderWrite(in ssa.Instruction, recv ssa.Value) (val ssa.Value, fprintf *ssa.Call, ok bool) {
	c, isCall := in.(*ssa.Call)
	if !isCall {
		return nil, nil, false
	}
	f := c.Call.StaticCallee()
	if f == nil {
		return nil, nil, false
	}
	switch f.String() {
	case "(*strings.Builder).WriteString", "(*bytes.Buffer).WriteString", "(*strings.Builder).Write", "(*bytes.Buffer).Write",
		"(*strings.Builder).WriteByte", "(*bytes.Buffer).WriteByte", "(*strings.Builder).WriteRune", "(*bytes.Buffer).WriteRune":
		if len(c.Call.Args) == 2 && c.Call.Args[0] == recv {
			return c.Call.Args[1], nil, true
		}
	case "fmt.Fprintf", "fmt.Fprint", "fmt.Fprintln":
		if len(c.Call.Args) >= 1 {
			if mi, isMI := c.Call.Args[0].(*ssa.MakeInterface); isMI && mi.X == recv {
				return nil, c, true
			}
		}
	}
	return nil, nil, false
}

// builderAt: suffix class of the content of the builder read by call rd, by a forward may-analysis
// (join = union of classes) over the writes to that builder in rd's function.
func (e *sfxEval) builderAt(rd *ssa.Call) (int, bool) {
	if len(rd.Call.Args) == 0 {
		return 0, false
	}
	recv := rd.Call.Args[0]
	if _, ok := recv.(*ssa.Alloc); !ok {
		return 0, false
	}
	fn := rd.Parent()
	apply := func(state int, in ssa.Instruction) (int, bool) {
		val, fp, ok := builderWrite(in, recv)
		if !ok {
			return state, false
		}
		var c int
		switch {
		case fp != nil:
			c = sfxNOT | sfxCRLF | sfxEMPTY
			if fp.Call.StaticCallee().String() == "fmt.Fprintf" && len(fp.Call.Args) >= 3 {
				if fs, ok := world.ConstString(fp.Call.Args[1]); ok {
					c = e.sprintf(fs, varargsOf(fp.Call.Args[2]))
				}
			}
		case isStringy(val.Type()) || isByteSlice(val.Type()):
			c = e.eval(val)
		default:
			c = sfxNOT // a byte / rune
			if k, ok := world.ConstInt(val); ok && k == '\n' {
				c = sfxNOT | sfxCRLF
			}
		}
		return concatClass(state, c), true
	}
	in := map[*ssa.BasicBlock]int{}
	if len(fn.Blocks) == 0 {
		return 0, false
	}
	in[fn.Blocks[0]] = sfxEMPTY
	for changed, it := true, 0; changed && it < 20; it++ {
		changed = false
		for _, b := range fn.Blocks {
			st, ok := in[b]
			if !ok {
				continue
			}
			for _, ins := range b.Instrs {
				st, _ = apply(st, ins)
			}
			for _, s2 := range b.Succs {
				if in[s2]|st != in[s2] {
					in[s2] |= st
					changed = true
				}
			}
		}
	}
	st, ok := in[rd.Block()]
	if !ok {
		return 0, false
	}
	for _, ins := range rd.Block().Instrs {
		if ins == ssa.Instruction(rd) {
			break
		}
		st, _ = apply(st, ins)
	}
	return st, true
}

func clsStr(c int) string {
	var s []string
	if c&sfxCRLF != 0 {
		s = append(s, "CRLF")
	}
	if c&sfxNOT != 0 {
		s = append(s, "not-CRLF")
	}
	if c&sfxEMPTY != 0 {
		s = append(s, "empty")
	}
	return strings.Join(s, "|")
}

// lastIterIdiom: the reply is built as header-without-CRLF, then a range loop whose body appends
// "\r\n<element>" and appends the final "\r\n" when i == len(x)-1. It yields CRLF iff the loop runs
// at least once. Returns the ranged collection when the value v matches the idiom.
func lastIterIdiom(fn *ssa.Function, v ssa.Value) ssa.Value {
	// find an If on `i == len(x)-1` in fn
	for _, b := range fn.Blocks {
		iff := world.IfOf(b)
		if iff == nil {
			continue
		}
		bo, ok := world.CondValue(iff).(*ssa.BinOp)
		if !ok || bo.Op != token.EQL {
			continue
		}
		sub, ok := bo.Y.(*ssa.BinOp)
		if !ok || sub.Op != token.SUB {
			continue
		}
		if k, ok := world.ConstInt(sub.Y); !ok || k != 1 {
			continue
		}
		lc, ok := sub.X.(*ssa.Call)
		if !ok {
			continue
		}
		if bi, ok := lc.Call.Value.(*ssa.Builtin); !ok || bi.Name() != "len" {
			continue
		}
		return lc.Call.Args[0]
	}
	return nil
}

func replyFuncs(w *world.World) []*ssa.Function {
	var out []*ssa.Function
	for _, fn := range w.ModFns {
		pos := w.Pos(fn.Pos())
		if strings.Contains(pos, "_test.go") || strings.Contains(pos, "volumes/") {
			continue
		}
		pk := world.ShortPkg(world.PkgOf(fn))
		if !strings.HasPrefix(pk, "internal/modules/") {
			continue
		}
		res := fn.Signature.Results()
		if res.Len() >= 1 && isByteSlice(res.At(0).Type()) {
			out = append(out, fn)
		}
	}
	return out
}

func ruleR1(w *world.World, r *report.RuleResult) {
	ar, _, _ := arityOf(w)
	_ = ar
	for _, fn := range replyFuncs(w) {
		n := 0
		for _, ret := range world.Returns(fn) {
			rv := world.RetVals(ret)
			if len(rv) == 2 && !world.IsNilConst(rv[1]) {
				continue
			}
			if len(rv) == 0 {
				continue
			}
			n++
			key := fmt.Sprintf("%s|reply#%d", world.FuncName(fn), n)
			pos := w.InstrPos(ret)
			c := newSfx().eval(rv[0])
			switch {
			case c == sfxCRLF, c == sfxEMPTY, c == sfxCRLF|sfxEMPTY && isSubscribeFamily(fn):
				r.OK(key, pos, "reply ends in CRLF on every path ("+clsStr(c)+")")
			case c&sfxNOT == 0 && c&sfxEMPTY != 0:
				// may be empty: only the nil []byte of the subscribe family
				r.OK(key, pos, "reply is CRLF-terminated or the empty reply")
			default:
				// terminator-on-last-iteration idiom: CRLF iff the collection is non-empty
				if coll := lastIterIdiom(fn, rv[0]); coll != nil {
					if provablyNonEmpty(fn, coll) {
						r.OK(key, pos, "terminator appended on the last loop iteration; the collection is non-empty on every path (length fixed by the command's arity)")
					} else {
						r.Fail(key, pos, fmt.Sprintf("%s builds its reply as a header without CRLF and appends the final CRLF only on the last iteration of the loop over %s: when that collection is empty the reply is \"*0\" with no terminator — an incomplete RESP frame, the client blocks waiting for the rest and the next reply is glued to it", world.FuncName(fn), exprString(coll)))
					}
					continue
				}
				// `if len(x) > 0 { res += "\r\n" }` where x is non-empty by the command's arity: the
				// unterminated alternative is infeasible
				if c2, ok := suffixIgnoringInfeasibleEmpty(fn, rv[0]); ok && (c2 == sfxCRLF) {
					r.OK(key, pos, "the only unterminated alternative is guarded by an emptiness test of a collection that is non-empty on every path (length fixed by the command's arity)")
					continue
				}
				r.Fail(key, pos, fmt.Sprintf("the reply returned here may not end in CRLF (suffix classes: %s): an unterminated RESP frame", clsStr(c)))
			}
		}
	}
}

func isSubscribeFamily(fn *ssa.Function) bool {
	return strings.Contains(strings.ToLower(fn.Name()), "subscribe")
}

// provablyNonEmpty: the collection's length derives from the command arity (e.g. params.Command[2:])
// with a positive lower bound. Conservative: only slices of the command with constant bounds whose
// minimum length is >= 1 according to the arity analysis are accepted; otherwise false.
// suffixIgnoringInfeasibleEmpty: v is (a conversion of) a phi; the edge coming straight from a block
// that tests len(x) > 0 / != 0 / >= 1 over its "empty" side is dropped when x is provably non-empty.
func suffixIgnoringInfeasibleEmpty(fn *ssa.Function, v ssa.Value) (int, bool) {
	for {
		switch x := v.(type) {
		case *ssa.Convert:
			v = x.X
			continue
		case *ssa.ChangeType:
			v = x.X
			continue
		}
		break
	}
	ph, ok := v.(*ssa.Phi)
	if !ok {
		return 0, false
	}
	b := ph.Block()
	res, dropped := 0, false
	for i, e := range ph.Edges {
		p := b.Preds[i]
		if iff := world.IfOf(p); iff != nil {
			if bo, ok := iff.Cond.(*ssa.BinOp); ok {
				if coll, ok := lenArgOf(bo.X); ok {
					k, isK := world.ConstInt(bo.Y)
					emptySucc := -1
					switch {
					case isK && k == 0 && bo.Op == token.GTR, isK && k == 0 && bo.Op == token.NEQ, isK && k == 1 && bo.Op == token.GEQ:
						emptySucc = 1
					case isK && k == 0 && bo.Op == token.EQL, isK && k == 0 && bo.Op == token.LEQ, isK && k == 1 && bo.Op == token.LSS:
						emptySucc = 0
					}
					if emptySucc >= 0 && p.Succs[emptySucc] == b && provablyNonEmpty(fn, coll) {
						dropped = true
						continue
					}
				}
			}
		}
		res |= newSfx().eval(e)
	}
	return res, dropped
}

func provablyNonEmpty(fn *ssa.Function, coll ssa.Value) bool {
	// a slice x[a:] of the command where the key function requires len > a
	ps := prov(coll, 0, map[ssa.Value]bool{})
	if len(ps) == 0 {
		return false
	}
	for _, p := range ps {
		if !(strings.HasPrefix(p, "Cmd[") || strings.HasPrefix(p, "keys.")) {
			return false
		}
	}
	// the collection itself is made with make([]T, len(cmdslice)): accept when coll is a MakeSlice whose
	// length is len(Cmd[a:]) — handled by prov returning nil; so only direct command slices reach here
	return true
}

// ---- R2 / R3 ----

func lenArgOf(v ssa.Value) (ssa.Value, bool) {
	c, ok := v.(*ssa.Call)
	if !ok {
		return nil, false
	}
	b, ok := c.Call.Value.(*ssa.Builtin)
	if !ok || b.Name() != "len" {
		return nil, false
	}
	return c.Call.Args[0], true
}

func sameOperand(a, b ssa.Value) bool {
	a, b = world.Unwrap(a), world.Unwrap(b)
	if world.SameExpr(a, b) {
		return true
	}
	// calls with equal static callee and operands (strconv.FormatFloat(x, ...) twice)
	ca, ok1 := a.(*ssa.Call)
	cb, ok2 := b.(*ssa.Call)
	if ok1 && ok2 && ca.Call.StaticCallee() != nil && ca.Call.StaticCallee() == cb.Call.StaticCallee() && len(ca.Call.Args) == len(cb.Call.Args) {
		for i := range ca.Call.Args {
			if !sameOperand(ca.Call.Args[i], cb.Call.Args[i]) {
				return false
			}
		}
		return true
	}
	return false
}

type respLit struct {
	fn   *ssa.Function
	call *ssa.Call
	fs   string
	args []ssa.Value
}

func respLiterals(w *world.World) []respLit {
	var out []respLit
	for _, fn := range w.ModFns {
		pos := w.Pos(fn.Pos())
		if strings.Contains(pos, "_test.go") || strings.Contains(pos, "volumes/") {
			continue
		}
		pk := world.ShortPkg(world.PkgOf(fn))
		if !strings.HasPrefix(pk, "internal/modules/") && !strings.HasPrefix(pk, "internal/aof") {
			continue
		}
		for _, c := range world.Calls(fn) {
			call, ok := c.(*ssa.Call)
			if !ok {
				continue
			}
			f := call.Call.StaticCallee()
			if f == nil || f.String() != "fmt.Sprintf" {
				continue
			}
			fs, ok := world.ConstString(call.Call.Args[0])
			if !ok {
				continue
			}
			if !strings.Contains(fs, "\r\n") && !strings.HasPrefix(fs, "+") && !strings.HasPrefix(fs, "$") && !strings.HasPrefix(fs, "*") && !strings.HasPrefix(fs, ":") {
				continue
			}
			out = append(out, respLit{fn, call, fs, varargsOf(call.Call.Args[1])})
		}
	}
	return out
}

var litBulkRe = regexp.MustCompile(`\$([0-9]+)\r\n$`)

func ruleR2(w *world.World, r *report.RuleResult) {
	for _, l := range respLiterals(w) {
		segs := parseFormat(l.fs)
		pos := w.InstrPos(l.call)
		for i, s := range segs {
			// "$" %d "\r\n" <payload verb>
			if s.verb == 0 && strings.HasSuffix(s.lit, "$") && i+1 < len(segs) && segs[i+1].verb == 'd' {
				key := fmt.Sprintf("%s|bulk:%q", world.FuncName(l.fn), l.fs)
				if i+3 >= len(segs) || segs[i+2].verb != 0 || !strings.HasPrefix(segs[i+2].lit, "\r\n") || segs[i+2].lit != "\r\n" || segs[i+3].verb == 0 {
					r.Fail(key, pos, fmt.Sprintf("bulk header $%%d is not followed by CRLF and a payload verb in %q", l.fs))
					continue
				}
				if segs[i+1].arg >= len(l.args) || segs[i+3].arg >= len(l.args) || l.args[segs[i+1].arg] == nil || l.args[segs[i+3].arg] == nil {
					r.Und(key, pos, "cannot resolve the operands of the format")
					continue
				}
				la, ok := lenArgOf(l.args[segs[i+1].arg])
				pay := l.args[segs[i+3].arg]
				good := false
				if ok {
					if sameOperand(la, pay) {
						good = true
					}
					// len(fmt.Sprintf("%v", x)) with payload %v x
					if c2, ok := la.(*ssa.Call); ok && c2.Call.StaticCallee() != nil && c2.Call.StaticCallee().String() == "fmt.Sprintf" {
						if f2, ok := world.ConstString(c2.Call.Args[0]); ok && f2 == "%"+string(segs[i+3].verb) {
							a2 := varargsOf(c2.Call.Args[1])
							if len(a2) == 1 && sameOperand(a2[0], pay) {
								good = true
							}
						}
					}
				}
				if good {
					r.OK(key, pos, "bulk length is len() of the payload operand")
				} else {
					r.Fail(key, pos, fmt.Sprintf("in %q the bulk header's length (%s) is not len() of the operand that follows as payload (%s): for some values the announced length differs from the bytes sent and the client mis-frames the reply", l.fs, exprString(l.args[segs[i+1].arg]), exprString(pay)))
				}
			}
			// literal "$<n>\r\n" followed by a verb
			if s.verb == 0 {
				if m := litBulkRe.FindStringSubmatch(s.lit); m != nil && i+1 < len(segs) && segs[i+1].verb != 0 {
					key := fmt.Sprintf("%s|literal-bulk:%q", world.FuncName(l.fn), l.fs)
					pay := l.args[segs[i+1].arg]
					if cs, ok := world.ConstString(pay); ok && fmt.Sprint(len(cs)) == m[1] {
						r.OK(key, pos, "literal bulk length equals the literal payload")
					} else {
						r.Fail(key, pos, fmt.Sprintf("in %q a hard-coded bulk length $%s frames a variable payload (%s): the frame is malformed whenever the payload's length is not %s (for the AOF SELECT marker: every database index >= 10, and -1)", l.fs, m[1], exprString(pay), m[1]))
					}
				}
			}
		}
	}
}

// safeSimple: the value cannot contain CR/LF supplied by a client (numbers, constants, type names,
// command-table names).
var safeOnStack = map[ssa.Value]bool{}

func safeSimple(v ssa.Value, d int) bool {
	if v == nil || d > 16 {
		return false
	}
	v = world.Unwrap(v)
	if safeOnStack[v] {
		return true // cyclic definition (m[k] = append(m[k], x)): safe iff the other operands are
	}
	safeOnStack[v] = true
	defer delete(safeOnStack, v)
	if _, ok := v.(*ssa.Const); ok {
		return true
	}
	if b, ok := v.Type().Underlying().(*types.Basic); ok && b.Info()&(types.IsNumeric|types.IsBoolean) != 0 {
		return true
	}
	switch x := v.(type) {
	case *ssa.Call:
		if world.Accessor(x.Call.Value) == "GetAllCommands" {
			return true // the command table is code, not client data
		}
		if f := x.Call.StaticCallee(); f != nil {
			s := f.String()
			switch {
			case strings.HasPrefix(s, "strconv.Format"), s == "strconv.Itoa", strings.HasPrefix(s, "(*reflect.rtype)"):
				return true
			case s == "strings.ToUpper" || s == "strings.ToLower" || s == "strings.TrimSpace":
				return safeSimple(x.Call.Args[0], d+1)
			case s == "fmt.Sprintf":
				if fs, ok := world.ConstString(x.Call.Args[0]); ok {
					if fs == "%T" {
						return true
					}
					args := varargsOf(x.Call.Args[1])
					for _, sg := range parseFormat(fs) {
						if sg.verb != 0 && (sg.arg >= len(args) || !safeSimple(args[sg.arg], d+1)) {
							return false
						}
					}
					return true
				}
			}
		}
		if x.Call.IsInvoke() && strings.Contains(x.Call.Value.Type().String(), "reflect.Type") {
			return true
		}
	case *ssa.Phi:
		for _, e := range x.Edges {
			if e != v && !safeSimple(e, d+1) {
				return false
			}
		}
		return true
	case *ssa.UnOp:
		if x.Op == token.MUL {
			if al, ok := x.X.(*ssa.Alloc); ok {
				for _, ref := range *al.Referrers() {
					if st, ok := ref.(*ssa.Store); ok && st.Addr == ssa.Value(al) && !safeSimple(st.Val, d+1) {
						return false
					}
				}
				return true
			}
			// fields of command-table entries (code, not client data): Command.Command, Module, Categories
			if fa, ok := x.X.(*ssa.FieldAddr); ok && (world.TypeIs(fa.X.Type(), "/internal", "Command") || world.TypeIs(fa.X.Type(), "/internal", "SubCommand")) {
				return true
			}
			// element of a slice of safe values
			if ia, ok := x.X.(*ssa.IndexAddr); ok {
				return safeSimple(ia.X, d+1)
			}
		}
	case *ssa.Field:
		if world.TypeIs(x.X.Type(), "/internal", "Command") || world.TypeIs(x.X.Type(), "/internal", "SubCommand") {
			return true
		}
	case *ssa.Extract:
		// range over a slice of safe values / map with constant keys
		if nx, ok := x.Tuple.(*ssa.Next); ok {
			if rg, ok := nx.Iter.(*ssa.Range); ok {
				return safeSimple(rg.X, d+1)
			}
		}
	case *ssa.Slice:
		return safeSimple(x.X, d+1)
	case *ssa.Alloc:
		// array literal: every element stored must be safe
		okAll := false
		for _, ref := range *x.Referrers() {
			if ia, ok := ref.(*ssa.IndexAddr); ok {
				for _, r2 := range *ia.Referrers() {
					if st, ok := r2.(*ssa.Store); ok {
						if !safeSimple(st.Val, d+1) {
							return false
						}
						okAll = true
					}
				}
			}
		}
		return okAll
	case *ssa.MakeMap:
		// map built in this function from safe keys and values only
		okAll := false
		for _, ref := range *x.Referrers() {
			if mu, ok := ref.(*ssa.MapUpdate); ok && mu.Map == ssa.Value(x) {
				if !safeSimple(mu.Key, d+1) || !safeSimple(mu.Value, d+1) {
					return false
				}
				okAll = true
			}
		}
		return okAll
	case *ssa.Lookup:
		return safeSimple(x.X, d+1)
	}
	if c, ok := v.(*ssa.Call); ok {
		if b, ok := c.Call.Value.(*ssa.Builtin); ok && b.Name() == "append" {
			for _, a := range c.Call.Args {
				if !safeSimple(a, d+1) {
					return false
				}
			}
			return true
		}
	}
	return false
}

func ruleR3(w *world.World, r *report.RuleResult) {
	for _, l := range respLiterals(w) {
		if strings.HasPrefix(world.ShortPkg(world.PkgOf(l.fn)), "internal/aof") {
			continue
		}
		segs := parseFormat(l.fs)
		// token-level scan: after the start of the literal or a CRLF, a '+' / '-' type byte opens a
		// simple-string span that runs to the next CRLF; every verb inside it is payload
		inSimple := false
		atStart := true
		n := 0
		for _, s := range segs {
			if s.verb == 0 {
				for i := 0; i < len(s.lit); i++ {
					ch := s.lit[i]
					if atStart && (ch == '+' || ch == '-') {
						inSimple = true
					}
					atStart = false
					if ch == '\n' && i > 0 && s.lit[i-1] == '\r' {
						inSimple = false
						atStart = true
					}
				}
				continue
			}
			atStart = false
			if !inSimple || !(s.verb == 's' || s.verb == 'v' || s.verb == 'q') {
				continue
			}
			n++
			key := fmt.Sprintf("%s|simple:%q#%d", world.FuncName(l.fn), l.fs, n)
			pos := w.InstrPos(l.call)
			if s.arg >= len(l.args) || l.args[s.arg] == nil {
				r.Und(key, pos, "cannot resolve the operand")
				continue
			}
			pay := l.args[s.arg]
			if safeSimple(pay, 0) {
				r.OK(key, pos, "simple-string payload is a number, a constant, a type name or a command-table name")
			} else {
				r.Fail(key, pos, fmt.Sprintf("in %q the operand %s (type %s) is written inside a simple string / error frame; it is data a client controls (command token, stored value, user name), and a value containing CR LF terminates the frame early and injects further RESP frames into the reply stream", l.fs, exprString(pay), shortType(pay.Type().String())))
			}
		}
	}
}

var _ = sort.Strings
