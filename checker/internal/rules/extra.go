package rules

import (
	"fmt"
	"go/types"
	"sort"
	"strings"

	"golang.org/x/tools/go/ssa"

	"svcheck/internal/lockset"
	"svcheck/internal/report"
	"svcheck/internal/world"
)

func init() {
	register("SA", 2, "an explicit SAVE / REWRITEAOF that reports success has started the snapshot / rewrite: the functions bound to HandlerFuncParams.TakeSnapshot and RewriteAOF return nil only after the call (or go statement) that reaches the engine", ruleSA)
	register("RW", 1, "rewrite window: some lock held by RewriteLog from the state copy until the log truncation is also held by the dispatcher from the handler call until the AOF append — otherwise a write executed and logged between the copy and the truncation is acknowledged and then truncated away", ruleRW)
	register("T7", 2, "no self-deadlock on the state-copy handshake: a command that synchronously triggers a state copy (REWRITEAOF) is not write-classified (the dispatcher sets the mutation flag for write commands and getState waits for it to clear)", ruleT7)
	register("GM", 6, "size-function coverage: every concrete type that handlers store (the E8 encoder table, top level and inside hashes) has a case in KeyData.GetMem (directly or through the CompositeType interface)", ruleGM)
	register("N4", 2, "connection isolation: the per-connection table is updated only for the connection the command arrived on, or inside a loop over all connections (SWAPDB)", ruleN4)
	register("OA", 2, "log open mode: the AOF log file is opened for appending (O_APPEND|O_CREATE) and the preamble read-write without truncation", ruleOA)
}

func ruleRW(w *world.World, r *report.RuleResult) {
	a := locksetOf(w)
	rl := w.Func("internal/aof.(*Engine).RewriteLog")
	d, err := getDisp(w)
	if rl == nil || err != nil {
		r.Err = fmt.Errorf("RewriteLog / dispatcher not found")
		return
	}
	var cp, tr ssa.Instruction
	for _, c := range world.Calls(rl) {
		switch staticCalleeName(c) {
		case "internal/aof/preamble.(*Store).CreatePreamble":
			cp = c
		case "internal/aof/log.(*Store).Truncate":
			tr = c
		}
	}
	if cp == nil || tr == nil || len(d.logCalls) == 0 {
		r.Und("anchors", "-", "CreatePreamble/Truncate/AOF append call not found")
		return
	}
	inter := func(x, y lockset.LS) []string {
		var out []string
		for k := range x {
			if _, ok := y[k]; ok {
				out = append(out, k)
			}
		}
		sort.Strings(out)
		return out
	}
	rewriteHeld := inter(a.HeldAt(cp), a.HeldAt(tr))
	writeHeld := inter(a.HeldAt(d.hcall), a.HeldAt(d.logCalls[0]))
	for _, hc := range d.hcalls[1:] {
		held := a.HeldAt(hc)
		var keep []string
		for _, k := range writeHeld {
			if _, ok := held[k]; ok {
				keep = append(keep, k)
			}
		}
		writeHeld = keep
	}
	var common []string
	for _, k := range rewriteHeld {
		for _, k2 := range writeHeld {
			if k == k2 {
				common = append(common, k)
			}
		}
	}
	key := "internal/aof.(*Engine).RewriteLog|copy-to-truncate-window"
	if len(common) > 0 {
		r.OK(key, w.InstrPos(tr), "rewrite and write path share "+strings.Join(common, ", ")+" across [copy, truncate] and [handler, append]")
	} else {
		r.Fail(key, w.InstrPos(tr), fmt.Sprintf("RewriteLog holds %v from the state copy to the truncation, the dispatcher holds %v from the handler to the AOF append: no common lock. The copy/mutation flag handshake ends when the copy ends, so a write command that runs and is appended to the log after the copy and before Truncate is acknowledged and then erased from the log while absent from the preamble", rewriteHeld, writeHeld))
	}
}

func ruleT7(w *world.World, r *report.RuleResult) {
	cmds, err := w.Commands()
	if err != nil {
		r.Err = err
		return
	}
	n := 0
	for _, c := range world.Leaves(cmds) {
		if c.Handler == nil {
			continue
		}
		reach := w.ReachFrom(c.Handler, false)
		var sync []string
		for _, acc := range []string{"RewriteAOF"} {
			if len(reach.Accessors[acc]) > 0 {
				sync = append(sync, acc)
			}
		}
		if len(sync) == 0 {
			continue
		}
		n++
		key := "entry:" + c.Name
		write := c.IsWrite() || (c.Parent != nil && c.Parent.IsWrite())
		if write {
			r.Fail(key, w.Pos(c.Pos), fmt.Sprintf("%s is write-classified and synchronously triggers a state copy (%s): the dispatcher sets stateMutationInProgress before the handler and getState spins until it is clear — the command deadlocks on itself and every later write waits behind it", strings.ToUpper(c.Name), strings.Join(sync, ",")))
		} else {
			r.OK(key, w.Pos(c.Pos), "triggers a synchronous state copy and is not write-classified")
		}
	}
	// the asynchronous trigger (SAVE) must stay asynchronous
	ts := w.Binding().Field["TakeSnapshot"]
	if ts != nil {
		n++
		key := world.FuncName(ts) + "|async"
		direct := false
		for _, c := range world.Calls(ts) {
			if _, isGo := c.(*ssa.Go); isGo {
				continue
			}
			if f := c.Common().StaticCallee(); f != nil && world.BaseName(f) == "TakeSnapshot" {
				direct = true
			}
		}
		if direct {
			r.Fail(key, w.Pos(ts.Pos()), "the snapshot trigger bound to TakeSnapshot takes the snapshot on the command's own goroutine: a write-classified or flag-holding caller would wait on its own state copy")
		} else {
			r.OK(key, w.Pos(ts.Pos()), "the snapshot is taken on a separate goroutine")
		}
	}
	if n == 0 {
		r.Und("anchors", "-", "no command reaches RewriteAOF / TakeSnapshot")
	}
}

func ruleGM(w *world.World, r *report.RuleResult) {
	gm := w.Func("internal.(*KeyData).GetMem")
	if gm == nil {
		r.Err = fmt.Errorf("internal.(*KeyData).GetMem not found")
		return
	}
	// cases of the type switches: asserted types, split into top level (operand derives from the Value
	// field) and inner (operand is a map element)
	top, inner := map[string]bool{}, map[string]bool{}
	ifaceTop := []types.Type{}
	for _, b := range gm.Blocks {
		for _, in := range b.Instrs {
			ta, ok := in.(*ssa.TypeAssert)
			if !ok {
				continue
			}
			isTop := derivesFrom(ta.X, func(v ssa.Value) bool {
				fa, ok := v.(*ssa.FieldAddr)
				return ok && world.FieldName(fa) == "Value"
			}, 0) && !derivesFrom(ta.X, func(v ssa.Value) bool { _, ok := v.(*ssa.Next); return ok }, 0)
			name := shortType(ta.AssertedType.String())
			if isTop {
				top[name] = true
				if _, isIface := ta.AssertedType.Underlying().(*types.Interface); isIface {
					ifaceTop = append(ifaceTop, ta.AssertedType)
				}
			} else {
				inner[name] = true
			}
		}
	}
	// encoder table from E8's collection
	e8 := Run(w, "E8")
	if e8.Err != nil {
		r.Err = e8.Err
		return
	}
	for _, ob := range e8.Obs {
		if !strings.Contains(ob.Key, "|stored-") {
			continue
		}
		kind := "value"
		tname := ""
		if i := strings.Index(ob.Key, "stored-hash-value:"); i >= 0 {
			kind, tname = "hash-value", ob.Key[i+len("stored-hash-value:"):]
		} else if i := strings.Index(ob.Key, "stored-value:"); i >= 0 {
			tname = ob.Key[i+len("stored-value:"):]
		}
		key := "GetMem|" + kind + ":" + tname
		covered := false
		if kind == "value" {
			covered = top[tname] || top[strings.ReplaceAll(tname, "interface{}", "any")]
			if !covered && strings.HasPrefix(tname, "*") {
				// pointer types implementing an interface case (constants.CompositeType)
				for _, it := range ifaceTop {
					if implementsByName(w, tname, it) {
						covered = true
					}
				}
			}
		} else {
			covered = inner[tname]
		}
		if covered {
			r.OK(key, w.Pos(gm.Pos()), "stored type has a case in the size function")
		} else {
			r.Fail(key, w.Pos(gm.Pos()), fmt.Sprintf("values of type %s are stored (%s) but KeyData.GetMem has no case for them: setValues fails after the entry was already written (or the value is accounted as size 0), so the reported usage no longer follows the dataset", tname, kind))
		}
	}
}

func implementsByName(w *world.World, tname string, iface types.Type) bool {
	it, ok := iface.Underlying().(*types.Interface)
	if !ok {
		return false
	}
	for _, p := range w.Pkgs {
		sc := p.Types.Scope()
		for _, n := range sc.Names() {
			tn, ok := sc.Lookup(n).(*types.TypeName)
			if !ok {
				continue
			}
			pt := types.NewPointer(tn.Type())
			if shortType(pt.String()) == tname && types.Implements(pt, it) {
				return true
			}
		}
	}
	return false
}

func ruleN4(w *world.World, r *report.RuleResult) {
	n := 0
	for _, fn := range w.FuncsIn("sugardb") {
		if strings.Contains(w.Pos(fn.Pos()), "_test.go") || constructorPhase(fn) != "" {
			continue
		}
		for _, b := range fn.Blocks {
			for _, in := range b.Instrs {
				mu, ok := in.(*ssa.MapUpdate)
				if !ok || lockset.Path(mu.Map) != "sugardb.SugarDB.connInfo.tcpClients" {
					continue
				}
				n++
				key := world.FuncName(fn) + "|tcpClients[conn]"
				isConnParam := func(v ssa.Value) bool {
					switch x := v.(type) {
					case *ssa.Parameter:
						return true
					case *ssa.Alloc:
						return strings.Contains(x.Comment, "conn")
					}
					return false
				}
				isRange := func(v ssa.Value) bool {
					ex, ok := v.(*ssa.Extract)
					if !ok {
						return false
					}
					nx, ok := ex.Tuple.(*ssa.Next)
					if !ok {
						return false
					}
					rg, ok := nx.Iter.(*ssa.Range)
					return ok && lockset.Path(rg.X) == "sugardb.SugarDB.connInfo.tcpClients"
				}
				switch {
				case derivesFromNoArith(mu.Key, isRange):
					r.OK(key, w.InstrPos(in), "updated inside a loop over all connections")
				case derivesFrom(mu.Key, isConnParam, 0):
					r.OK(key, w.InstrPos(in), "updated for the connection passed in (the one the command arrived on / the new connection)")
				default:
					r.Fail(key, w.InstrPos(in), "the connection table is updated under a key that is not the current connection: SELECT/HELLO of one client changes another client's database or protocol")
				}
			}
		}
	}
	if n == 0 {
		r.Und("anchors", "-", "no update of the connection table found")
	}
}

func ruleOA(w *world.World, r *report.RuleResult) {
	const (
		oWRONLY = 0x1
		oRDWR   = 0x2
		oAPPEND = 0x400
		oCREATE = 0x40
		oTRUNC  = 0x200
	)
	for _, it := range []struct{ fn, file string }{{"internal/aof/log.NewAppendStore", "log.aof"}, {"internal/aof/preamble.NewPreambleStore", "preamble.bin"}} {
		fn := w.Func(it.fn)
		if fn == nil {
			r.Und(it.fn, "-", it.fn+" not found")
			continue
		}
		found := false
		for _, c := range world.Calls(fn) {
			f := c.Common().StaticCallee()
			if f == nil || f.String() != "os.OpenFile" {
				continue
			}
			var cs []string
			constStrings(c.Common().Args[0], 0, &cs)
			match := false
			for _, s := range cs {
				if s == it.file {
					match = true
				}
			}
			if !match {
				continue
			}
			found = true
			key := it.fn + "|open-flags:" + it.file
			fl, ok := world.ConstInt(c.Common().Args[1])
			if !ok {
				r.Und(key, w.InstrPos(c), "open flags are not a constant")
				continue
			}
			switch it.file {
			case "log.aof":
				if fl&oAPPEND != 0 && fl&oCREATE != 0 && fl&oTRUNC == 0 && fl&(oRDWR|oWRONLY) != 0 {
					r.OK(key, w.InstrPos(c), "O_APPEND|O_CREATE, writable, not truncating")
				} else {
					r.Fail(key, w.InstrPos(c), fmt.Sprintf("the AOF log is opened with flags %#x: without O_APPEND (or with O_TRUNC) a server started without AOF restore writes at offset 0 and overwrites the head of the existing log, destroying acknowledged writes", fl))
				}
			default:
				if fl&oTRUNC == 0 && fl&oRDWR != 0 && fl&oCREATE != 0 {
					r.OK(key, w.InstrPos(c), "O_RDWR|O_CREATE, not truncating")
				} else {
					r.Fail(key, w.InstrPos(c), fmt.Sprintf("the preamble is opened with flags %#x: O_TRUNC would erase the compacted dataset at every start-up", fl))
				}
			}
		}
		if !found {
			r.Fail(it.fn+"|open-flags:"+it.file, w.Pos(fn.Pos()), "the default "+it.file+" is no longer opened with os.OpenFile")
		}
	}
}


// ---- SA ----

// ruleSA: the admin commands answer OK when the bound function returns nil. A nil return that is
// not preceded on every path by the engine call means "SAVE said OK and nothing was saved".
func ruleSA(w *world.World, r *report.RuleResult) {
	type tgt struct {
		field   string
		engines []string
		what    string
	}
	for _, t := range []tgt{
		{"TakeSnapshot", []string{"internal/snapshot.(*Engine).TakeSnapshot", "internal/raft.(*Raft).TakeSnapshot"}, "snapshot"},
		{"RewriteAOF", []string{"internal/aof.(*Engine).RewriteLog"}, "log rewrite"},
	} {
		fn := w.Binding().Field[t.field]
		if fn == nil {
			r.Fail("binding|"+t.field, "", "HandlerFuncParams."+t.field+" is not bound to a module function")
			continue
		}
		name := world.FuncName(fn)
		reaches := func(f *ssa.Function) bool {
			if f == nil {
				return false
			}
			for _, e := range t.engines {
				if world.FuncName(f) == e || reachesFunc(w, f, e) {
					return true
				}
			}
			return false
		}
		const STARTED world.Facts = 1
		gen := func(in ssa.Instruction) world.Facts {
			c, ok := in.(ssa.CallInstruction)
			if !ok {
				return 0
			}
			if _, isDefer := in.(*ssa.Defer); isDefer {
				return 0
			}
			var callees []*ssa.Function
			if f := c.Common().StaticCallee(); f != nil {
				callees = append(callees, f)
			} else if mc, ok := c.Common().Value.(*ssa.MakeClosure); ok {
				callees = append(callees, mc.Fn.(*ssa.Function))
			}
			for _, f := range callees {
				if reaches(f) {
					return STARTED
				}
			}
			return 0
		}
		must := world.Must(fn, nil, gen, nil)
		n := 0
		for _, ret := range world.Returns(fn) {
			rv := world.RetVals(ret)
			if len(rv) != 1 {
				continue
			}
			// `return engine.RewriteLog()`: the engine's verdict is the result
			if c, ok := rv[0].(*ssa.Call); ok && gen(c) != 0 {
				n++
				r.OK(fmt.Sprintf("%s|success-implies-started#%d", name, n), w.InstrPos(ret), "returns the engine's own result")
				continue
			}
			if !world.IsNilConst(rv[0]) {
				continue
			}
			n++
			key := fmt.Sprintf("%s|success-implies-started#%d", name, n)
			if world.FactsAt(must, ret, gen, nil)&STARTED != 0 {
				r.OK(key, w.InstrPos(ret), "success is reported only after the "+t.what+" was started")
			} else {
				r.Fail(key, w.InstrPos(ret), fmt.Sprintf("%s can return nil (the command replies OK) on a path that never starts the %s: the client is told the data was saved while the files on disk still describe an older dataset - whatever the skipped condition is based on (a change counter, a timestamp), changes it does not see (deletes, expiry changes, flushes) are lost on restart", name, t.what))
			}
		}
		if n == 0 {
			r.Fail(name+"|success-implies-started", w.Pos(fn.Pos()), name+" has no success return")
		}
	}
}
