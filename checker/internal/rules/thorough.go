package rules

import (
	"svcheck/internal/report"
	"svcheck/internal/world"
)

// Thorough adds the thorough-tier obligations of a property (filled in by thorough_*.go).
func Thorough(w *world.World, p *Prop, verifDir string) []*report.RuleResult {
	var out []*report.RuleResult
	for _, f := range thoroughHooks {
		if r := f(w, p, verifDir); r != nil {
			out = append(out, r...)
		}
	}
	return out
}

var thoroughHooks []func(w *world.World, p *Prop, verifDir string) []*report.RuleResult
