package rules

import (
	"encoding/json"
	"fmt"
	"os"
	"os/exec"
	"path/filepath"
	"sort"
	"strings"
	"sync"

	"svcheck/internal/report"
	"svcheck/internal/world"
)

// Thorough tier (DESIGN.md section 2): on top of the quick rules
//  (a) every seeded single-site mutant registered for the property (/verif/mutants/*.json) is
//      applied to a scratch copy of /repo's current tree and must be reported by the named rule;
//  (b) the property's rules are re-run with the CHA call graph (a strict over-approximation of
//      VTA); obligations discharged under VTA but not under CHA are listed (informational).
//
// A mutant whose text no longer matches the current tree is skipped and counted. A mutant that
// applies and is not reported is a defect of the checker: SELFTEST-FAIL, exit status 2.

type mutantSpec struct {
	ID         string     `json:"id"`
	Properties []string   `json:"properties"`
	Rule       string     `json:"rule"`
	Expect     string     `json:"expect"` // substring of the key of the finding the rule must report
	Edits      [][]string `json:"edits"`  // [file, old, new] or [file, old, new, nth]
	Patch      string     `json:"patch"`  // alternatively: a unified diff (path relative to /verif), applied with patch -p1
	What       string     `json:"what"`
}

type ruleJSON struct {
	Error string      `json:"error"`
	Obs   []report.Ob `json:"obs"`
}

func runRuleOn(repo, rule string, extraEnv ...string) (*ruleJSON, error) {
	exe, err := os.Executable()
	if err != nil {
		return nil, err
	}
	cmd := exec.Command(exe, "-rule", rule, "-json")
	cmd.Env = append(os.Environ(), "SVCHECK_REPO="+repo)
	cmd.Env = append(cmd.Env, extraEnv...)
	out, err := cmd.Output()
	if err != nil {
		return nil, fmt.Errorf("svcheck -rule %s on %s: %v", rule, repo, err)
	}
	var rj ruleJSON
	// the JSON is the last line
	lines := strings.Split(strings.TrimSpace(string(out)), "\n")
	if err := json.Unmarshal([]byte(lines[len(lines)-1]), &rj); err != nil {
		return nil, err
	}
	return &rj, nil
}

func applyMutant(m mutantSpec, src string) (dir string, applied bool, err error) {
	dir, err = os.MkdirTemp(os.Getenv("TMPDIR"), "svmut.")
	if err != nil {
		return "", false, err
	}
	cp := exec.Command("rsync", "-a", "--exclude", ".git", src+"/", dir+"/")
	if out, err := cp.CombinedOutput(); err != nil {
		return dir, false, fmt.Errorf("copy: %v %s", err, out)
	}
	if m.Patch != "" {
		pf := m.Patch
		if !filepath.IsAbs(pf) {
			pf = filepath.Join(mutantVerifDir, pf)
		}
		pc := exec.Command("patch", "-p1", "-s", "--no-backup-if-mismatch", "-i", pf)
		pc.Dir = dir
		if _, err := pc.CombinedOutput(); err != nil {
			return dir, false, nil // does not apply to the current tree: skipped
		}
		return dir, true, nil
	}
	for _, e := range m.Edits {
		if len(e) < 3 {
			return dir, false, fmt.Errorf("bad edit")
		}
		nth := 1
		if len(e) >= 4 {
			fmt.Sscanf(e[3], "%d", &nth)
		}
		path := filepath.Join(dir, e[0])
		b, err := os.ReadFile(path)
		if err != nil {
			return dir, false, nil
		}
		parts := strings.Split(string(b), e[1])
		if len(parts) <= nth {
			return dir, false, nil // text no longer present: skipped
		}
		s := strings.Join(parts[:nth], e[1]) + e[2] + strings.Join(parts[nth:], e[1])
		if err := os.WriteFile(path, []byte(s), 0o644); err != nil {
			return dir, false, err
		}
	}
	return dir, true, nil
}

var mutantVerifDir = "/verif"

func loadMutants(verifDir string) ([]mutantSpec, error) {
	mutantVerifDir = verifDir
	files, _ := filepath.Glob(filepath.Join(verifDir, "mutants", "*.json"))
	sort.Strings(files)
	var all []mutantSpec
	for _, f := range files {
		b, err := os.ReadFile(f)
		if err != nil {
			return nil, err
		}
		var ms []mutantSpec
		if err := json.Unmarshal(b, &ms); err != nil {
			return nil, fmt.Errorf("%s: %v", f, err)
		}
		all = append(all, ms...)
	}
	return all, nil
}

func thoroughMutants(w *world.World, p *Prop, verifDir string) []*report.RuleResult {
	res := &report.RuleResult{Rule: "MUT", SelfTest: true, Note: "self-test: seeded single-site mutants of the current tree (scratch copies) must each be reported by the named rule"}
	all, err := loadMutants(verifDir)
	if err != nil {
		res.Err = err
		return []*report.RuleResult{res}
	}
	var mine []mutantSpec
	for _, m := range all {
		for _, pid := range m.Properties {
			if pid == p.ID {
				mine = append(mine, m)
			}
		}
	}
	type outcome struct {
		m      mutantSpec
		status report.Status
		msg    string
	}
	outs := make([]outcome, len(mine))
	sem := make(chan struct{}, 5)
	var wg sync.WaitGroup
	for i, m := range mine {
		wg.Add(1)
		go func(i int, m mutantSpec) {
			defer wg.Done()
			sem <- struct{}{}
			defer func() { <-sem }()
			o := outcome{m: m}
			dir, applied, err := applyMutant(m, w.Repo)
			if dir != "" {
				defer os.RemoveAll(dir)
			}
			switch {
			case err != nil:
				o.status, o.msg = report.Undecided, "could not prepare the mutant: "+err.Error()
			case !applied:
				o.status, o.msg = report.NotDecided, "the mutated text is no longer present in the current tree: skipped"
			default:
				rj, err := runRuleOn(dir, m.Rule)
				if err != nil {
					o.status, o.msg = report.Undecided, err.Error()
					break
				}
				hit := rj.Error != "" && strings.Contains(rj.Error, "load/type errors")
				if hit {
					o.status, o.msg = report.NotDecided, "mutant does not compile on the current tree: skipped"
					break
				}
				found := ""
				for _, ob := range rj.Obs {
					if (ob.St == "finding" || ob.St == "undecided") && strings.Contains(ob.Key, m.Expect) {
						found = ob.Key
					}
				}
				if rj.Error != "" && found == "" {
					found = "rule error: " + rj.Error
				}
				if found != "" {
					o.status, o.msg = report.Discharged, fmt.Sprintf("%s: reported by %s as %s", m.What, m.Rule, found)
				} else {
					o.status, o.msg = report.Finding, fmt.Sprintf("%s: applied to a scratch copy, rule %s did not report a finding matching %q", m.What, m.Rule, m.Expect)
				}
			}
			outs[i] = o
		}(i, m)
	}
	wg.Wait()
	for _, o := range outs {
		res.Add(o.status, "mutant:"+o.m.ID, strings.Join(firstEdit(o.m), ":"), o.msg)
	}
	return []*report.RuleResult{res}
}

func firstEdit(m mutantSpec) []string {
	if len(m.Edits) > 0 && len(m.Edits[0]) > 0 {
		return []string{m.Edits[0][0]}
	}
	return nil
}

// thoroughCHA re-runs the property's rules under the CHA call graph and lists the obligations
// whose verdict differs (informational: CHA over-approximates, so extra findings are expected to
// be resolution artefacts; a finding that disappears would be a VTA soundness question).
func thoroughCHA(w *world.World, p *Prop, verifDir string) []*report.RuleResult {
	res := &report.RuleResult{Rule: "CHA", SelfTest: true, Note: "cross-check: the property's call-graph dependent rules re-run with CHA instead of VTA; differing verdicts are listed, not judged"}
	cgRules := map[string]bool{"L1": true, "L2": true, "P1": true, "DT": true, "N1": true}
	for _, rr := range p.Rules {
		if !cgRules[rr.ID] {
			continue
		}
		vt := Run(w, rr.ID)
		rj, err := runRuleOn(w.Repo, rr.ID, "SVCHECK_CG=cha")
		if err != nil {
			res.Skip("rule:"+rr.ID, "-", "CHA re-run failed: "+err.Error())
			continue
		}
		st := map[string]string{}
		for _, ob := range rj.Obs {
			st[ob.Key] = ob.St
		}
		diff := 0
		for _, ob := range vt.Obs {
			if s, ok := st[ob.Key]; ok && s != ob.St {
				diff++
				res.Skip(fmt.Sprintf("rule:%s|%s", rr.ID, ob.Key), ob.Pos, fmt.Sprintf("VTA: %s, CHA: %s", ob.St, s))
			}
		}
		res.OK("rule:"+rr.ID, "-", fmt.Sprintf("re-run under CHA: %d obligations, %d with a different verdict (listed as not-decided entries)", len(rj.Obs), diff))
	}
	return []*report.RuleResult{res}
}

var thoroughHooks []func(w *world.World, p *Prop, verifDir string) []*report.RuleResult

// Thorough adds the thorough-tier results of a property.
func Thorough(w *world.World, p *Prop, verifDir string) []*report.RuleResult {
	var out []*report.RuleResult
	for _, f := range []func(w *world.World, p *Prop, verifDir string) []*report.RuleResult{thoroughMutants, thoroughCHA} {
		if r := f(w, p, verifDir); r != nil {
			out = append(out, r...)
		}
	}
	return out
}
