package rules

import (
	"fmt"
	"strings"

	"golang.org/x/tools/go/ssa"

	"svcheck/internal/report"
	"svcheck/internal/world"
)

func init() {
	register("RK", 3, "raft snapshot sink typestate: for a raft.SnapshotSink Close() commits the attempt (it publishes the snapshot as the newest one and reaps older ones) and Cancel() discards it; a function that is handed a sink never commits it on a path on which it reports failure - no deferred Close in a function that can return an error, and no Close before an error return other than the return of Close's own error", ruleRK)
}

func ruleRK(w *world.World, r *report.RuleResult) {
	isSink := func(v ssa.Value) bool {
		return v != nil && world.TypeIs(v.Type(), "hashicorp/raft", "SnapshotSink")
	}
	const fClosed world.Facts = 1
	for _, fn := range w.ModFns {
		if fn.Parent() != nil || strings.Contains(w.Pos(fn.Pos()), "_test.go") {
			continue
		}
		var sink *ssa.Parameter
		for _, p := range fn.Params {
			if isSink(p) {
				sink = p
			}
		}
		if sink == nil || fn.Blocks == nil {
			continue
		}
		res := fn.Signature.Results()
		if res.Len() == 0 || !world.IsErrorType(res.At(res.Len()-1).Type()) {
			continue
		}
		name := world.FuncName(fn)
		// the sink itself or a closure's capture of it
		var isTheSink func(v ssa.Value) bool
		isTheSink = func(v ssa.Value) bool {
			switch x := v.(type) {
			case *ssa.Parameter:
				return x == sink
			case *ssa.FreeVar:
				if b := freeVarBinding(x); b != nil {
					return isTheSink(b)
				}
			case *ssa.UnOp:
				return isTheSink(x.X)
			case *ssa.Alloc:
				// a captured parameter is spilled to a local
				if x.Referrers() != nil {
					for _, ref := range *x.Referrers() {
						if st, ok := ref.(*ssa.Store); ok && st.Addr == ssa.Value(x) && isTheSink(st.Val) {
							return true
						}
					}
				}
			}
			return false
		}
		closesSink := func(c *ssa.CallCommon) bool {
			return c.IsInvoke() && c.Method.Name() == "Close" && isTheSink(c.Value)
		}
		var fnCloses func(f *ssa.Function, depth int) bool
		fnCloses = func(f *ssa.Function, depth int) bool {
			if f == nil || depth > 3 {
				return false
			}
			for _, c := range world.Calls(f) {
				if closesSink(c.Common()) {
					return true
				}
			}
			return false
		}
		// (1) deferred commits
		var deferred ssa.Instruction
		for _, b := range fn.Blocks {
			for _, in := range b.Instrs {
				d, ok := in.(*ssa.Defer)
				if !ok {
					continue
				}
				if closesSink(&d.Call) {
					deferred = d
				} else if mc, ok := d.Call.Value.(*ssa.MakeClosure); ok && fnCloses(mc.Fn.(*ssa.Function), 0) {
					deferred = d
				} else if f := d.Call.StaticCallee(); f != nil && world.InModule(f) {
					for _, a := range d.Call.Args {
						if isTheSink(a) {
							for _, c := range world.Calls(f) {
								cc := c.Common()
								if cc.IsInvoke() && cc.Method.Name() == "Close" && isSink(cc.Value) {
									deferred = d
								}
							}
						}
					}
				}
			}
		}
		// (2) explicit commits before error returns
		var closeCalls []ssa.Value
		gen := func(in ssa.Instruction) world.Facts {
			if c, ok := in.(*ssa.Call); ok && closesSink(&c.Call) {
				return fClosed
			}
			return 0
		}
		for _, c := range world.Calls(fn) {
			if v, ok := c.(*ssa.Call); ok && closesSink(&v.Call) {
				closeCalls = append(closeCalls, v)
			}
		}
		may := world.May(fn, nil, gen, nil)
		// the first of Close/Cancel wins (both are idempotent through one flag)
		genDone := func(in ssa.Instruction) world.Facts {
			if c, ok := in.(*ssa.Call); ok && c.Call.IsInvoke() && (c.Call.Method.Name() == "Cancel" || c.Call.Method.Name() == "Close") && isTheSink(c.Call.Value) {
				return fClosed
			}
			return 0
		}
		mustDone := world.Must(fn, nil, genDone, nil)
		n := 0
		for _, ret := range world.Returns(fn) {
			if ret.Block() == fn.Recover {
				continue
			}
			rvs := world.RetVals(ret)
			ev := rvs[len(rvs)-1]
			if world.IsNilConst(ev) {
				continue
			}
			if isNil, known := world.NilnessAt(ev, ret.Block()); known && isNil {
				continue
			}
			n++
			key := fmt.Sprintf("%s|error-return#%d:sink-not-committed", name, n)
			pos := w.InstrPos(ret)
			if deferred != nil && world.FactsAt(mustDone, ret, genDone, nil)&fClosed == 0 {
				r.Fail(key, pos, fmt.Sprintf("%s can return an error here, and its deferred call at %s closes the snapshot sink: Close() commits, so a failed snapshot attempt is published as the newest snapshot (the later Cancel is a no-op) and the previous good snapshot is shadowed or reaped", name, w.InstrPos(deferred)))
				continue
			}
			if world.FactsAt(may, ret, gen, nil)&fClosed != 0 {
				own := false
				for _, cc := range closeCalls {
					if ev == cc || world.ErrSource(ev) == cc {
						own = true
					}
				}
				if !own {
					r.Fail(key, pos, fmt.Sprintf("%s can return an error here after it closed (committed) the snapshot sink: the attempt is reported as failed although it was published", name))
					continue
				}
			}
			r.OK(key, pos, "the sink is not committed on this failing path")
		}
	}
}
