package rules

import (
	"fmt"
	"go/token"
	"strings"

	"golang.org/x/tools/go/ssa"

	"svcheck/internal/report"
	"svcheck/internal/world"
)

func init() {
	register("RB", 2, "raft log data is owned by raft: hashicorp/raft keeps the byte slice passed to Apply as the log entry's data (in the log cache, re-read whenever the entry is sent to a follower), so the slice handed to Apply is a fresh allocation of this call (the result of json.Marshal, or the bytes of a buffer local to the call) - not the bytes of a buffer that is put back into a pool, kept in a field or otherwise reused: a later request would overwrite entries that lagging or joining replicas have not been sent yet", ruleRB)
}

func ruleRB(w *world.World, r *report.RuleResult) {
	n := 0
	for _, fn := range w.ModFns {
		if strings.Contains(w.Pos(fn.Pos()), "_test.go") || world.ShortPkg(world.PkgOf(fn)) != "sugardb" {
			continue
		}
		for _, c := range world.Calls(fn) {
			f := c.Common().StaticCallee()
			if f == nil || f.Name() != "Apply" || f.Signature.Recv() == nil || !strings.Contains(f.Signature.Recv().Type().String(), "raft.Raft") || len(c.Common().Args) < 2 {
				continue
			}
			n++
			name := world.FuncName(fn)
			key := fmt.Sprintf("%s|apply-data-is-fresh", name)
			why, ok := freshBytes(c.Common().Args[1], fn, map[ssa.Value]bool{})
			if ok {
				r.OK(key, w.InstrPos(c), why)
			} else {
				r.Fail(key, w.InstrPos(c), fmt.Sprintf("%s hands raft.Apply %s: raft keeps that slice as the log entry and re-reads it when it sends the entry to a follower, so the next request that reuses the memory rewrites earlier, already acknowledged entries for every replica that has not received them yet (a lagging follower, a node that joins later)", name, why))
			}
		}
	}
	if n == 0 {
		r.Fail("sugardb|apply-data-is-fresh", "", "no call of the raft layer's Apply was found in package sugardb")
	}
}

// freshBytes: v is a byte slice allocated for this call only.
func freshBytes(v ssa.Value, fn *ssa.Function, seen map[ssa.Value]bool) (string, bool) {
	if v == nil || seen[v] {
		return "a value that could not be traced", false
	}
	seen[v] = true
	switch x := v.(type) {
	case *ssa.Extract:
		return freshBytes(x.Tuple, fn, seen)
	case *ssa.Phi:
		for _, e := range x.Edges {
			if why, ok := freshBytes(e, fn, seen); !ok {
				return why, false
			}
		}
		return "fresh on every path", true
	case *ssa.Slice:
		return freshBytes(x.X, fn, seen)
	case *ssa.MakeSlice:
		return "a slice made in this call", true
	case *ssa.Convert:
		return "a conversion (copies)", true
	case *ssa.UnOp:
		if x.Op == token.MUL {
			if al, ok := x.X.(*ssa.Alloc); ok {
				for _, ref := range *al.Referrers() {
					if st, ok := ref.(*ssa.Store); ok && st.Addr == ssa.Value(al) {
						if why, ok := freshBytes(st.Val, fn, seen); !ok {
							return why, false
						}
					}
				}
				return "a local variable holding fresh slices", true
			}
		}
		return "a value loaded from " + exprString(x.X) + " (memory that outlives the call)", false
	case *ssa.Call:
		f := x.Call.StaticCallee()
		if f == nil {
			return "the result of a dynamic call", false
		}
		switch f.String() {
		case "encoding/json.Marshal", "encoding/json.MarshalIndent", "bytes.Clone", "slices.Clone":
			return "the result of " + f.String() + " (a new slice per call)", true
		case "(*bytes.Buffer).Bytes":
			// the buffer must be local to the call and must not be handed to a pool
			recv := x.Call.Args[0]
			al, ok := recv.(*ssa.Alloc)
			if !ok {
				return "the bytes of a buffer that is not local to the call (" + exprString(recv) + ": a pooled or shared buffer)", false
			}
			for _, ref := range *al.Referrers() {
				if c, ok := ref.(ssa.CallInstruction); ok {
					if g := c.Common().StaticCallee(); g != nil && g.String() == "(*sync.Pool).Put" {
						return "the bytes of a buffer that is put back into a sync.Pool", false
					}
				}
				if mi, ok := ref.(*ssa.MakeInterface); ok && mi.Referrers() != nil {
					for _, r2 := range *mi.Referrers() {
						if c, ok := r2.(ssa.CallInstruction); ok {
							if g := c.Common().StaticCallee(); g != nil && g.String() == "(*sync.Pool).Put" {
								return "the bytes of a buffer that is put back into a sync.Pool", false
							}
						}
					}
				}
			}
			return "the bytes of a buffer local to the call", true
		}
		if world.InModule(f) && f.Blocks != nil {
			for _, ret := range world.Returns(f) {
				for _, rv := range world.RetVals(ret) {
					if !world.IsErrorType(rv.Type()) {
						if strings.HasPrefix(rv.Type().String(), "[]") {
							if why, ok := freshBytes(rv, f, seen); !ok {
								return why, false
							}
						}
					}
				}
			}
			return "the result of a module helper that returns fresh slices", true
		}
		return "the result of " + f.String(), false
	}
	return "a value of kind " + fmt.Sprintf("%T", v), false
}
