package rules

import (
	"fmt"
	"strings"

	"golang.org/x/tools/go/ssa"

	"svcheck/internal/report"
	"svcheck/internal/world"
)

func init() {
	register("ED", 10, "failures of the persistence layer are reported: in the snapshot, AOF and raft-FSM code a function that returns error does not return nil on the failure edge of a call it has just tested (a failed read, write, sync, decode or rename must not be turned into success: the caller would truncate the log, publish the manifest or start serving an empty dataset on the strength of it)", ruleED)
}

// ruleED: for every function with an error result in the persistence packages: a `return nil` whose
// block is dominated by the err != nil edge of a tested call result (entered only from there), unless a
// dominating test on the way classifies the error (errors.Is / errors.As / os.IsNotExist / == io.EOF),
// is a finding.
func ruleED(w *world.World, r *report.RuleResult) {
	inScope := func(fn *ssa.Function) bool {
		pk := world.ShortPkg(world.PkgOf(fn))
		return strings.HasPrefix(pk, "internal/aof") || pk == "internal/snapshot" || pk == "internal/raft"
	}
	classifies := func(cond ssa.Value) bool {
		found := false
		var walk func(v ssa.Value, d int)
		walk = func(v ssa.Value, d int) {
			if d > 4 || v == nil || found {
				return
			}
			switch x := v.(type) {
			case *ssa.Call:
				if f := x.Call.StaticCallee(); f != nil {
					switch f.String() {
					case "errors.Is", "errors.As", "os.IsNotExist", "os.IsExist", "os.IsPermission":
						found = true
					}
				}
			case *ssa.BinOp:
				// err == io.EOF and the like: comparison with a global error value
				for _, o := range []ssa.Value{x.X, x.Y} {
					if u, ok := o.(*ssa.UnOp); ok {
						if _, isG := u.X.(*ssa.Global); isG {
							found = true
						}
					}
				}
				walk(x.X, d+1)
				walk(x.Y, d+1)
			case *ssa.UnOp:
				walk(x.X, d+1)
			}
		}
		walk(cond, 0)
		return found
	}
	n := 0
	for _, fn := range w.ModFns {
		if !inScope(fn) || strings.Contains(w.Pos(fn.Pos()), "_test.go") {
			continue
		}
		res := fn.Signature.Results()
		if res.Len() == 0 || !world.IsErrorType(res.At(res.Len()-1).Type()) {
			continue
		}
		name := world.FuncName(fn)
		k := 0
		for _, ret := range world.Returns(fn) {
			rv := world.RetVals(ret)
			if len(rv) == 0 || !world.IsNilConst(rv[len(rv)-1]) {
				continue
			}
			n++
			// walk up the dominators: the nearest error test whose failure edge leads here
			b := ret.Block()
			var bad ssa.Instruction
			classified := false
			for d := b; d != nil; d = d.Idom() {
				iff := world.IfOf(d)
				if iff == nil || d == b || len(d.Succs) != 2 {
					continue
				}
				through := func(s *ssa.BasicBlock) bool { return len(s.Preds) == 1 && (s == b || s.Dominates(b)) }
				if classifies(iff.Cond) && (through(d.Succs[0]) || through(d.Succs[1])) {
					classified = true
					break
				}
				x, eq, ok := world.NilTest(iff.Cond)
				if !ok || !world.IsErrorType(x.Type()) {
					continue
				}
				src := world.ErrSource(x)
				if src == nil {
					continue
				}
				failEdge := d.Succs[0]
				if eq {
					failEdge = d.Succs[1]
				}
				if through(failEdge) {
					bad = iff
				}
				break
			}
			if bad == nil || classified {
				continue
			}
			k++
			r.Fail(fmt.Sprintf("%s|failure-reported#%d", name, k), w.InstrPos(ret), fmt.Sprintf("%s returns nil (success) on the failure edge of the error test at %s: the failed step is reported as done, and the caller goes on as if the data had been read / written", name, w.InstrPos(bad)))
		}
		if k == 0 {
			r.OK(name+"|failure-reported", w.Pos(fn.Pos()), "no nil return on the failure edge of a tested call")
		}
	}
	if n == 0 {
		r.Fail("ED|anchor", "", "no error-returning function with a success return found in the persistence packages")
	}
}

var _ = report.Discharged
