package rules

import (
	"fmt"
	"go/token"
	"go/types"
	"strings"

	"golang.org/x/tools/go/ssa"

	"svcheck/internal/report"
	"svcheck/internal/world"
)

func init() {
	register("CD", 3, "creating a database is check-and-act in one critical section: createDatabase(d) installs a fresh key map, volatile-key list and caches for d without touching the memory counter, so it is called only where the same function found store[d] == nil and has not released a lock since it looked - a test made under a read lock that is released before the write lock is taken (double-checked locking without the second check), or one test for two databases, re-creates a database that another connection has just created and filled: its keys vanish and their size stays in the counter", ruleCD)
}

func ruleCD(w *world.World, r *report.RuleResult) {
	const (
		MISSING world.Facts = 1 << iota
		FRESH
	)
	n := map[string]int{}
	total := 0
	for _, fn := range w.FuncsIn("sugardb") {
		if strings.Contains(w.Pos(fn.Pos()), "_test.go") || fn.Blocks == nil {
			continue
		}
		for _, c := range world.Calls(fn) {
			f := c.Common().StaticCallee()
			if f == nil || world.BaseName(f) != "createDatabase" {
				continue
			}
			var idx ssa.Value
			for _, a := range c.Common().Args {
				if b, ok := a.Type().Underlying().(*types.Basic); ok && b.Kind() == types.Int {
					idx = a
				}
			}
			if idx == nil {
				continue
			}
			total++
			name := world.FuncName(fn)
			n[name]++
			key := fmt.Sprintf("%s|createDatabase#%d", name, n[name])
			root := world.Unwrap(idx)
			same := func(v ssa.Value) bool {
				v = world.Unwrap(v)
				return v == root || world.SameExpr(v, root)
			}
			isLookup := func(v ssa.Value) bool {
				lk, ok := v.(*ssa.Lookup)
				return ok && !lk.CommaOk && isPerDBOuter(lk.X) && onPath(lk.X, pStore) && same(lk.Index)
			}
			eg := func(b *ssa.BasicBlock, si int) world.Facts {
				iff := world.IfOf(b)
				if iff == nil {
					return 0
				}
				cv := world.CondValue(iff)
				neg := false
				for {
					u, ok := cv.(*ssa.UnOp)
					if !ok || u.Op != token.NOT {
						break
					}
					cv, neg = u.X, !neg
				}
				if x, eqNil, ok := world.NilTest(cv); ok && isLookup(x) {
					nilEdge := 0
					if !eqNil {
						nilEdge = 1
					}
					if neg {
						nilEdge = 1 - nilEdge
					}
					if si == nilEdge {
						return MISSING
					}
				}
				// _, ok := store[d]: the not-found edge
				if ex, ok := cv.(*ssa.Extract); ok && ex.Index == 1 {
					if lk, ok := ex.Tuple.(*ssa.Lookup); ok && lk.CommaOk && isPerDBOuter(lk.X) && onPath(lk.X, pStore) && same(lk.Index) {
						missEdge := 1
						if neg {
							missEdge = 0
						}
						if si == missEdge {
							return MISSING
						}
					}
				}
				return 0
			}
			gen := func(in ssa.Instruction) world.Facts {
				if v, ok := in.(ssa.Value); ok && isLookup(v) {
					return FRESH
				}
				if lk, ok := in.(*ssa.Lookup); ok && lk.CommaOk && isPerDBOuter(lk.X) && onPath(lk.X, pStore) && same(lk.Index) {
					return FRESH
				}
				return 0
			}
			kill := func(in ssa.Instruction) world.Facts {
				ci, ok := in.(ssa.CallInstruction)
				if !ok {
					return 0
				}
				if _, op, ok := lockOp(ci); ok && (op == "unlock" || op == "runlock") {
					if _, isDefer := in.(*ssa.Defer); !isDefer {
						return FRESH
					}
				}
				return 0
			}
			must := world.Must(fn, eg, gen, kill)
			f0 := world.FactsAt(must, c, gen, kill)
			switch {
			case f0&MISSING == 0:
				r.Fail(key, w.InstrPos(c), fmt.Sprintf("%s calls createDatabase(%s) on a path on which it has not found store[%s] == nil for this very database: a database that exists (created and filled by another connection, or the other operand of SWAPDB) is replaced by an empty one - its keys, deadlines and cache entries vanish while the memory counter still includes them", name, exprString(idx), exprString(idx)))
			case f0&FRESH == 0:
				r.Fail(key, w.InstrPos(c), fmt.Sprintf("%s looks store[%s] up, releases a lock and only then calls createDatabase: between the test and the creation another connection can create the database and write into it (SELECT n + SET on a TCP connection, a restore), and the creation then wipes it", name, exprString(idx)))
			default:
				r.OK(key, w.InstrPos(c), "the database was found missing in the critical section that creates it")
			}
		}
	}
	if total == 0 {
		r.Fail("sugardb|createDatabase", "", "no call of createDatabase found: databases are created in another way and this rule no longer describes it")
	}
}
