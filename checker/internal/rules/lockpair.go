package rules

import (
	"fmt"
	"sort"
	"strings"

	"golang.org/x/tools/go/ssa"

	"svcheck/internal/report"
	"svcheck/internal/world"
)

func init() {
	register("LK", 60, "lock pairing inside a function: a sync.Mutex / sync.RWMutex that a function locks is released on every path - it is never locked again while a path from an earlier Lock of the same function may still hold it (an error branch that `continue`s or falls through past the Unlock), and a function does not return holding it on some paths and released on others (a function that returns holding it on every path is an acquire wrapper). A lock left held blocks every later command that needs it: no reply, for every client", ruleLK)
}

// lkOp adapts lockOp (lockpanic.go) to the method names.
func lkOp(c ssa.CallInstruction) (path, op string) {
	p, o, ok := lockOp(c)
	if !ok {
		return "", ""
	}
	switch o {
	case "lock":
		return p, "Lock"
	case "rlock":
		return p, "RLock"
	case "unlock":
		return p, "Unlock"
	case "runlock":
		return p, "RUnlock"
	}
	return "", ""
}

func ruleLK(w *world.World, r *report.RuleResult) {
	for _, fn := range w.ModFns {
		pos := w.Pos(fn.Pos())
		if strings.Contains(pos, "_test.go") || strings.Contains(pos, "test_helpers") || fn.Blocks == nil {
			continue
		}
		// lock paths of this function
		idx := map[string]int{}
		var names []string
		deferred := map[string]bool{}
		for _, b := range fn.Blocks {
			for _, in := range b.Instrs {
				c, ok := in.(ssa.CallInstruction)
				if !ok {
					continue
				}
				p, op := lkOp(c)
				if p == "" {
					// deferred closure that unlocks
					if d, ok := in.(*ssa.Defer); ok {
						if mc, ok := d.Call.Value.(*ssa.MakeClosure); ok {
							for _, c2 := range world.Calls(mc.Fn.(*ssa.Function)) {
								if p2, op2 := lkOp(c2); p2 != "" && (op2 == "Unlock" || op2 == "RUnlock") {
									deferred[p2] = true
								}
							}
						}
					}
					continue
				}
				if _, ok := idx[p]; !ok && len(names) < 30 {
					idx[p] = len(names)
					names = append(names, p)
				}
				if _, isDefer := in.(*ssa.Defer); isDefer && (op == "Unlock" || op == "RUnlock") {
					deferred[p] = true
				}
			}
		}
		if len(names) == 0 {
			continue
		}
		// facts: bit 2i = write-held, bit 2i+1 = read-held
		gen := func(in ssa.Instruction) world.Facts {
			c, ok := in.(*ssa.Call)
			if !ok {
				return 0
			}
			p, op := lkOp(c)
			i, known := idx[p]
			if !known {
				return 0
			}
			switch op {
			case "Lock":
				return 1 << (2 * i)
			case "RLock":
				return 1 << (2*i + 1)
			}
			return 0
		}
		kill := func(in ssa.Instruction) world.Facts {
			c, ok := in.(*ssa.Call)
			if !ok {
				return 0
			}
			p, op := lkOp(c)
			i, known := idx[p]
			if !known {
				return 0
			}
			switch op {
			case "Unlock":
				return 1 << (2 * i)
			case "RUnlock":
				return 1 << (2*i + 1)
			}
			return 0
		}
		may := world.May(fn, nil, gen, kill)
		must := world.Must(fn, nil, gen, kill)
		name := world.FuncName(fn)
		n := map[string]int{}
		// (1) re-acquisition
		for _, b := range fn.Blocks {
			for _, in := range b.Instrs {
				c, ok := in.(*ssa.Call)
				if !ok {
					continue
				}
				p, op := lkOp(c)
				i, known := idx[p]
				if !known || (op != "Lock" && op != "RLock") {
					continue
				}
				n[p]++
				key := fmt.Sprintf("%s|%s#%d:not-held-when-acquired", name, strings.TrimPrefix(p, world.Mod+"/"), n[p])
				held := world.FactsAt(may, in, gen, kill)
				w1, r1 := held&(1<<(2*i)) != 0, held&(1<<(2*i+1)) != 0
				switch {
				case w1 || (r1 && op == "Lock"):
					r.Fail(key, w.InstrPos(in), fmt.Sprintf("%s calls %s on %s although a path from an earlier acquisition in the same function reaches this point without releasing it (an error branch that continues or falls through past the Unlock): the goroutine blocks on itself holding the lock, and everything that needs %s - every write command, if it is a store or log lock - waits for ever", name, op, p, p))
				default:
					r.OK(key, w.InstrPos(in), "no path from an earlier acquisition in this function reaches this acquisition with the lock still held")
				}
			}
		}
		// (2) returns: held on some paths only
		var rets []*ssa.Return
		for _, ret := range world.Returns(fn) {
			if ret.Block() != fn.Recover {
				rets = append(rets, ret)
			}
		}
		sort.Strings(names)
		for _, p := range names {
			i := idx[p]
			if deferred[p] {
				continue
			}
			mask := world.Facts(3) << (2 * i)
			heldSome, heldAll := false, len(rets) > 0
			var at *ssa.Return
			for _, ret := range rets {
				if world.FactsAt(may, ret, gen, kill)&mask != 0 {
					heldSome = true
					if at == nil {
						at = ret
					}
				}
				if world.FactsAt(must, ret, gen, kill)&mask == 0 {
					heldAll = false
				}
			}
			key := fmt.Sprintf("%s|%s:released-at-return", name, strings.TrimPrefix(p, world.Mod+"/"))
			switch {
			case heldSome && !heldAll:
				r.Fail(key, w.InstrPos(at), fmt.Sprintf("%s can return holding %s on some paths and released on others: the caller cannot know whether to unlock, and the path that keeps it blocks every later user of the lock", name, p))
			case heldAll && heldSome:
				r.OK(key, w.Pos(fn.Pos()), "returns holding the lock on every path (an acquire wrapper)")
			default:
				r.OK(key, w.Pos(fn.Pos()), "released on every path to a return")
			}
		}
	}
}
