package rules

import (
	"fmt"
	"strings"

	"golang.org/x/tools/go/ssa"

	"svcheck/internal/arity"
	"svcheck/internal/report"
	"svcheck/internal/world"
)

func init() {
	register("AR", 250, "constant index safety: every constant index / slice bound on a []string or string derived from the command (in code reachable from a handler or key function) lies inside every possible length on every path; data-dependent indices are counted and not decided", ruleAR)
}

var arMemo *arity.Analyzer

func arityOf(w *world.World) (*arity.Analyzer, map[*ssa.Function]bool, error) {
	cmds, err := w.Commands()
	if err != nil {
		return nil, nil, err
	}
	handlers := map[*ssa.Function]uint32{}
	keyFuncs := map[*ssa.Function]uint32{}
	inScope := map[*ssa.Function]bool{}
	join := func(m map[*ssa.Function]uint32, f *ssa.Function, v uint32) {
		if f == nil {
			return
		}
		m[f] |= v
	}
	for _, c := range cmds {
		min := arity.ALL &^ 1 // the dispatcher rejects an empty command
		if c.Parent != nil {
			min = arity.ALL &^ 3 // GetSubCommand matched cmd[1]: len >= 2
		}
		join(handlers, c.Handler, min)
		join(keyFuncs, c.KeyFunc, min)
	}
	for f := range handlers {
		for _, g := range w.ReachFrom(f, false).Fns {
			inScope[g] = true
		}
	}
	for f := range keyFuncs {
		for _, g := range w.ReachFrom(f, false).Fns {
			inScope[g] = true
		}
	}
	if arMemo == nil || arMemo.W != w {
		arMemo = arity.Run(w, handlers, keyFuncs)
	}
	return arMemo, inScope, nil
}

func ruleAR(w *world.World, r *report.RuleResult) {
	a, inScope, err := arityOf(w)
	if err != nil {
		r.Err = err
		return
	}
	for _, ob := range a.Obs {
		if !inScope[ob.Fn] {
			continue
		}
		key := world.FuncName(ob.Fn) + "|" + ob.What
		pos := w.InstrPos(ob.In)
		switch {
		case !ob.Decide:
			r.Skip(key, pos, "data-dependent index (value-level): not decided")
		case ob.OK:
			r.OK(key, pos, fmt.Sprintf("index within every possible length (needs len >= %d)", ob.Need))
		default:
			var bad []string
			for _, n := range ob.Bad {
				bad = append(bad, fmt.Sprint(n))
			}
			r.Fail(key, pos, fmt.Sprintf("%s in %s needs length >= %d, but on some path the length can be %s: index out of range panic on a short / empty argument (the connection goroutine has no recover: the process dies)", ob.What, world.FuncName(ob.Fn), ob.Need, strings.Join(bad, ",")))
		}
	}
}
