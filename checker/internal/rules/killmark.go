package rules

import (
	"fmt"
	"strings"

	"golang.org/x/tools/go/ssa"

	"svcheck/internal/report"
	"svcheck/internal/world"
)

func init() {
	register("KD", 1, "termination mark of a deleted user's connections: ACL DELUSER stops the user's open connections by setting a read deadline in the past on each of them (the connection record keeps its *User and authorization never looks the user up again), so the read deadline of a client connection belongs to that mechanism - no other module code calls SetDeadline or SetReadDeadline on a net.Conn: a later call (a write timeout set with SetDeadline and cleared afterwards, an idle timeout renewed per command) erases the mark and the deleted user goes on executing commands", ruleKD)
}

func ruleKD(w *world.World, r *report.RuleResult) {
	marks := 0
	perFn := map[string]int{}
	for _, fn := range w.ModFns {
		if strings.Contains(w.Pos(fn.Pos()), "_test.go") || strings.Contains(w.Pos(fn.Pos()), "test_helpers") {
			continue
		}
		for _, c := range world.Calls(fn) {
			cc := c.Common()
			if !cc.IsInvoke() || (cc.Method.Name() != "SetDeadline" && cc.Method.Name() != "SetReadDeadline") {
				continue
			}
			if !world.TypeIs(cc.Value.Type(), "net", "Conn") {
				continue
			}
			name := world.FuncName(fn)
			perFn[name+cc.Method.Name()]++
			key := fmt.Sprintf("%s|%s#%d", name, cc.Method.Name(), perFn[name+cc.Method.Name()])
			top := world.Outermost(fn)
			// the owner: a function of the acl package that walks the connection table
			walks := false
			if world.ShortPkg(world.PkgOf(top)) == "internal/modules/acl" {
				for _, g := range append([]*ssa.Function{top}, top.AnonFuncs...) {
					for _, b := range g.Blocks {
						for _, in := range b.Instrs {
							if rg, ok := in.(*ssa.Range); ok {
								if u, ok := rg.X.(*ssa.UnOp); ok {
									if fa, ok := u.X.(*ssa.FieldAddr); ok && world.FieldName(fa) == "Connections" {
										walks = true
									}
								}
							}
						}
					}
				}
			}
			if walks {
				marks++
				r.OK(key, w.InstrPos(c), "the ACL's own termination mark (set while walking the connection table)")
			} else {
				r.Fail(key, w.InstrPos(c), fmt.Sprintf("%s calls %s on a client connection: ACL DELUSER terminates a deleted user's connections by a read deadline in the past, and this call replaces that deadline - a connection that is executing a command or writing a reply when its user is deleted loses the mark and keeps running commands with the deleted user's rights (use SetWriteDeadline for a write timeout)", name, cc.Method.Name()))
			}
		}
	}
	if marks == 0 {
		r.Fail("internal/modules/acl|termination-mark", "", "no function of the acl package sets a read deadline while walking the connection table: the connections of a deleted user are not terminated (or the mechanism changed and this rule no longer describes it)")
	}
}
