package rules

import (
	"fmt"
	"sort"
	"strings"

	"golang.org/x/tools/go/ssa"

	"svcheck/internal/lockset"
	"svcheck/internal/report"
	"svcheck/internal/world"
)

func init() {
	register("LP", 20, "locks survive a recovered panic: handler panics are recovered on the connection goroutine, so in every function reachable from a command handler a mutex that is released by an explicit Unlock (not by a deferred one) must not be held across a call that panics by contract (an explicit panic reachable in the callee, a Must* constructor, a single-value type assertion) — otherwise one client's input leaves the lock held for ever and every other connection blocks on it", ruleLP)
}

func lockOp(c ssa.CallInstruction) (path, op string, ok bool) {
	f := c.Common().StaticCallee()
	if f == nil {
		return "", "", false
	}
	switch f.String() {
	case "(*sync.Mutex).Lock", "(*sync.RWMutex).Lock":
		op = "lock"
	case "(*sync.RWMutex).RLock":
		op = "rlock"
	case "(*sync.Mutex).Unlock", "(*sync.RWMutex).Unlock":
		op = "unlock"
	case "(*sync.RWMutex).RUnlock":
		op = "runlock"
	default:
		return "", "", false
	}
	if len(c.Common().Args) == 0 {
		return "", "", false
	}
	return lockset.Path(c.Common().Args[0]), op, true
}

func ruleLP(w *world.World, r *report.RuleResult) {
	cmds, err := w.Commands()
	if err != nil {
		r.Err = err
		return
	}
	hs, _ := handlersOf(cmds, nil)
	seen := map[*ssa.Function]bool{}
	var fns []*ssa.Function
	for _, h := range hs {
		for _, f := range w.ReachFrom(h, true).Fns {
			if !seen[f] && world.InModule(f) && f.Blocks != nil {
				seen[f] = true
				fns = append(fns, f)
			}
		}
	}
	sort.Slice(fns, func(i, j int) bool { return world.FuncName(fns[i]) < world.FuncName(fns[j]) })
	// mayPanic: panics by contract
	memo := map[*ssa.Function]string{}
	var mayPanic func(f *ssa.Function, depth int) string
	mayPanic = func(f *ssa.Function, depth int) string {
		if f == nil {
			return ""
		}
		if v, ok := memo[f]; ok {
			return v
		}
		memo[f] = ""
		if !world.InModule(f) || f.Blocks == nil {
			if strings.HasPrefix(f.Name(), "Must") {
				memo[f] = f.String() + " panics on invalid input"
			}
			return memo[f]
		}
		if depth > 4 {
			return ""
		}
		// a function that recovers contains its panics
		for _, b := range f.Blocks {
			for _, in := range b.Instrs {
				if d, ok := in.(*ssa.Defer); ok {
					if mc, ok := d.Call.Value.(*ssa.MakeClosure); ok {
						for _, c := range world.Calls(mc.Fn.(*ssa.Function)) {
							if bi, ok := c.Common().Value.(*ssa.Builtin); ok && bi.Name() == "recover" {
								return ""
							}
						}
					}
				}
			}
		}
		res := ""
		for _, b := range f.Blocks {
			for _, in := range b.Instrs {
				switch x := in.(type) {
				case *ssa.Panic:
					res = "explicit panic in " + world.FuncName(f)
				case ssa.CallInstruction:
					if _, isDefer := in.(*ssa.Defer); isDefer {
						continue
					}
					if g := x.Common().StaticCallee(); g != nil && g != f {
						if why := mayPanic(g, depth+1); why != "" && res == "" {
							res = why
						}
					}
				}
			}
		}
		memo[f] = res
		return res
	}
	for _, fn := range fns {
		deferred := map[string]bool{}
		for _, b := range fn.Blocks {
			for _, in := range b.Instrs {
				if d, ok := in.(*ssa.Defer); ok {
					if p, op, ok := lockOp(d); ok && strings.HasSuffix(op, "unlock") {
						deferred[p] = true
					}
					// defer func() { mu.Unlock() }()   /   defer s.unlockStore()  (release wrapper)
					var df *ssa.Function
					if mc, ok := d.Call.Value.(*ssa.MakeClosure); ok {
						df = mc.Fn.(*ssa.Function)
					} else if g := d.Call.StaticCallee(); g != nil && world.InModule(g) && g.Blocks != nil {
						df = g
					}
					var unl func(f *ssa.Function, depth int)
					unl = func(f *ssa.Function, depth int) {
						for _, c := range world.Calls(f) {
							if p, op, ok := lockOp(c); ok && strings.HasSuffix(op, "unlock") {
								deferred[p] = true
							} else if g := c.Common().StaticCallee(); g != nil && world.InModule(g) && g.Blocks != nil && depth < 2 {
								unl(g, depth+1)
							}
						}
					}
					if df != nil {
						unl(df, 0)
					}
				}
			}
		}
		n := 0
		for _, b := range fn.Blocks {
			for i, in := range b.Instrs {
				c, ok := in.(*ssa.Call)
				if !ok {
					continue
				}
				p, op, ok := lockOp(c)
				if !ok || strings.HasSuffix(op, "unlock") || p == "" {
					continue
				}
				n++
				key := fmt.Sprintf("%s|%s#%d", world.FuncName(fn), strings.TrimPrefix(p, world.Mod+"/"), n)
				if deferred[p] {
					r.OK(key, w.InstrPos(c), "released by a deferred unlock: a panic in the critical section unwinds through it")
					continue
				}
				// region up to the explicit unlock(s)
				why, where := "", ssa.Instruction(nil)
				seenB := map[*ssa.BasicBlock]bool{}
				var walk func(b *ssa.BasicBlock, from int)
				walk = func(b *ssa.BasicBlock, from int) {
					for j := from; j < len(b.Instrs) && why == ""; j++ {
						x := b.Instrs[j]
						if cc, ok := x.(ssa.CallInstruction); ok {
							if p2, op2, ok := lockOp(cc); ok && p2 == p && strings.HasSuffix(op2, "unlock") {
								if _, isDefer := x.(*ssa.Defer); !isDefer {
									return
								}
							}
							if _, isDefer := x.(*ssa.Defer); isDefer {
								continue
							}
							for _, g := range w.Callees(cc) {
								if m := mayPanic(g, 0); m != "" {
									why, where = m, x
								}
							}
						}
						if ta, ok := x.(*ssa.TypeAssert); ok && !ta.CommaOk {
							why, where = "single-value type assertion", x
						}
					}
					if why != "" {
						return
					}
					for _, s := range b.Succs {
						if !seenB[s] {
							seenB[s] = true
							walk(s, 0)
						}
					}
				}
				walk(b, i+1)
				if why == "" {
					r.OK(key, w.InstrPos(c), "released by explicit unlocks; nothing in between panics by contract")
				} else {
					r.Fail(key, w.InstrPos(c), fmt.Sprintf("%s holds %s from here to an explicit unlock, and in between calls something that panics by contract (%s, at %s). The panic is recovered on the connection goroutine and reported to that client as an error, but the unlock is skipped: the lock stays held for ever and every other connection that needs it blocks (one client's input stops the others' commands)", world.FuncName(fn), p, why, w.InstrPos(where)))
				}
			}
		}
	}
}
