package rules

import (
	"fmt"
	"go/token"
	"strings"

	"golang.org/x/tools/go/ssa"

	"svcheck/internal/report"
	"svcheck/internal/world"
)

func init() {
	register("SR", 1, "removal while scanning: a loop that walks a slice by increasing index and removes the element at the current index from that same slice (s = append(s[:i], s[i+1:]...)) steps the index back on the removal path; otherwise the element that slides into position i is never examined and two adjacent matches are not both removed (a walk by decreasing index is safe)", ruleSR)
}

func ruleSR(w *world.World, r *report.RuleResult) {
	n := 0
	for _, fn := range w.ModFns {
		if fn.Blocks == nil || !strings.Contains(world.FuncName(fn), "internal/modules/") {
			continue
		}
		for _, b := range fn.Blocks {
			for _, in := range b.Instrs {
				call, ok := in.(*ssa.Call)
				if !ok {
					continue
				}
				bi, ok := call.Call.Value.(*ssa.Builtin)
				if !ok || bi.Name() != "append" || len(call.Call.Args) != 2 {
					continue
				}
				s1, ok1 := call.Call.Args[0].(*ssa.Slice)
				s2, ok2 := call.Call.Args[1].(*ssa.Slice)
				if !ok1 || !ok2 || s1.X != s2.X || s1.Low != nil || s1.High == nil || s2.High != nil || s2.Low == nil {
					continue
				}
				// s[:i] and s[i+1:]
				idx := s1.High
				bo, ok := s2.Low.(*ssa.BinOp)
				if !ok || bo.Op != token.ADD || bo.X != idx {
					continue
				}
				if c, ok := world.ConstInt(bo.Y); !ok || c != 1 {
					continue
				}
				ph, ok := idx.(*ssa.Phi)
				if !ok {
					continue
				}
				// the slice must be the loop-carried one (the removal feeds the next iteration's slice)
				lph, ok := s1.X.(*ssa.Phi)
				if !ok || lph.Block() != ph.Block() {
					continue
				}
				feeds := false
				for _, e := range lph.Edges {
					if derivesFrom(e, func(v ssa.Value) bool { return v == ssa.Value(call) }, 0) {
						feeds = true
					}
				}
				if !feeds {
					continue
				}
				n++
				key := fmt.Sprintf("%s|remove-at-index#%d", world.FuncName(fn), n)
				// back-edge value of the index
				verdict := ""
				for i, e := range ph.Edges {
					pred := ph.Block().Preds[i]
					if !ph.Block().Dominates(pred) {
						continue // entry edge
					}
					nb, ok := e.(*ssa.BinOp)
					if !ok {
						verdict = "ok"
						continue
					}
					c, isC := world.ConstInt(nb.Y)
					switch {
					case nb.Op == token.SUB && nb.X == ssa.Value(ph):
						verdict = "ok" // walking downwards
					case nb.Op == token.ADD && nb.X == ssa.Value(ph) && isC && c > 0:
						if verdict == "" {
							verdict = "bad"
						}
					default:
						verdict = "ok" // the next index is computed from something else (adjusted on the removal path)
					}
				}
				if verdict == "bad" {
					r.Fail(key, w.InstrPos(call), fmt.Sprintf("%s removes the element at index %s from the slice it is walking upwards and then moves on to index+1 on every path: the element that slid into the freed position is skipped, so of two adjacent matches only the first is removed (LREM leaves matches behind and reports fewer removals than requested)", world.FuncName(fn), ph.Comment))
				} else {
					r.OK(key, w.InstrPos(call), "removal at the current index in a walk that steps back / walks downwards")
				}
			}
		}
	}
	if n == 0 {
		r.Skip("no-instance", "-", "no loop removes the element at its own index from the slice it walks")
	}
}
