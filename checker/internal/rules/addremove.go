package rules

import (
	"fmt"
	"sort"
	"strings"

	"golang.org/x/tools/go/ssa"

	"svcheck/internal/report"
	"svcheck/internal/world"
)

func init() {
	register("AG", 1, "add and remove agree on the spelling of a credential: in User.UpdateUser the value stored when a password is added (>pw, #digest) and the value compared when it is removed (<pw, !digest) are derived from the rule token through the same string transformations - otherwise a credential can be added in a spelling that the removal no longer matches, and a revoked password keeps authenticating", ruleAG)
}

// transformsOf: names of the (non-builtin) functions applied on the way from the loop variable of the
// rule tokens to v (strings.ToLower, strings.TrimSpace, ...). Slicing and indexing are not transformations.
func transformsOf(v ssa.Value, depth int, seen map[ssa.Value]bool, out map[string]bool) {
	if v == nil || depth > 12 || seen[v] {
		return
	}
	seen[v] = true
	v = world.Forward(v)
	switch x := v.(type) {
	case *ssa.Call:
		if _, isB := x.Call.Value.(*ssa.Builtin); !isB {
			if f := x.Call.StaticCallee(); f != nil {
				out[f.String()] = true
			} else {
				out["<dynamic call>"] = true
			}
		}
		for _, a := range x.Call.Args {
			if isStringy(a.Type()) || isByteSlice(a.Type()) {
				transformsOf(a, depth+1, seen, out)
			}
		}
	case *ssa.Slice:
		transformsOf(x.X, depth+1, seen, out)
	case *ssa.BinOp:
		transformsOf(x.X, depth+1, seen, out)
		transformsOf(x.Y, depth+1, seen, out)
	case *ssa.Phi:
		for _, e := range x.Edges {
			transformsOf(e, depth+1, seen, out)
		}
	case *ssa.Convert:
		transformsOf(x.X, depth+1, seen, out)
	case *ssa.ChangeType:
		transformsOf(x.X, depth+1, seen, out)
	case *ssa.UnOp:
		switch a := x.X.(type) {
		case *ssa.FreeVar:
			// captured token: its value in the enclosing function is the loop variable (no transformation)
		case *ssa.Alloc:
			for _, ref := range *a.Referrers() {
				if st, ok := ref.(*ssa.Store); ok && st.Addr == ssa.Value(a) {
					transformsOf(st.Val, depth+1, seen, out)
				}
			}
		}
	}
}

func ruleAG(w *world.World, r *report.RuleResult) {
	fn := w.Func("internal/modules/acl.(*User).UpdateUser")
	if fn == nil {
		r.Skip("AG|UpdateUser", "-", "acl.User.UpdateUser not present: not decided")
		return
	}
	name := world.FuncName(fn)
	// adds: stores into the PasswordValue field of a Password built in UpdateUser
	add := map[string]bool{}
	nAdd := 0
	for _, b := range fn.Blocks {
		for _, in := range b.Instrs {
			st, ok := in.(*ssa.Store)
			if !ok {
				continue
			}
			fa, ok := st.Addr.(*ssa.FieldAddr)
			if !ok || world.FieldName(fa) != "PasswordValue" {
				continue
			}
			nAdd++
			transformsOf(st.Val, 0, map[ssa.Value]bool{}, add)
		}
	}
	// removes: comparisons of an element's PasswordValue inside the predicates of the deleting calls
	rem := map[string]bool{}
	nRem := 0
	for _, lit := range fn.AnonFuncs {
		for _, b := range lit.Blocks {
			for _, in := range b.Instrs {
				bo, ok := in.(*ssa.BinOp)
				if !ok || (bo.Op.String() != "==" && bo.Op.String() != "!=") {
					continue
				}
				isPV := func(v ssa.Value) bool {
					if f, ok := v.(*ssa.Field); ok {
						if stt, ok := f.X.Type().Underlying().(interface{ NumFields() int }); ok {
							_ = stt
						}
						return strings.HasSuffix(exprString(v), "PasswordValue")
					}
					if u, ok := v.(*ssa.UnOp); ok {
						if fa, ok := u.X.(*ssa.FieldAddr); ok {
							return world.FieldName(fa) == "PasswordValue"
						}
					}
					return false
				}
				var other ssa.Value
				switch {
				case isPV(bo.X):
					other = bo.Y
				case isPV(bo.Y):
					other = bo.X
				default:
					continue
				}
				nRem++
				transformsOf(other, 0, map[ssa.Value]bool{}, rem)
			}
		}
	}
	if nAdd == 0 || nRem == 0 {
		r.Skip(name+"|password-spelling-agreement", w.Pos(fn.Pos()), fmt.Sprintf("the add (%d) / remove (%d) sites of passwords are not in the shape the rule reads: not decided", nAdd, nRem))
		return
	}
	names := func(m map[string]bool) string {
		var s []string
		for k := range m {
			s = append(s, k)
		}
		sort.Strings(s)
		if len(s) == 0 {
			return "none"
		}
		return strings.Join(s, ", ")
	}
	if names(add) == names(rem) {
		r.OK(name+"|password-spelling-agreement", w.Pos(fn.Pos()), fmt.Sprintf("stored and compared values are derived from the token through the same transformations (%s)", names(add)))
	} else {
		r.Fail(name+"|password-spelling-agreement", w.Pos(fn.Pos()), fmt.Sprintf("a password is stored after {%s} but the removal compares the stored value with the token after {%s}: a credential added in a spelling that the transformation changes (e.g. an upper-case SHA-256 digest) can never be revoked by the same token - ACL SETUSER <user> !<digest> answers OK, removes nothing, and the revoked credential keeps authenticating", names(add), names(rem)))
	}
}

var _ = report.Discharged
