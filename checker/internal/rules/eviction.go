package rules

import (
	"fmt"
	"go/token"
	"go/types"
	"sort"
	"strings"

	"golang.org/x/tools/go/ssa"

	"svcheck/internal/report"
	"svcheck/internal/world"
)

func init() {
	register("A4", 2, "eviction order: the heap comparator of each cache returns true when, and never when, entry i precedes entry j in eviction order (LRU: older access time first; LFU: smaller count first), evaluated over the three orderings of the two values", ruleA4)
	register("SB", 6, "sibling agreement: the LRU and LFU caches implement the same interface; each pair of same-named methods writes the same bookkeeping fields", ruleSB)
	register("TR", 3, "automatic snapshot trigger: in the ticker loop TakeSnapshot is reachable when the change count equals or exceeds the threshold and unreachable when it is below, evaluated over the three orderings", ruleTR)
	register("RC", 5, "restore closures: each set-key-data callback stores data.Value through setValues and data.ExpireAt through setExpiry for the same key and database; each get-state callback copies every database and every key of getState's result", ruleRC)
}

// evictionField: the field that defines eviction order per cache type.
var evictionField = map[string]string{"CacheLRU": "unixTime", "CacheLFU": "count"}

func ruleA4(w *world.World, r *report.RuleResult) {
	var names []string
	for n := range evictionField {
		names = append(names, n)
	}
	sort.Strings(names)
	for _, tn := range names {
		field := evictionField[tn]
		fn := w.Func("internal/eviction.(*" + tn + ").Less")
		if fn == nil || len(fn.Params) != 3 {
			r.Und(tn+"|anchor", "-", "comparator internal/eviction.(*"+tn+").Less not found")
			continue
		}
		pi, pj := fn.Params[1], fn.Params[2]
		fieldOf := func(v ssa.Value, idx *ssa.Parameter, f string) bool {
			// load of <entries[idx]>.f
			u, ok := v.(*ssa.UnOp)
			if !ok {
				return false
			}
			fa, ok := u.X.(*ssa.FieldAddr)
			if !ok || world.FieldName(fa) != f {
				return false
			}
			return derivesFrom(fa.X, func(x ssa.Value) bool {
				ia, ok := x.(*ssa.IndexAddr)
				return ok && ia.Index == ssa.Value(idx)
			}, 0)
		}
		isA := func(v ssa.Value) bool { return fieldOf(v, pi, field) }
		isB := func(v ssa.Value) bool { return fieldOf(v, pj, field) }
		for _, rel := range []string{"<", ">"} {
			decide := func(cond ssa.Value) int { return decideCmp(cond, isA, isB, rel) }
			rets := walkCFG(fn, decide, nil)
			want := rel == "<"
			var got []bool
			und := false
			for _, ret := range rets {
				rv := world.RetVals(ret)
				if b, ok := world.ConstBool(rv[0]); ok {
					got = append(got, b)
					continue
				}
				d := decide(rv[0])
				if d == -1 {
					und = true
					continue
				}
				got = append(got, d == 0)
			}
			key := fmt.Sprintf("internal/eviction.(*%s).Less|field:%s|i%sj", tn, field, rel)
			allWant := len(got) > 0
			for _, g := range got {
				if g != want {
					allWant = false
				}
			}
			switch {
			case und || len(got) == 0:
				r.Und(key, w.Pos(fn.Pos()), fmt.Sprintf("cannot evaluate Less for %s_i %s %s_j: the comparison on the eviction field %q was not recognised", field, rel, field, field))
			case allWant:
				r.OK(key, w.Pos(fn.Pos()), fmt.Sprintf("Less(i,j) = %v when %s_i %s %s_j", want, field, rel, field))
			default:
				what := map[string]string{"CacheLRU": "the most recently used key is popped (evicted) first instead of the least recently used", "CacheLFU": "the most frequently used key is popped (evicted) first instead of the least frequently used"}[tn]
				r.Fail(key, w.Pos(fn.Pos()), fmt.Sprintf("Less(i,j) evaluates to %v when %s_i %s %s_j; a min-heap on the eviction order needs %v: %s", got, field, rel, field, want, what))
			}
		}
	}
}

// fieldsWritten: receiver fields written by a method (Store to field, MapUpdate/delete/clear on field, element stores).
func fieldsWritten(fn *ssa.Function) map[string]bool {
	out := map[string]bool{}
	if fn == nil || len(fn.Params) == 0 {
		return out
	}
	recv := fn.Params[0]
	fieldFrom := func(v ssa.Value) string {
		for i := 0; i < 10; i++ {
			switch x := v.(type) {
			case *ssa.FieldAddr:
				if x.X == ssa.Value(recv) {
					return world.FieldName(x)
				}
				v = x.X
			case *ssa.IndexAddr:
				v = x.X
			case *ssa.UnOp:
				v = x.X
			case *ssa.Lookup:
				v = x.X
			default:
				return ""
			}
		}
		return ""
	}
	for _, b := range fn.Blocks {
		for _, in := range b.Instrs {
			switch x := in.(type) {
			case *ssa.Store:
				if fa, ok := x.Addr.(*ssa.FieldAddr); ok && fa.X == ssa.Value(recv) {
					out[world.FieldName(fa)] = true
				}
			case *ssa.MapUpdate:
				if f := fieldFrom(x.Map); f != "" {
					out[f] = true
				}
			case ssa.CallInstruction:
				if bi, ok := x.Common().Value.(*ssa.Builtin); ok && (bi.Name() == "delete" || bi.Name() == "clear") && len(x.Common().Args) > 0 {
					if f := fieldFrom(x.Common().Args[0]); f != "" {
						out[f] = true
					}
				}
			}
		}
	}
	return out
}

func ruleSB(w *world.World, r *report.RuleResult) {
	p := w.Pkg("internal/eviction")
	if p == nil {
		r.Err = fmt.Errorf("package internal/eviction not found")
		return
	}
	common := map[string]bool{}
	var structs []*types.Struct
	for _, tn := range []string{"CacheLRU", "CacheLFU"} {
		obj := p.Types.Scope().Lookup(tn)
		if obj == nil {
			r.Err = fmt.Errorf("type %s not found", tn)
			return
		}
		structs = append(structs, obj.Type().Underlying().(*types.Struct))
	}
	for i := 0; i < structs[0].NumFields(); i++ {
		for j := 0; j < structs[1].NumFields(); j++ {
			if world.CanonField(structs[0].Field(i)) == world.CanonField(structs[1].Field(j)) {
				common[world.CanonField(structs[0].Field(i))] = true
			}
		}
	}
	for _, m := range []string{"Push", "Pop", "Swap", "Update", "Delete", "Flush"} {
		a := w.Func("internal/eviction.(*CacheLRU)." + m)
		b := w.Func("internal/eviction.(*CacheLFU)." + m)
		key := "method:" + m
		if a == nil || b == nil {
			r.Fail(key, "-", "method "+m+" is missing from one of the two caches")
			continue
		}
		fa, fb := fieldsWritten(a), fieldsWritten(b)
		var onlyA, onlyB []string
		for f := range common {
			if fa[f] && !fb[f] {
				onlyA = append(onlyA, f)
			}
			if fb[f] && !fa[f] {
				onlyB = append(onlyB, f)
			}
		}
		sort.Strings(onlyA)
		sort.Strings(onlyB)
		if len(onlyA)+len(onlyB) == 0 {
			r.OK(key, w.Pos(a.Pos()), "both caches write the same shared bookkeeping fields in "+m)
		} else {
			r.Fail(key, w.Pos(a.Pos()), fmt.Sprintf("CacheLRU.%s and CacheLFU.%s disagree on the bookkeeping they maintain: only LRU writes %v, only LFU writes %v — one of the two leaves `keys` / `entries` out of step (duplicate or orphaned heap entries, so evicted keys linger in or vanish from the bookkeeping)", m, m, onlyA, onlyB))
		}
	}
}

// ---- TR: snapshot trigger ----

func ruleTR(w *world.World, r *report.RuleResult) {
	ctor := w.Func("internal/snapshot.NewSnapshotEngine")
	if ctor == nil {
		r.Err = fmt.Errorf("snapshot.NewSnapshotEngine not found")
		return
	}
	// the ticker goroutine: closure started with `go` in the constructor that calls TakeSnapshot
	var loop *ssa.Function
	var take ssa.CallInstruction
	for _, fn := range ctor.AnonFuncs {
		for _, c := range world.Calls(fn) {
			if f := c.Common().StaticCallee(); f != nil && world.BaseName(f) == "TakeSnapshot" {
				loop, take = fn, c
			}
		}
	}
	if loop == nil {
		r.Fail("trigger-loop", w.Pos(ctor.Pos()), "the snapshot engine no longer has a goroutine that takes automatic snapshots")
		return
	}
	isCount := func(v ssa.Value) bool {
		c, ok := v.(*ssa.Call)
		if !ok {
			return false
		}
		f := c.Call.StaticCallee()
		if f == nil || !strings.HasSuffix(f.String(), ").Load") || len(c.Call.Args) == 0 {
			return false
		}
		fa, ok := c.Call.Args[0].(*ssa.FieldAddr)
		return ok && world.FieldName(fa) == "changeCount"
	}
	isThr := func(v ssa.Value) bool {
		fa, ok := v.(*ssa.FieldAddr)
		return ok && world.FieldName(fa) == "snapshotThreshold"
	}
	for _, rel := range []string{"<", "=", ">"} {
		reached := false
		undecided := false
		walkCFG(loop, func(cond ssa.Value) int {
			d := decideCmp(cond, isCount, isThr, rel)
			if d == -1 && (derivesFrom(cond, isCount, 0) || derivesFrom(cond, isThr, 0)) {
				undecided = true
			}
			return d
		}, func(in ssa.Instruction) {
			if in == ssa.Instruction(take) {
				reached = true
			}
		})
		want := rel != "<"
		key := fmt.Sprintf("%s|count%sthreshold", world.FuncName(loop), rel)
		switch {
		case undecided:
			r.Und(key, w.InstrPos(take), "the trigger condition is not a recognised comparison of the change count with the threshold")
		case reached == want:
			r.OK(key, w.InstrPos(take), fmt.Sprintf("TakeSnapshot reachable=%v when changeCount %s threshold", reached, rel))
		case want:
			r.Fail(key, w.InstrPos(take), fmt.Sprintf("when the change count is %s the threshold at a tick the automatic snapshot is NOT taken: writes keep accumulating, so unless exactly `threshold` changes are pending at a tick the snapshot is skipped for ever", map[string]string{"=": "equal to", ">": "above"}[rel]))
		default:
			r.Fail(key, w.InstrPos(take), "an automatic snapshot is taken although fewer writes than the threshold have accumulated")
		}
	}
}

// guardedByZeroDeadline: the call is reached only over one edge of a zero test of a deadline
// (x.ExpireAt.IsZero(), x.ExpireAt == time.Time{}).
func guardedByZeroDeadline(c ssa.CallInstruction) bool {
	b := c.Block()
	for d := b.Idom(); d != nil; d = d.Idom() {
		iff := world.IfOf(d)
		if iff == nil || len(d.Succs) != 2 {
			continue
		}
		cond := iff.Cond
		if u, ok := cond.(*ssa.UnOp); ok && u.Op == token.NOT {
			cond = u.X
		}
		v, _, ok := zeroTimeTest(cond)
		if !ok || !derivesFrom(v, isExpireAtField, 0) {
			continue
		}
		through := func(s *ssa.BasicBlock) bool { return len(s.Preds) == 1 && (s == b || s.Dominates(b)) }
		if through(d.Succs[0]) != through(d.Succs[1]) {
			return true
		}
	}
	return false
}

// rcRaftRestore: the raft FSM restores keys itself (it does not go through the NewSugarDB callbacks):
// every SetValues of a restored key is paired with an unconditional SetExpiry of its deadline.
func rcRaftRestore(w *world.World, r *report.RuleResult) {
	fn := w.Func("internal/raft.(*FSM).Restore")
	if fn == nil {
		return
	}
	var sv, se []ssa.CallInstruction
	for _, c := range world.Calls(fn) {
		if n, ok := fieldFuncCall2(c); ok {
			switch n {
			case "SetValues":
				sv = append(sv, c)
			case "SetExpiry":
				se = append(se, c)
			}
		}
	}
	key := world.FuncName(fn) + "|set-key-data"
	switch {
	case len(sv) == 0:
		r.Fail(key, w.Pos(fn.Pos()), "the raft FSM's Restore never stores the restored values")
	case len(se) == 0:
		r.Fail(key, w.Pos(fn.Pos()), "the raft FSM's Restore never sets the restored deadlines: keys lose their expiry on a node that is caught up by snapshot")
	default:
		bad := false
		for _, c := range se {
			if guardedByZeroDeadline(c) {
				bad = true
				r.Fail(key, w.InstrPos(c), "the raft FSM's Restore skips SetExpiry when the restored deadline is zero: SetValues lets a value written over a live entry inherit that entry's deadline, so a follower that is caught up by InstallSnapshot keeps a deadline the leader has removed (PERSIST, DEL+SET) - the replicas diverge and the key later disappears on that node only")
			}
		}
		if !bad {
			r.OK(key, w.InstrPos(se[0]), "SetValues and an unconditional SetExpiry(data.ExpireAt) for every restored key")
		}
	}
}

// fieldFuncCall2: name of the struct field a dynamic call goes through (fsm.options.SetValues(...)).
func fieldFuncCall2(c ssa.CallInstruction) (string, bool) {
	if c.Common().IsInvoke() || c.Common().StaticCallee() != nil {
		return "", false
	}
	v := c.Common().Value
	if u, ok := v.(*ssa.UnOp); ok && u.Op == token.MUL {
		if fa, ok := u.X.(*ssa.FieldAddr); ok {
			return world.FieldName(fa), true
		}
	}
	if f, ok := v.(*ssa.Field); ok {
		if st, ok := f.X.Type().Underlying().(*types.Struct); ok {
			return world.CanonField(st.Field(f.Field)), true
		}
	}
	return "", false
}

// ---- RC: restore / state closures in NewSugarDB ----

func ruleRC(w *world.World, r *report.RuleResult) {
	ctor := w.Func("sugardb.NewSugarDB")
	if ctor == nil {
		r.Err = fmt.Errorf("sugardb.NewSugarDB not found")
		return
	}
	rcRaftRestore(w, r)
	nSet, nGet := 0, 0
	for _, fn := range ctor.AnonFuncs {
		sig := fn.Signature
		// set-key-data: func(database int, key string, data KeyData)
		if sig.Params().Len() == 3 && world.TypeIs(sig.Params().At(2).Type(), "/internal", "KeyData") && sig.Results().Len() == 0 {
			nSet++
			key := world.FuncName(fn) + "|set-key-data"
			data := fn.Params[len(fn.Params)-1]
			keyp := fn.Params[len(fn.Params)-2]
			dbp := fn.Params[len(fn.Params)-3]
			var bad []string
			var sv, se ssa.CallInstruction
			for _, c := range world.Calls(fn) {
				if f := c.Common().StaticCallee(); f != nil {
					switch world.BaseName(f) {
					case "setValues":
						sv = c
					case "setExpiry":
						se = c
					}
				}
			}
			fromData := func(field string) func(ssa.Value) bool {
				return func(v ssa.Value) bool {
					switch x := v.(type) {
					case *ssa.Field:
						st, ok := x.X.Type().Underlying().(*types.Struct)
						return ok && world.CanonField(st.Field(x.Field)) == field && derivesFrom(x.X, func(y ssa.Value) bool { return y == ssa.Value(data) }, 0)
					case *ssa.FieldAddr:
						return world.FieldName(x) == field && derivesFrom(x.X, func(y ssa.Value) bool { return y == ssa.Value(data) }, 0)
					}
					return false
				}
			}
			isParam := func(p *ssa.Parameter) func(ssa.Value) bool {
				return func(v ssa.Value) bool { return v == ssa.Value(p) }
			}
			if sv == nil {
				bad = append(bad, "never calls setValues")
			} else {
				// entries map literal {key: data.Value}
				okVal, okKey := false, false
				for _, b := range fn.Blocks {
					for _, in := range b.Instrs {
						if mu, ok := in.(*ssa.MapUpdate); ok && mu.Map == sv.Common().Args[len(sv.Common().Args)-1] {
							if derivesFrom(mu.Value, fromData("Value"), 0) {
								okVal = true
							}
							if derivesFrom(mu.Key, isParam(keyp), 0) {
								okKey = true
							}
						}
					}
				}
				if !okVal {
					bad = append(bad, "the value given to setValues is not data.Value")
				}
				if !okKey {
					bad = append(bad, "the key given to setValues is not the callback's key")
				}
			}
			if se == nil {
				bad = append(bad, "never calls setExpiry: restored keys lose their deadlines")
			} else {
				args := se.Common().Args
				okExp, okKey := false, false
				for _, a := range args {
					if derivesFrom(a, fromData("ExpireAt"), 0) {
						okExp = true
					}
					if derivesFrom(a, isParam(keyp), 0) {
						okKey = true
					}
				}
				if !okExp {
					bad = append(bad, "the deadline given to setExpiry is not data.ExpireAt")
				}
				if guardedByZeroDeadline(se) {
					bad = append(bad, "setExpiry is skipped when the restored deadline is zero: setValues lets a value written over a live entry inherit that entry's deadline, so a key restored without expiry over a live volatile key keeps the old deadline")
				}
				if !okKey {
					bad = append(bad, "setExpiry is called for a different key")
				}
			}
			// database: a context.WithValue("Database", database) feeds both calls
			okDB := false
			for _, c := range world.Calls(fn) {
				if f := c.Common().StaticCallee(); f != nil && f.String() == "context.WithValue" {
					if k, ok := world.ConstString(world.Unwrap(c.Common().Args[1])); ok && k == "Database" && derivesFrom(c.Common().Args[2], isParam(dbp), 0) {
						okDB = true
					}
				}
			}
			if !okDB {
				bad = append(bad, "the context does not carry the callback's database under \"Database\"")
			}
			if len(bad) == 0 {
				r.OK(key, w.Pos(fn.Pos()), "setValues(ctx[Database=database], {key: data.Value}) and setExpiry(ctx, key, data.ExpireAt)")
			} else {
				r.Fail(key, w.Pos(fn.Pos()), "restore callback "+world.FuncName(fn)+": "+strings.Join(bad, "; "))
			}
		}
		// get-state: func() map[int]map[string]KeyData
		if sig.Params().Len() == 0 && sig.Results().Len() == 1 {
			if m, ok := sig.Results().At(0).Type().Underlying().(*types.Map); ok {
				if _, ok := m.Elem().Underlying().(*types.Map); ok {
					nGet++
					key := world.FuncName(fn) + "|get-state"
					callsGetState := false
					for _, c := range world.Calls(fn) {
						if f := c.Common().StaticCallee(); f != nil && world.BaseName(f) == "getState" {
							callsGetState = true
						}
					}
					// two nested range loops over the result and a MapUpdate into the fresh state
					ranges, updates := 0, 0
					for _, b := range fn.Blocks {
						for _, in := range b.Instrs {
							switch in.(type) {
							case *ssa.Range:
								ranges++
							case *ssa.MapUpdate:
								updates++
							}
						}
					}
					if callsGetState && ranges >= 2 && updates >= 2 {
						r.OK(key, w.Pos(fn.Pos()), "copies every database and every key of getState() into a fresh map (inner maps created)")
					} else {
						r.Fail(key, w.Pos(fn.Pos()), fmt.Sprintf("state callback %s does not copy the complete getState() result (getState called: %v, range loops: %d, map writes: %d)", world.FuncName(fn), callsGetState, ranges, updates))
					}
				}
			}
		}
	}
	if nSet < 2 {
		r.Fail("set-key-data-callbacks", w.Pos(ctor.Pos()), fmt.Sprintf("only %d restore callbacks found in NewSugarDB (snapshot and AOF preamble expected)", nSet))
	}
	if nGet < 3 {
		r.Fail("get-state-callbacks", w.Pos(ctor.Pos()), fmt.Sprintf("only %d state callbacks found in NewSugarDB (snapshot, AOF preamble and raft expected)", nGet))
	}
}

func init() {
	register("RS", 2, "raft snapshot instant: FSM.Snapshot copies the state synchronously (it calls the state callback itself); Persist, which the library runs later and concurrently with Apply, only serialises the data captured then", ruleRS)
	register("NUM", 10, "numeric conversion agreement: every strconv.ParseInt / ParseFloat / FormatInt / FormatFloat in handler code uses base 10 and 64 bits (the width of the stored counters) — sibling handlers of one family must not disagree", ruleNUM)
}

func ruleRS(w *world.World, r *report.RuleResult) {
	snap := w.Func("internal/raft.(*FSM).Snapshot")
	pers := w.Func("internal/raft.(*Snapshot).Persist")
	if snap == nil || pers == nil {
		r.Err = fmt.Errorf("raft FSM.Snapshot / Snapshot.Persist not found")
		return
	}
	isStateCall := func(c ssa.CallInstruction) bool {
		n, ok := fieldFuncCall(c)
		return ok && strings.Contains(strings.ToLower(n), "getstate")
	}
	calls := 0
	for _, c := range world.Calls(snap) {
		if isStateCall(c) {
			calls++
		}
	}
	key := world.FuncName(snap) + "|copies-state-synchronously"
	if calls > 0 {
		r.OK(key, w.Pos(snap.Pos()), "FSM.Snapshot calls the state callback itself: the snapshot holds the state as of the log index raft assigns to it")
	} else {
		r.Fail(key, w.Pos(snap.Pos()), "FSM.Snapshot does not copy the state itself: raft labels the snapshot with the index at the time of Snapshot() and keeps applying entries until Persist runs, so a state captured later already contains entries that a restoring node will apply again (non-idempotent writes take effect twice)")
	}
	late := 0
	for _, c := range world.Calls(pers) {
		if isStateCall(c) {
			late++
		}
	}
	key = world.FuncName(pers) + "|no-late-state-read"
	if late == 0 {
		r.OK(key, w.Pos(pers.Pos()), "Persist serialises the data captured by Snapshot and does not read the live state")
	} else {
		r.Fail(key, w.Pos(pers.Pos()), "Persist reads the live state through the state callback: it runs concurrently with Apply, after the snapshot index was fixed")
	}
}

func ruleNUM(w *world.World, r *report.RuleResult) {
	cmds, err := w.Commands()
	if err != nil {
		r.Err = err
		return
	}
	hs, _ := handlersOf(cmds, nil)
	seen := map[ssa.Instruction]bool{}
	for _, h := range hs {
		for _, fn := range w.ReachFrom(h, false).Fns {
			for _, c := range world.Calls(fn) {
				if seen[c] {
					continue
				}
				f := c.Common().StaticCallee()
				if f == nil {
					continue
				}
				args := c.Common().Args
				var base, bits int64 = -1, -1
				switch f.String() {
				case "strconv.ParseInt", "strconv.ParseUint":
					b, ok1 := world.ConstInt(args[1])
					s, ok2 := world.ConstInt(args[2])
					if !ok1 || !ok2 {
						continue
					}
					base, bits = b, s
				case "strconv.ParseFloat":
					s, ok := world.ConstInt(args[1])
					if !ok {
						continue
					}
					base, bits = 10, s
				case "strconv.FormatInt":
					b, ok := world.ConstInt(args[1])
					if !ok {
						continue
					}
					base, bits = b, 64
				case "strconv.FormatFloat":
					s, ok := world.ConstInt(args[3])
					if !ok {
						continue
					}
					base, bits = 10, s
				default:
					continue
				}
				seen[c] = true
				key := fmt.Sprintf("%s|%s", world.FuncName(fn), f.Name())
				if base == 10 && bits == 64 {
					r.OK(key, w.InstrPos(c), "base 10, 64 bits")
				} else {
					r.Fail(key, w.InstrPos(c), fmt.Sprintf("%s is called with base %d / bit size %d, while every other numeric conversion of the command handlers uses base 10 and 64 bits (the stored counters are 64-bit): values outside the narrower range are rejected or mis-parsed by this command only", f.String(), base, bits))
				}
			}
		}
	}
}
