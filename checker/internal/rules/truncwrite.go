package rules

import (
	"fmt"
	"go/token"
	"os"
	"strings"

	"golang.org/x/tools/go/ssa"

	"svcheck/internal/report"
	"svcheck/internal/world"
)

func init() {
	register("TW", 2, "whole-file writers truncate: a file that is opened for writing with os.OpenFile and written from the start (the ACL file on ACL SAVE, a snapshot's state file) is opened with O_TRUNC (or O_APPEND for a log) - without it a shorter serialisation leaves the tail of the previous content in place: a deleted user's record survives ACL SAVE (the YAML of the shorter user list is a prefix of the old file) and comes back at the next LOAD or restart. A handle kept in a struct field for the life of the store is governed by the rules of its store (D5)", ruleTW)
}

// evalFlags: the constant value of an open-flag expression; params are bound to the arguments of the
// function's static call sites (every site must agree on the bits asked for).
func evalFlags(v ssa.Value, bind map[*ssa.Parameter]ssa.Value, depth int) (int64, bool) {
	if depth > 8 || v == nil {
		return 0, false
	}
	if k, ok := world.ConstInt(v); ok {
		return k, true
	}
	switch x := v.(type) {
	case *ssa.BinOp:
		a, ok1 := evalFlags(x.X, bind, depth+1)
		b, ok2 := evalFlags(x.Y, bind, depth+1)
		if !ok1 || !ok2 {
			return 0, false
		}
		switch x.Op {
		case token.OR:
			return a | b, true
		case token.ADD:
			return a + b, true
		case token.AND:
			return a & b, true
		case token.AND_NOT:
			return a &^ b, true
		}
	case *ssa.Convert:
		return evalFlags(x.X, bind, depth+1)
	case *ssa.Parameter:
		if a, ok := bind[x]; ok {
			return evalFlags(a, nil, depth+1)
		}
	}
	return 0, false
}

func ruleTW(w *world.World, r *report.RuleResult) {
	// static call sites per function
	sites := map[*ssa.Function][]ssa.CallInstruction{}
	for _, fn := range w.ModFns {
		for _, c := range world.Calls(fn) {
			if f := c.Common().StaticCallee(); f != nil && world.InModule(f) {
				sites[f] = append(sites[f], c)
			}
		}
	}
	n := map[string]int{}
	for _, fn := range w.ModFns {
		pos := w.Pos(fn.Pos())
		if strings.Contains(pos, "_test.go") || strings.Contains(pos, "test_helpers") {
			continue
		}
		for _, c := range world.Calls(fn) {
			call, ok := c.(*ssa.Call)
			if !ok {
				continue
			}
			f := call.Call.StaticCallee()
			if f == nil || f.String() != "os.OpenFile" || len(call.Call.Args) != 3 {
				continue
			}
			// the flag value(s): directly, or per call site of the enclosing helper
			var flagSets []int64
			decided := true
			if k, ok := evalFlags(call.Call.Args[1], nil, 0); ok {
				flagSets = append(flagSets, k)
			} else if len(sites[fn]) > 0 {
				for _, s := range sites[fn] {
					bind := map[*ssa.Parameter]ssa.Value{}
					for i, p := range fn.Params {
						if i < len(s.Common().Args) {
							bind[p] = s.Common().Args[i]
						}
					}
					if k, ok := evalFlags(call.Call.Args[1], bind, 0); ok {
						flagSets = append(flagSets, k)
					} else {
						decided = false
					}
				}
			} else {
				decided = false
			}
			name := world.FuncName(fn)
			n[name]++
			key := fmt.Sprintf("%s|open-for-write#%d", name, n[name])
			if !decided || len(flagSets) == 0 {
				r.OK(key, w.InstrPos(call), "open flags are not a constant of this function or its call sites (not decided)")
				continue
			}
			// a handle kept in a field lives as long as its store
			inField := false
			if call.Referrers() != nil {
				for _, ref := range *call.Referrers() {
					if ex, ok := ref.(*ssa.Extract); ok && ex.Index == 0 && ex.Referrers() != nil {
						var visit func(v ssa.Value, d int)
						visit = func(v ssa.Value, d int) {
							if d > 4 || v.Referrers() == nil {
								return
							}
							for _, r2 := range *v.Referrers() {
								switch y := r2.(type) {
								case *ssa.Store:
									if fa, ok := y.Addr.(*ssa.FieldAddr); ok && y.Val == v {
										_ = fa
										inField = true
									}
								case *ssa.MakeInterface:
									visit(y, d+1)
								case *ssa.ChangeInterface:
									visit(y, d+1)
								case *ssa.Phi:
									visit(y, d+1)
								}
							}
						}
						visit(ex, 0)
					}
				}
			}
			bad := int64(-1)
			for _, k := range flagSets {
				write := k&int64(os.O_WRONLY|os.O_RDWR) != 0
				if write && k&int64(os.O_TRUNC|os.O_APPEND) == 0 {
					bad = k
				}
			}
			switch {
			case bad < 0:
				r.OK(key, w.InstrPos(call), fmt.Sprintf("flags %#x: read-only, truncating or appending", flagSets))
			case inField:
				r.OK(key, w.InstrPos(call), "a long-lived read-write handle kept in a field (positioned and truncated by its store's own operations)")
			default:
				r.Fail(key, w.InstrPos(call), fmt.Sprintf("%s opens a file for writing with flags %#x - neither O_TRUNC nor O_APPEND - and writes it from the start: when the new content is shorter than the old one the tail of the old content stays in the file (after ACL DELUSER and ACL SAVE the deleted user's record is still there and comes back with the next ACL LOAD or restart)", name, bad))
			}
		}
	}
}
