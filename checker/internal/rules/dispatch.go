package rules

import (
	"fmt"
	"go/token"
	"go/types"
	"sort"
	"strings"

	"golang.org/x/tools/go/ssa"

	"svcheck/internal/report"
	"svcheck/internal/world"
)

func init() {
	register("D1", 4, "authorization gate: every effectful call of the dispatcher (handler invocation, raft apply, forward, AOF log, mutation flag) is dominated by the success edge of AuthorizeConnection or by one of the bypass edges conn==nil / acl==nil / embedded; the gate sees the decoded command and the command/sub-command whose handler is invoked", ruleD1)
	register("D2", 5, "log after success: a write command's raw message is appended to the AOF after, and only after, its handler succeeded, never during replay, under the request's database", ruleD2)
	register("D4", 4, "cluster guard: only the dispatcher and the raft FSM invoke handlers; in a cluster a synced command is never applied locally; raft apply only on the leader; forwarding only when enabled; otherwise an error", ruleD4)
	register("D8", 4, "flag pairing: every path from setting an in-progress flag (atomic.Bool Store(true), start*Func call) to a function exit passes the matching clear (directly or by a registered defer)", ruleD8)
}

// dispCtx gathers the role-based anchors of the dispatcher.
type dispCtx struct {
	w          *world.World
	fn         *ssa.Function
	hcall      ssa.CallInstruction   // first handler invocation (the only one on the pinned tree)
	hcalls     []ssa.CallInstruction // every handler invocation of the dispatcher
	paramsOf   map[ssa.CallInstruction]*ssa.Call
	conn       *ssa.Parameter // *net.Conn
	message    *ssa.Parameter // []byte
	ctxParam   *ssa.Parameter
	replay     *ssa.Parameter
	embedded   *ssa.Parameter
	gate       *ssa.Call     // AuthorizeConnection, or the dispatcher's call of a helper that wraps it
	gateFn     *ssa.Function // the ACL authorization method itself
	gateArgs   []ssa.Value   // its arguments (recv, conn, cmd, command, subCommand) as values of the dispatcher
	decode     *ssa.Call     // internal.Decode(message)
	paramsCall *ssa.Call     // getHandlerFuncParams
	logCalls   []*ssa.Call
	reach      map[*ssa.BasicBlock]bool
}

func getDisp(w *world.World) (*dispCtx, error) {
	fn, hcalls, err := w.Dispatcher()
	if err != nil {
		return nil, err
	}
	if len(hcalls) == 0 {
		return nil, fmt.Errorf("dispatcher %s has no handler invocation", world.FuncName(fn))
	}
	d := &dispCtx{w: w, fn: fn, hcall: hcalls[0], hcalls: hcalls, paramsOf: map[ssa.CallInstruction]*ssa.Call{}, reach: world.Reachable(fn)}
	var bools []*ssa.Parameter
	for _, p := range fn.Params {
		switch t := p.Type().(type) {
		case *types.Pointer:
			if world.TypeIs(t.Elem(), "net", "Conn") {
				d.conn = p
			}
		case *types.Slice:
			if b, ok := t.Elem().(*types.Basic); ok && b.Kind() == types.Byte {
				d.message = p
			}
		case *types.Basic:
			if t.Kind() == types.Bool {
				bools = append(bools, p)
			}
		case *types.Named:
			if world.TypeIs(t, "context", "Context") {
				d.ctxParam = p
			}
		}
	}
	if d.conn == nil || d.message == nil || d.ctxParam == nil || len(bools) != 2 {
		return nil, fmt.Errorf("dispatcher %s: cannot identify parameters (conn, message, ctx, two bools)", world.FuncName(fn))
	}
	// Role of the two bool parameters, from the callers: `embedded` is passed true by the
	// embedded API methods (many sites); `replay` is passed true by the AOF replay closure.
	idx := map[*ssa.Parameter]int{}
	for i, p := range fn.Params {
		idx[p] = i
	}
	trueSites := map[*ssa.Parameter]int{}
	for _, f := range w.ModFns {
		for _, c := range world.Calls(f) {
			if c.Common().StaticCallee() != fn {
				continue
			}
			for _, bp := range bools {
				if v, ok := world.ConstBool(c.Common().Args[idx[bp]]); ok && v {
					trueSites[bp]++
				}
			}
		}
	}
	a, b := bools[0], bools[1]
	switch {
	case trueSites[a] > trueSites[b] && trueSites[b] >= 1:
		d.embedded, d.replay = a, b
	case trueSites[b] > trueSites[a] && trueSites[a] >= 1:
		d.embedded, d.replay = b, a
	default:
		return nil, fmt.Errorf("dispatcher %s: cannot tell the replay and embedded parameters apart from its call sites (%d / %d constant-true sites)", world.FuncName(fn), trueSites[a], trueSites[b])
	}
	for _, c := range world.Calls(fn) {
		call, ok := c.(*ssa.Call)
		if !ok {
			continue
		}
		f := call.Common().StaticCallee()
		if f == nil {
			continue
		}
		switch {
		case f.Signature.Recv() != nil && world.TypeIs(f.Signature.Recv().Type(), "/acl", "ACL") && hasParamType(f, "/internal", "Command") && returnsOnlyError(f):
			if d.gate != nil {
				return nil, fmt.Errorf("dispatcher has more than one authorization call")
			}
			d.gate, d.gateFn, d.gateArgs = call, f, call.Call.Args
		case world.ShortPkg(world.PkgOf(f)) == "internal" && world.BaseName(f) == "Decode":
			d.decode = call
		case f.Signature.Results().Len() == 1 && world.TypeIs(f.Signature.Results().At(0).Type(), "/internal", "HandlerFuncParams"):
			d.paramsCall = call
		}
		// AOF log call: a callee that reaches (*log.Store).Write
		if world.InModule(f) && reachesFunc(w, f, "internal/aof/log.(*Store).Write") {
			d.logCalls = append(d.logCalls, call)
		}
	}
	if d.gate == nil {
		d.findGateWrapper()
	}
	// the parameter record each handler invocation receives
	for _, hc := range d.hcalls {
		for _, a := range hc.Common().Args {
			if pc, ok := a.(*ssa.Call); ok && pc.Call.StaticCallee() != nil && pc.Call.StaticCallee().Signature.Results().Len() == 1 && world.TypeIs(pc.Call.StaticCallee().Signature.Results().At(0).Type(), "/internal", "HandlerFuncParams") {
				d.paramsOf[hc] = pc
			}
		}
	}
	return d, nil
}

func (d *dispCtx) isHandlerCall(in ssa.Instruction) bool {
	for _, hc := range d.hcalls {
		if in == ssa.Instruction(hc) {
			return true
		}
	}
	return false
}

// handlerContexts: the distinct context values given to the handler invocations.
func (d *dispCtx) handlerContexts() []ssa.Value {
	var out []ssa.Value
	for _, hc := range d.hcalls {
		pc := d.paramsOf[hc]
		if pc == nil {
			return nil
		}
		for _, a := range pc.Call.Args {
			if world.TypeIs(a.Type(), "context", "Context") {
				dup := false
				for _, o := range out {
					dup = dup || o == a
				}
				if !dup {
					out = append(out, a)
				}
			}
		}
	}
	return out
}

func isAuthorizeFn(f *ssa.Function) bool {
	return f != nil && f.Signature.Recv() != nil && world.TypeIs(f.Signature.Recv().Type(), "/acl", "ACL") && hasParamType(f, "/internal", "Command") && returnsOnlyError(f)
}

// findGateWrapper accepts as the gate a dispatcher call of a module helper h(...) error that wraps the
// ACL authorization method, provided h returning nil implies that the authorization succeeded or a bypass
// condition (conn==nil, acl==nil, embedded — on h's parameters bound to the dispatcher's) held:
// every return of h either carries the must-fact "authorized or bypassed", or returns the
// authorization call's own error.
func (d *dispCtx) findGateWrapper() {
	for _, c := range world.Calls(d.fn) {
		call, ok := c.(*ssa.Call)
		if !ok {
			continue
		}
		h := call.Call.StaticCallee()
		if h == nil || h.Blocks == nil || !world.InModule(h) || !returnsOnlyError(h) || len(h.Params) != len(call.Call.Args) {
			continue
		}
		var inner *ssa.Call
		n := 0
		for _, c2 := range world.Calls(h) {
			if ic, ok := c2.(*ssa.Call); ok && isAuthorizeFn(ic.Call.StaticCallee()) {
				inner = ic
				n++
			}
		}
		if n != 1 {
			continue
		}
		toOuter := func(v ssa.Value) ssa.Value {
			if p, ok := v.(*ssa.Parameter); ok {
				for i, q := range h.Params {
					if q == p {
						return call.Call.Args[i]
					}
				}
			}
			return v
		}
		var hconn, hemb ssa.Value
		for i, q := range h.Params {
			if call.Call.Args[i] == ssa.Value(d.conn) {
				hconn = q
			}
			if call.Call.Args[i] == ssa.Value(d.embedded) {
				hemb = q
			}
		}
		edges := func(b *ssa.BasicBlock, si int) world.Facts {
			return gateEdgeFacts(b, si, inner, hconn, hemb)
		}
		must := world.Must(h, edges, nil, nil)
		good := true
		for _, ret := range world.Returns(h) {
			rv := world.RetVals(ret)
			if len(rv) != 1 {
				good = false
				continue
			}
			if world.FactsAt(must, ret, nil, nil)&1 != 0 {
				continue
			}
			if src := world.ErrSource(rv[0]); src == ssa.Value(inner) {
				continue // returns the authorization's own verdict
			}
			if world.IsNilConst(rv[0]) || !isFreshError(rv[0]) {
				good = false
			}
		}
		if !good {
			continue
		}
		if d.gate != nil {
			d.gate = nil // ambiguous: fail closed
			return
		}
		d.gate, d.gateFn = call, inner.Call.StaticCallee()
		d.gateArgs = nil
		for _, a := range inner.Call.Args {
			d.gateArgs = append(d.gateArgs, toOuter(a))
		}
	}
}

// isFreshError: v is the result of a call that constructs an error (errors.New, fmt.Errorf): known non-nil.
func isFreshError(v ssa.Value) bool {
	c, ok := v.(*ssa.Call)
	if !ok {
		return false
	}
	f := c.Call.StaticCallee()
	return f != nil && (f.String() == "errors.New" || f.String() == "fmt.Errorf")
}

func hasParamType(f *ssa.Function, pkgSuffix, name string) bool {
	ps := f.Signature.Params()
	for i := 0; i < ps.Len(); i++ {
		if world.TypeIs(ps.At(i).Type(), pkgSuffix, name) {
			return true
		}
	}
	return false
}

func returnsOnlyError(f *ssa.Function) bool {
	rs := f.Signature.Results()
	return rs.Len() == 1 && world.IsErrorType(rs.At(0).Type())
}

var reachMemo = map[string]bool{}

// reachesFunc: target (by FuncName) is reachable from f over module code.
func reachesFunc(w *world.World, f *ssa.Function, target string) bool {
	k := world.FuncName(f) + "->" + target
	if v, ok := reachMemo[k]; ok {
		return v
	}
	r := w.ReachCalls(f)
	res := false
	for _, g := range r.Fns {
		if world.FuncName(g) == target {
			res = true
			break
		}
	}
	reachMemo[k] = res
	return res
}

// origin strips loads, field selections and single-assignment locals down to the
// allocation / call result a value comes from.
func origin(v ssa.Value) ssa.Value {
	for i := 0; i < 20; i++ {
		// a value carried in a field of a local parameter struct is the value stored there
		if f := world.Forward(v); f != v {
			v = f
			continue
		}
		switch x := v.(type) {
		case *ssa.UnOp:
			if x.Op == token.MUL {
				v = x.X
				continue
			}
			return v
		case *ssa.FieldAddr:
			v = x.X
		case *ssa.Field:
			v = x.X
		case *ssa.Extract:
			// a typed result of typeassert / call: keep the tuple's producer for commaok asserts
			if ta, ok := x.Tuple.(*ssa.TypeAssert); ok {
				v = ta
				return v
			}
			return v
		case *ssa.ChangeType:
			v = x.X
		default:
			return v
		}
	}
	return v
}

// originsThroughPhi collects the origins of v through phi nodes.
func originsThroughPhi(v ssa.Value) map[ssa.Value]bool {
	out := map[ssa.Value]bool{}
	seen := map[ssa.Value]bool{}
	var walk func(v ssa.Value)
	walk = func(v ssa.Value) {
		if seen[v] {
			return
		}
		seen[v] = true
		if f := world.Forward(v); f != v {
			walk(f)
			return
		}
		if p, ok := v.(*ssa.Phi); ok {
			for _, e := range p.Edges {
				walk(e)
			}
			return
		}
		out[origin(v)] = true
	}
	walk(v)
	return out
}

// allocOfStoredValue: if v (after origin) is a value stored exactly once into a local alloc
// return that alloc, so that `x := f(); use(x)` and `*alloc = f(); use(*alloc)` compare equal.
func allocHolding(fn *ssa.Function, v ssa.Value) ssa.Value {
	for _, b := range fn.Blocks {
		for _, in := range b.Instrs {
			if st, ok := in.(*ssa.Store); ok && st.Val == v {
				if a, ok := st.Addr.(*ssa.Alloc); ok {
					return a
				}
			}
		}
	}
	return nil
}

func (d *dispCtx) canon(v ssa.Value) ssa.Value {
	o := origin(v)
	if a := allocHolding(d.fn, o); a != nil {
		return a
	}
	return o
}

// isAclField: v is a load of a struct field of type *acl.ACL.
func isAclLoad(v ssa.Value) bool {
	u, ok := v.(*ssa.UnOp)
	if !ok || u.Op != token.MUL {
		return false
	}
	fa, ok := u.X.(*ssa.FieldAddr)
	if !ok {
		return false
	}
	return world.TypeIs(fa.Type().(*types.Pointer).Elem(), "/acl", "ACL")
}

func (d *dispCtx) gateEdges(b *ssa.BasicBlock, si int) world.Facts {
	return gateEdgeFacts(b, si, d.gate, d.conn, d.embedded)
}

// gateEdgeFacts: fact 1 on the success edge of the gate call and on the bypass edges
// conn==nil / acl==nil / embedded.
func gateEdgeFacts(b *ssa.BasicBlock, si int, gate *ssa.Call, conn, embedded ssa.Value) world.Facts {
	const OK world.Facts = 1
	iff := world.IfOf(b)
	if iff == nil {
		return 0
	}
	if gate != nil && world.ErrNilEdge(b, func(v ssa.Value) bool { return v == ssa.Value(gate) }) == si {
		return OK
	}
	if embedded != nil {
		if world.CondValue(iff) == embedded && si == 0 {
			return OK
		}
		if u, ok := world.CondValue(iff).(*ssa.UnOp); ok && u.Op == token.NOT && u.X == embedded && si == 1 {
			return OK
		}
	}
	if x, eq, ok := world.NilTest(world.CondValue(iff)); ok {
		if (conn != nil && x == conn) || isAclLoad(x) {
			if (eq && si == 0) || (!eq && si == 1) {
				return OK
			}
		}
	}
	return 0
}

// sinks lists the effectful instructions of the dispatcher.
type sink struct {
	in   ssa.Instruction
	name string
	why  string
}

func (d *dispCtx) sinks() []sink {
	var out []sink
	w := d.w
	for _, b := range d.fn.Blocks {
		if !d.reach[b] {
			continue
		}
		for _, in := range b.Instrs {
			switch x := in.(type) {
			case *ssa.Store:
				if !world.IsLocalAddr(x.Addr) {
					out = append(out, sink{in, "store", "store to non-local memory"})
				}
			case *ssa.MapUpdate:
				out = append(out, sink{in, "mapupdate", "map update"})
			case *ssa.Send:
				out = append(out, sink{in, "send", "channel send"})
			case ssa.CallInstruction:
				if _, ok := x.Common().Value.(*ssa.Builtin); ok {
					continue
				}
				if d.gate != nil && in == ssa.Instruction(d.gate) {
					continue
				}
				if d.isHandlerCall(in) {
					out = append(out, sink{in, "handler()", "invocation of the command handler"})
					continue
				}
				if _, ok := in.(*ssa.Go); ok {
					out = append(out, sink{in, "go", "goroutine start"})
					continue
				}
				callees := w.Callees(x)
				name := ""
				why := ""
				for _, c := range callees {
					if e := w.Effect(c); e != "" {
						name = c.Name()
						if c.Signature.Recv() != nil {
							name = world.FuncName(c)
						}
						why = e
						break
					}
				}
				if name == "" && len(callees) == 0 && x.Common().IsInvoke() {
					name = "invoke " + x.Common().Method.Name()
					why = "unresolved interface call"
				}
				if name != "" {
					// a deferred clear of a flag is not a pre-gate effect: defers run at exit; still a sink for dominance of registration
					out = append(out, sink{in, name, why})
				}
			}
		}
	}
	return out
}

func sinkKeyName(s sink) string {
	n := s.name
	if i := strings.LastIndex(n, "."); i >= 0 && !strings.HasPrefix(n, "invoke") {
		n = n[i+1:]
	}
	return n
}

func ruleD1(w *world.World, r *report.RuleResult) {
	d, err := getDisp(w)
	if err != nil {
		r.Err = err
		return
	}
	fname := world.FuncName(d.fn)
	if d.gate == nil {
		r.Fail(fname+"|gate", w.Pos(d.fn.Pos()), "the dispatcher contains no call to the ACL authorization method: no command is authorized")
		return
	}
	const OK world.Facts = 1
	in := world.Must(d.fn, d.gateEdges, nil, nil)
	seen := map[string]int{}
	for _, s := range d.sinks() {
		if _, isDefer := s.in.(*ssa.Defer); isDefer {
			continue // registration of a deferred call has no effect before the exit
		}
		n := sinkKeyName(s)
		seen[n]++
		key := fmt.Sprintf("%s|sink:%s#%d", fname, n, seen[n])
		f := world.FactsAt(in, s.in, nil, nil)
		if f&OK != 0 {
			r.OK(key, w.InstrPos(s.in), "authorized on every path: gate success edge or bypass {conn==nil, acl==nil, embedded}")
		} else {
			r.Fail(key, w.InstrPos(s.in), fmt.Sprintf("%s (%s) is reachable on a path that neither passed AuthorizeConnection successfully nor took a bypass edge (conn==nil, acl==nil, embedded): a denied or unauthenticated TCP command can reach it", s.name, s.why))
		}
	}
	// the gate's inputs are the request's: decoded command, looked-up command, sub-command
	args := d.gateArgs // recv, conn, cmd, command, subCommand
	key := fname + "|gate-args"
	var bad []string
	if len(args) != 5 {
		r.Und(key, w.InstrPos(d.gate), "unexpected AuthorizeConnection signature")
		return
	}
	if args[1] != ssa.Value(d.conn) {
		bad = append(bad, "connection argument is not the dispatcher's connection parameter")
	}
	if d.decode == nil || origin(args[2]) != ssa.Value(d.decode) && d.canon(args[2]) != d.canon(extractOf(d.decode, 0)) {
		bad = append(bad, "command-token argument is not the result of decoding the request message")
	} else if len(d.decode.Call.Args) != 1 || d.decode.Call.Args[0] != ssa.Value(d.message) {
		bad = append(bad, "the decoded bytes are not the request message")
	}
	auth := map[ssa.Value]bool{d.canon(args[3]): true, d.canon(args[4]): true}
	for _, hc := range d.hcalls {
		if pc := d.paramsOf[hc]; pc != nil {
			okCmd := false
			for _, a := range pc.Call.Args {
				if d.canon(a) == d.canon(args[2]) {
					okCmd = true
				}
			}
			if !okCmd {
				bad = append(bad, "the token slice given to the handler at "+w.InstrPos(hc)+" differs from the one authorized")
			}
		} else {
			bad = append(bad, "handler parameter construction not found for the invocation at "+w.InstrPos(hc))
		}
		// handler origins ⊆ {command, subCommand} authorized
		ho := originsThroughPhi(hc.Common().Value)
		for o := range ho {
			c := o
			if a := allocHolding(d.fn, o); a != nil {
				c = a
			}
			if !auth[c] {
				bad = append(bad, fmt.Sprintf("the handler invoked at %s comes from %s, which is not the command/sub-command value passed to the gate", w.InstrPos(hc), o.Name()))
			}
		}
		if len(ho) == 0 {
			bad = append(bad, "cannot trace the handler invoked at "+w.InstrPos(hc))
		}
	}
	if len(bad) > 0 {
		r.Fail(key, w.InstrPos(d.gate), strings.Join(bad, "; "))
	} else {
		r.OK(key, w.InstrPos(d.gate), "gate(conn, Decode(message), command, subCommand); handler taken from the same command/subCommand; handler receives the same tokens")
	}
}

func extractOf(c *ssa.Call, idx int) ssa.Value {
	if c == nil || c.Referrers() == nil {
		return nil
	}
	for _, ref := range *c.Referrers() {
		if e, ok := ref.(*ssa.Extract); ok && e.Index == idx {
			return e
		}
	}
	return c
}

// isWriteTest: cond is a call to internal.IsWriteCommand(...)
func isWriteTest(v ssa.Value) bool {
	c, ok := v.(*ssa.Call)
	if !ok {
		return false
	}
	f := c.Call.StaticCallee()
	return f != nil && world.BaseName(f) == "IsWriteCommand" && world.ShortPkg(world.PkgOf(f)) == "internal"
}

// dbContextValues returns, for the context value handed to the handler, the SSA values
// stored under key "Database" by the WithValue chain(s) feeding it.
func dbContextValues(ctx ssa.Value, key string) []ssa.Value {
	var out []ssa.Value
	seen := map[ssa.Value]bool{}
	var walk func(v ssa.Value)
	walk = func(v ssa.Value) {
		if seen[v] {
			return
		}
		seen[v] = true
		switch x := v.(type) {
		case *ssa.Phi:
			for _, e := range x.Edges {
				walk(e)
			}
		case *ssa.Call:
			f := x.Call.StaticCallee()
			if f != nil && f.String() == "context.WithValue" {
				if k, ok := world.ConstString(world.Unwrap(x.Call.Args[1])); ok && k == key {
					out = append(out, world.Unwrap(x.Call.Args[2]))
					return
				}
				walk(x.Call.Args[0])
			}
		}
	}
	walk(ctx)
	return out
}

// isCtxValueRead: v is ctx.Value("<key>") (possibly type-asserted) on context ctxv.
func isCtxValueRead(v ssa.Value, key string) (ctx ssa.Value, ok bool) {
	v = world.Unwrap(v)
	if e, isE := v.(*ssa.Extract); isE {
		v = e.Tuple
	}
	if ta, isTA := v.(*ssa.TypeAssert); isTA {
		v = ta.X
	}
	c, isC := v.(*ssa.Call)
	if !isC || !c.Call.IsInvoke() || c.Call.Method.Name() != "Value" {
		return nil, false
	}
	if k, isK := world.ConstString(world.Unwrap(c.Call.Args[0])); !isK || k != key {
		return nil, false
	}
	return c.Call.Value, true
}

func ruleD2(w *world.World, r *report.RuleResult) {
	d, err := getDisp(w)
	if err != nil {
		r.Err = err
		return
	}
	fname := world.FuncName(d.fn)
	if len(d.logCalls) == 0 {
		r.Fail(fname+"|log-call", w.Pos(d.fn.Pos()), "the dispatcher contains no call that reaches the AOF writer (log.Store.Write): successful write commands are never logged")
		return
	}
	const (
		HOK  world.Facts = 1 << iota // handler returned nil error
		DONE                         // logged, or exempt (not a write command / replay)
		NR                           // not replay
		WR                           // is a write command
	)
	isHV := func(v ssa.Value) bool {
		for _, hc := range d.hcalls {
			if v == hc.(ssa.Value) {
				return true
			}
		}
		return false
	}
	aofStandalone := aofEngineOnlyStandalone(w)
	isLog := func(in ssa.Instruction) bool {
		for _, c := range d.logCalls {
			if in == ssa.Instruction(c) {
				return true
			}
		}
		return false
	}
	eg := func(b *ssa.BasicBlock, si int) world.Facts {
		iff := world.IfOf(b)
		if iff == nil {
			return 0
		}
		var f world.Facts
		if world.ErrNilEdge(b, isHV) == si {
			f |= HOK
		}
		if world.Forward(world.CondValue(iff)) == ssa.Value(d.replay) {
			if si == 0 {
				f |= DONE
			} else {
				f |= NR
			}
		}
		if isWriteTest(world.CondValue(iff)) {
			if si == 1 {
				f |= DONE
			} else {
				f |= WR
			}
		}
		// The AOF is a standalone facility: when the engine is created only on the not-in-cluster
		// branch of the constructor, a handler run on an in-cluster edge has no log to append to.
		if aofStandalone {
			c, neg := world.CondValue(iff), false
			if u, ok := c.(*ssa.UnOp); ok && u.Op == token.NOT {
				c, neg = u.X, true
			}
			if isClusterTest(c) && (si == 0) != neg {
				f |= DONE
			}
		}
		return f
	}
	gen := func(in ssa.Instruction) world.Facts {
		if isLog(in) {
			return DONE
		}
		return 0
	}
	in := world.Must(d.fn, eg, gen, nil)
	// (a) every return after handler success is logged or exempt
	n := 0
	for _, ret := range world.Returns(d.fn) {
		f := world.FactsAt(in, ret, gen, nil)
		// `return handler(...)`: the handler's own verdict is the result, success included
		if rv := world.RetVals(ret); len(rv) > 0 {
			if src := world.ErrSource(rv[len(rv)-1]); src != nil && isHV(src) && src.(ssa.Instruction).Block() == ret.Block() {
				f |= HOK
			}
		}
		if f&HOK == 0 {
			continue
		}
		n++
		key := fmt.Sprintf("%s|a:success-return#%d", fname, n)
		if f&DONE != 0 {
			r.OK(key, w.InstrPos(ret), "every path from handler success to this return logs the command, or the command is not a write / is being replayed")
		} else {
			r.Fail(key, w.InstrPos(ret), "a successful write command can reach this return (its reply is sent) without having been appended to the AOF")
		}
	}
	if n == 0 {
		r.Fail(fname+"|a:success-return", w.Pos(d.fn.Pos()), "no return is dominated by the handler's success edge")
	}
	for i, lc := range d.logCalls {
		f := world.FactsAt(in, lc, gen, nil)
		pos := w.InstrPos(lc)
		sfx := ""
		if i > 0 {
			sfx = fmt.Sprintf("#%d", i+1)
		}
		// (b)
		if f&HOK != 0 {
			r.OK(fname+"|b:log-after-handler-success"+sfx, pos, "AOF append is dominated by the handler's err==nil edge")
		} else {
			r.Fail(fname+"|b:log-after-handler-success"+sfx, pos, "the AOF append can execute before or without a successful handler run: a failed or not-yet-executed command would be replayed on restart")
		}
		// (c)
		if f&NR != 0 {
			r.OK(fname+"|c:no-log-during-replay"+sfx, pos, "AOF append only on the replay==false edge")
		} else {
			r.Fail(fname+"|c:no-log-during-replay"+sfx, pos, "the AOF append is reachable with replay==true: restoring the log would append every replayed command again")
		}
		// (c') only write commands
		if f&WR != 0 {
			r.OK(fname+"|c2:log-only-writes"+sfx, pos, "AOF append only on the IsWriteCommand edge")
		} else {
			r.Fail(fname+"|c2:log-only-writes"+sfx, pos, "the AOF append is not guarded by the write-command test")
		}
		// (d) payload
		payload, dbArg, dbCtx := logOperands(w, lc, 0)
		if world.Forward(payload) == ssa.Value(d.message) && d.decode != nil && len(d.decode.Call.Args) == 1 && d.decode.Call.Args[0] == ssa.Value(d.message) {
			r.OK(fname+"|d:payload-is-request"+sfx, pos, "logged bytes are the dispatcher's message parameter, the same bytes that were decoded and executed")
		} else {
			r.Fail(fname+"|d:payload-is-request"+sfx, pos, "the bytes appended to the AOF are not the received request message that was decoded and executed")
		}
		// (e) database
		key := fname + "|e:log-database" + sfx
		hctxs := d.handlerContexts()
		if (dbArg == nil && dbCtx == nil) || len(hctxs) != 1 {
			r.Und(key, pos, "cannot identify the database operand of the AOF append / the handler's context")
			continue
		}
		hctx := hctxs[0]
		vals := dbContextValues(hctx, "Database")
		if dbCtx != nil && dbCtx == hctx {
			r.OK(key, pos, "database operand is read back (inside the logging helper) from the handler's context (key \"Database\")")
			continue
		}
		if dbArg == nil {
			r.Fail(key, pos, "the logging helper reads the database from a context that is not the one the handler executed with")
			continue
		}
		if c, ok := isCtxValueRead(dbArg, "Database"); ok && c == hctx {
			r.OK(key, pos, "database operand is read back from the handler's context (key \"Database\")")
			continue
		}
		if len(vals) == 0 {
			r.Und(key, pos, "no context.WithValue(\"Database\") feeds the handler's context")
			continue
		}
		// operand must cover every branch value
		cands := []ssa.Value{dbArg}
		if p, ok := dbArg.(*ssa.Phi); ok {
			cands = p.Edges
		}
		var missing []string
		for _, v := range vals {
			found := false
			for _, c := range cands {
				if world.SameExpr(c, v) {
					found = true
				}
			}
			if !found {
				missing = append(missing, exprString(v))
			}
		}
		if len(missing) == 0 {
			r.OK(key, pos, "database operand equals the value stored under \"Database\" in the handler's context on every branch")
		} else {
			r.Fail(key, pos, fmt.Sprintf("the database operand of the AOF append (%s) is not the request's database: the handler's context carries %s on another branch (embedded callers have conn==nil, so a map lookup by conn yields database 0) — the write is logged under the wrong database", exprString(dbArg), strings.Join(missing, ", ")))
		}
	}
}

// logOperands identifies the payload and database operands of an AOF append. When the append is
// wrapped in a module helper (a static callee that itself forwards to the call reaching the log
// writer), the helper's operands are translated back to the caller's arguments; a database the
// helper reads from one of its context parameters is returned as dbCtx (the caller's argument).
func logOperands(w *world.World, lc *ssa.Call, depth int) (payload, dbArg, dbCtx ssa.Value) {
	args := lc.Call.Args
	if !lc.Call.IsInvoke() && lc.Call.StaticCallee() != nil && lc.Call.StaticCallee().Signature.Recv() != nil && len(args) > 0 {
		args = args[1:]
	}
	for _, a := range args {
		switch t := a.Type().Underlying().(type) {
		case *types.Slice:
			payload = a
		case *types.Basic:
			if t.Kind() == types.Int {
				dbArg = a
			}
		}
	}
	if dbArg != nil || depth >= 2 {
		return
	}
	f := lc.Call.StaticCallee()
	if f == nil || f.Blocks == nil || !world.InModule(f) {
		return
	}
	var inner *ssa.Call
	for _, c := range world.Calls(f) {
		call, ok := c.(*ssa.Call)
		if !ok {
			continue
		}
		g := call.Common().StaticCallee()
		if g != nil && world.InModule(g) && reachesFunc(w, g, "internal/aof/log.(*Store).Write") {
			if inner != nil {
				return payload, nil, nil // more than one append in the helper: not translated
			}
			inner = call
		}
	}
	if inner == nil {
		return
	}
	toCaller := func(v ssa.Value) ssa.Value {
		v = world.Unwrap(v)
		if p, ok := v.(*ssa.Parameter); ok {
			for i, q := range f.Params {
				if q == p && i < len(lc.Call.Args) {
					return lc.Call.Args[i]
				}
			}
		}
		return nil
	}
	ip, idb, ictx := logOperands(w, inner, depth+1)
	payload = nil
	if ip != nil {
		payload = toCaller(ip)
	}
	if ictx != nil {
		dbCtx = toCaller(ictx)
		return
	}
	if idb != nil {
		if c, ok := isCtxValueRead(idb, "Database"); ok {
			dbCtx = toCaller(c)
			return
		}
		dbArg = toCaller(idb)
	}
	return
}

// exprString renders a small SSA value tree.
func exprString(v ssa.Value) string {
	switch x := v.(type) {
	case *ssa.Field:
		st := x.X.Type().Underlying().(*types.Struct)
		return exprString(x.X) + "." + world.CanonField(st.Field(x.Field))
	case *ssa.FieldAddr:
		return exprString(x.X) + "." + world.FieldName(x)
	case *ssa.UnOp:
		if x.Op == token.MUL {
			return exprString(x.X)
		}
		return x.Op.String() + exprString(x.X)
	case *ssa.Lookup:
		return exprString(x.X) + "[" + exprString(x.Index) + "]"
	case *ssa.Parameter:
		return x.Name()
	case *ssa.Const:
		if x.Value == nil {
			return "nil"
		}
		return x.Value.ExactString()
	case *ssa.Extract:
		if _, ok := x.Tuple.(*ssa.Next); ok {
			return exprString(x.Tuple) + [...]string{".ok", ".key", ".value"}[x.Index%3]
		}
		return exprString(x.Tuple)
	case *ssa.TypeAssert:
		return exprString(x.X) + ".(" + x.AssertedType.String() + ")"
	case *ssa.Call:
		if x.Call.IsInvoke() {
			s := exprString(x.Call.Value) + "." + x.Call.Method.Name() + "("
			for i, a := range x.Call.Args {
				if i > 0 {
					s += ","
				}
				s += exprString(world.Unwrap(a))
			}
			return s + ")"
		}
		if f := x.Call.StaticCallee(); f != nil {
			return f.Name() + "(…)"
		}
		if b, ok := x.Call.Value.(*ssa.Builtin); ok {
			s := b.Name() + "("
			for i, a := range x.Call.Args {
				if i > 0 {
					s += ","
				}
				s += exprString(a)
			}
			return s + ")"
		}
		if a := world.Accessor(x.Call.Value); a != "" {
			return "params." + a + "(…)"
		}
		return "call(…)"
	case *ssa.Phi:
		return "phi(" + x.Comment + ")"
	case *ssa.IndexAddr:
		return exprString(x.X) + "[" + exprString(x.Index) + "]"
	case *ssa.Index:
		return exprString(x.X) + "[" + exprString(x.Index) + "]"
	case *ssa.Slice:
		s := exprString(x.X) + "["
		if x.Low != nil {
			s += exprString(x.Low)
		}
		s += ":"
		if x.High != nil {
			s += exprString(x.High)
		}
		return s + "]"
	case *ssa.Alloc:
		if x.Comment != "" {
			return x.Comment
		}
		return "local"
	case *ssa.FreeVar:
		return x.Name()
	case *ssa.Global:
		return x.Name()
	case *ssa.Next:
		return "range(" + exprString(x.Iter) + ")"
	case *ssa.Range:
		return exprString(x.X)
	case *ssa.BinOp:
		return exprString(x.X) + x.Op.String() + exprString(x.Y)
	case *ssa.Convert:
		return exprString(x.X)
	case *ssa.ChangeType:
		return exprString(x.X)
	case *ssa.MakeInterface:
		return exprString(x.X)
	case *ssa.Builtin:
		return x.Name()
	case *ssa.Function:
		return x.Name()
	case *ssa.MakeClosure:
		return "func"
	}
	return "<" + strings.TrimPrefix(fmt.Sprintf("%T", v), "*ssa.") + ">"
}

func ruleD4(w *world.World, r *report.RuleResult) {
	d, err := getDisp(w)
	if err != nil {
		r.Err = err
		return
	}
	fname := world.FuncName(d.fn)
	// (a) who may invoke a HandlerFunc
	inv := w.HandlerInvokers()
	var names []string
	for f := range inv {
		names = append(names, world.FuncName(f))
	}
	sort.Strings(names)
	for f := range inv {
		n := world.FuncName(f)
		key := "a:invoker:" + n
		pkg := world.ShortPkg(world.PkgOf(f))
		switch {
		case f == d.fn:
			r.OK(key, w.Pos(f.Pos()), "the dispatcher")
		case pkg == "internal/raft" && f.Signature.Recv() != nil && world.BaseName(f) == "Apply":
			r.OK(key, w.Pos(f.Pos()), "the replicated state machine's Apply (runs committed log entries on every node)")
		default:
			r.Fail(key, w.Pos(f.Pos()), fmt.Sprintf("%s invokes a command handler outside the dispatcher and the raft FSM: such an invocation bypasses the cluster guard, the authorization gate and the AOF (invokers: %s)", n, strings.Join(names, ", ")))
		}
	}
	// (b) local execution only when not in a cluster or not a synced command
	const (
		LOCAL  world.Facts = 1 << iota // !isInCluster() || !synchronize
		LEADER                         // IsRaftLeader() true
		NOTLDR
		FWD
		NOTFWD
		CLUSTER // isInCluster() && synchronize
	)
	isCallNamed := func(v ssa.Value, name string) bool {
		c, ok := v.(*ssa.Call)
		if !ok {
			return false
		}
		f := c.Call.StaticCallee()
		return f != nil && world.BaseName(f) == name
	}
	syncOrigins := func(v ssa.Value) bool {
		// the Sync flag of the command / sub-command, through phis
		ok := false
		seen := map[ssa.Value]bool{}
		var walk func(v ssa.Value) bool
		walk = func(v ssa.Value) bool {
			if seen[v] {
				return true
			}
			seen[v] = true
			switch x := v.(type) {
			case *ssa.Phi:
				for _, e := range x.Edges {
					if !walk(e) {
						return false
					}
				}
				return true
			case *ssa.UnOp:
				if fa, isFA := x.X.(*ssa.FieldAddr); isFA && x.Op == token.MUL && world.FieldName(fa) == "Sync" {
					ok = true
					return true
				}
			case *ssa.Field:
				st := x.X.Type().Underlying().(*types.Struct)
				if world.CanonField(st.Field(x.Field)) == "Sync" {
					ok = true
					return true
				}
			}
			return false
		}
		return walk(v) && ok
	}
	isFwdFlag := func(v ssa.Value) bool {
		u, ok := v.(*ssa.UnOp)
		if !ok || u.Op != token.MUL {
			return false
		}
		fa, ok := u.X.(*ssa.FieldAddr)
		return ok && world.FieldName(fa) == "ForwardCommand"
	}
	eg := func(b *ssa.BasicBlock, si int) world.Facts {
		iff := world.IfOf(b)
		if iff == nil {
			return 0
		}
		c := world.CondValue(iff)
		neg := false
		if u, ok := c.(*ssa.UnOp); ok && u.Op == token.NOT {
			c, neg = u.X, true
		}
		tEdge := (si == 0) != neg
		switch {
		case isCallNamed(c, "isInCluster"):
			if !tEdge {
				return LOCAL
			}
		case syncOrigins(c):
			if !tEdge {
				return LOCAL
			}
			return CLUSTER
		case isCallNamed(c, "IsRaftLeader"):
			if tEdge {
				return LEADER
			}
			return NOTLDR
		case isFwdFlag(c):
			if tEdge {
				return FWD
			}
			return NOTFWD
		}
		return 0
	}
	in := world.Must(d.fn, eg, nil, nil)
	for i, hc := range d.hcalls {
		key := fname + "|b:local-exec-guard"
		if i > 0 {
			key += fmt.Sprintf("#%d", i+1)
		}
		if world.FactsAt(in, hc, nil, nil)&LOCAL != 0 {
			r.OK(key, w.InstrPos(hc), "handler invoked only over an edge where isInCluster() is false or the command's Sync flag is false")
		} else {
			r.Fail(key, w.InstrPos(hc), "the handler can be invoked locally for a synced command while the node is in a cluster: a (possibly non-leader) node applies a client write without replication")
		}
	}
	// (c) raft apply only on the leader; forward only when enabled
	nApply, nFwd := 0, 0
	for _, c := range world.Calls(d.fn) {
		call, ok := c.(*ssa.Call)
		if !ok || !d.reach[call.Block()] {
			continue
		}
		fn := call.Call.StaticCallee()
		if fn == nil || !world.InModule(fn) {
			continue
		}
		ff := world.FactsAt(in, call, nil, nil)
		if reachesFunc(w, fn, "internal/raft.(*Raft).Apply") {
			nApply++
			key := fmt.Sprintf("%s|c:raft-apply-on-leader#%d", fname, nApply)
			if ff&LEADER != 0 {
				r.OK(key, w.InstrPos(call), "replicated apply only on the IsRaftLeader() true edge")
			} else {
				r.Fail(key, w.InstrPos(call), "the raft apply of a client command is reachable when this node is not the leader")
			}
		}
		if world.ShortPkg(world.PkgOf(fn)) == "internal/memberlist" && strings.HasPrefix(fn.Name(), "Forward") {
			nFwd++
			key := fmt.Sprintf("%s|c:forward-when-enabled#%d", fname, nFwd)
			if ff&FWD != 0 && ff&NOTLDR != 0 {
				r.OK(key, w.InstrPos(call), "forwarded to the leader only on the ForwardCommand true edge of a non-leader")
			} else {
				r.Fail(key, w.InstrPos(call), "the write is forwarded without the ForwardCommand setting being true (or on the leader)")
			}
		}
	}
	if nApply == 0 {
		r.Fail(fname+"|c:raft-apply-on-leader", w.Pos(d.fn.Pos()), "the dispatcher has no path that submits a synced command to raft")
	}
	// (d) remaining cluster path returns an error
	nret := 0
	for _, ret := range world.Returns(d.fn) {
		ff := world.FactsAt(in, ret, nil, nil)
		if ff&NOTLDR != 0 && ff&NOTFWD != 0 {
			nret++
			key := fmt.Sprintf("%s|d:non-leader-rejects#%d", fname, nret)
			rv := world.RetVals(ret)
			if len(rv) == 2 && !world.IsNilConst(rv[1]) {
				r.OK(key, w.InstrPos(ret), "non-leader without forwarding returns a non-nil error")
			} else {
				r.Fail(key, w.InstrPos(ret), "a non-leader with forwarding disabled acknowledges the write (nil error) although it was neither applied nor forwarded")
			}
		}
	}
	if nret == 0 {
		r.Fail(fname+"|d:non-leader-rejects", w.Pos(d.fn.Pos()), "no return is reached over the not-leader / not-forwarding edges")
	}
}

// ---- D8 flag pairing ----

type pairSpec struct {
	what    string
	isSet   func(in ssa.Instruction) bool
	isClear func(in ssa.Instruction) bool
}

// atomicBoolStore: in is X.Store(<val>) on an atomic.Bool struct field; returns the field name.
func atomicBoolStore(in ssa.Instruction) (field string, val, ok bool) {
	c, isCall := in.(ssa.CallInstruction)
	if !isCall {
		return "", false, false
	}
	f := c.Common().StaticCallee()
	if f == nil || f.String() != "(*sync/atomic.Bool).Store" {
		return "", false, false
	}
	fa, isFA := c.Common().Args[0].(*ssa.FieldAddr)
	if !isFA {
		return "", false, false
	}
	v, isConst := world.ConstBool(c.Common().Args[1])
	if !isConst {
		return "", false, false
	}
	return world.FieldName(fa), v, true
}

// fieldFuncCall: in is a call through a struct field of func type; returns the field name.
func fieldFuncCall(in ssa.Instruction) (string, bool) {
	c, ok := in.(ssa.CallInstruction)
	if !ok || c.Common().IsInvoke() || c.Common().StaticCallee() != nil {
		return "", false
	}
	u, ok := c.Common().Value.(*ssa.UnOp)
	if !ok || u.Op != token.MUL {
		return "", false
	}
	fa, ok := u.X.(*ssa.FieldAddr)
	if !ok {
		return "", false
	}
	return world.FieldName(fa), true
}

// deferredClears: does the deferred call (direct or closure body, on all its paths) perform a clear?
func deferClears(w *world.World, df *ssa.Defer, isClear func(ssa.Instruction) bool) bool {
	if isClear(df) {
		return true
	}
	var body *ssa.Function
	switch v := df.Call.Value.(type) {
	case *ssa.MakeClosure:
		body, _ = v.Fn.(*ssa.Function)
	case *ssa.Function:
		body = v
	}
	if body == nil || body.Blocks == nil {
		return false
	}
	// must: every return of the body is preceded by a clear
	const C world.Facts = 1
	gen := func(in ssa.Instruction) world.Facts {
		if isClear(in) {
			return C
		}
		return 0
	}
	in := world.Must(body, nil, gen, nil)
	for _, ret := range world.Returns(body) {
		if world.FactsAt(in, ret, gen, nil)&C == 0 {
			return false
		}
	}
	return true
}

// pairLeaks returns the exits reachable from a set instruction without a clear.
func pairLeaks(w *world.World, fn *ssa.Function, set ssa.Instruction, isClear func(ssa.Instruction) bool) []ssa.Instruction {
	// a defer of the clear that dominates the set covers every exit
	for _, b := range fn.Blocks {
		for _, in := range b.Instrs {
			if df, ok := in.(*ssa.Defer); ok && deferClears(w, df, isClear) && world.Dominates(df, set) {
				return nil
			}
		}
	}
	var leaks []ssa.Instruction
	seen := map[*ssa.BasicBlock]bool{}
	var dfs func(b *ssa.BasicBlock, from int)
	dfs = func(b *ssa.BasicBlock, from int) {
		for i := from; i < len(b.Instrs); i++ {
			in := b.Instrs[i]
			if isClear(in) {
				return
			}
			if df, ok := in.(*ssa.Defer); ok && deferClears(w, df, isClear) {
				return
			}
			switch in.(type) {
			case *ssa.Return, *ssa.Panic:
				leaks = append(leaks, in)
				return
			}
		}
		for _, s := range b.Succs {
			if !seen[s] {
				seen[s] = true
				dfs(s, 0)
			}
		}
	}
	blk := set.Block()
	for i, in := range blk.Instrs {
		if in == set {
			dfs(blk, i+1)
		}
	}
	return leaks
}

// flagWrappers: module functions that only set (resp. only clear) an *InProgress atomic flag, so that
// a call of one of them is the set (resp. clear) event at the caller (startSnapshot/finishSnapshot style
// helpers, or a set/clear extracted from the function that used to contain it).
func flagWrappers(w *world.World) (setters, clearers map[*ssa.Function]string) {
	setters, clearers = map[*ssa.Function]string{}, map[*ssa.Function]string{}
	for _, fn := range w.ModFns {
		sets, clears := map[string]bool{}, map[string]bool{}
		for _, f2 := range append([]*ssa.Function{fn}, fn.AnonFuncs...) {
			for _, b := range f2.Blocks {
				for _, in := range b.Instrs {
					if field, val, ok := atomicBoolStore(in); ok && strings.HasSuffix(field, "InProgress") {
						if val {
							sets[field] = true
						} else {
							clears[field] = true
						}
					}
				}
			}
		}
		for f := range sets {
			if !clears[f] && len(sets) == 1 {
				setters[fn] = f
			}
		}
		for f := range clears {
			if !sets[f] && len(clears) == 1 {
				clearers[fn] = f
			}
		}
	}
	return
}

func ruleD8(w *world.World, r *report.RuleResult) {
	setters, clearers := flagWrappers(w)
	// flagEvent: (field, isSet) for a direct atomic store or a static call of a set/clear wrapper
	flagEvent := func(in ssa.Instruction) (string, bool, bool) {
		if field, val, ok := atomicBoolStore(in); ok && strings.HasSuffix(field, "InProgress") {
			return field, val, true
		}
		if c, ok := in.(ssa.CallInstruction); ok {
			if f := c.Common().StaticCallee(); f != nil {
				if field, ok := setters[f]; ok {
					return field, true, true
				}
				if field, ok := clearers[f]; ok {
					return field, false, true
				}
			}
		}
		return "", false, false
	}
	for _, fn := range w.ModFns {
		for _, b := range fn.Blocks {
			for _, in := range b.Instrs {
				// flag set (directly or through a setter helper) paired with the clear of the same field in the same function
				if field, val, ok := flagEvent(in); ok && val {
					if _, isDefer := in.(*ssa.Defer); isDefer {
						continue
					}
					isClear := func(x ssa.Instruction) bool {
						f2, v2, ok2 := flagEvent(x)
						return ok2 && f2 == field && !v2
					}
					hasClear := false
					for _, f2 := range append([]*ssa.Function{fn}, fn.AnonFuncs...) {
						for _, b2 := range f2.Blocks {
							for _, x := range b2.Instrs {
								if isClear(x) {
									hasClear = true
								}
							}
						}
					}
					if !hasClear {
						// set and clear live in different functions (startSnapshot/finishSnapshot): paired at the caller
						continue
					}
					key := world.FuncName(fn) + "|flag:" + field
					leaks := pairLeaks(w, fn, in, isClear)
					if len(leaks) == 0 {
						r.OK(key, w.InstrPos(in), "every exit after "+field+".Store(true) passes Store(false)")
					} else {
						var ps []string
						for _, l := range leaks {
							ps = append(ps, w.InstrPos(l))
						}
						r.Fail(key, w.InstrPos(in), fmt.Sprintf("%s is set to true here and %d exit(s) are reachable without clearing it (%s): the flag stays set, and every later state copy (snapshot, AOF rewrite, raft snapshot) waits for it forever", field, len(leaks), strings.Join(ps, ", ")))
					}
				}
				// start*Func() ... finish*Func()
				if name, ok := fieldFuncCall(in); ok && strings.HasPrefix(name, "start") {
					if _, isDefer := in.(*ssa.Defer); isDefer {
						continue
					}
					want := "finish" + strings.TrimPrefix(name, "start")
					isClear := func(x ssa.Instruction) bool {
						n2, ok2 := fieldFuncCall(x)
						return ok2 && n2 == want
					}
					hasClear := false
					for _, f2 := range append([]*ssa.Function{fn}, fn.AnonFuncs...) {
						for _, b2 := range f2.Blocks {
							for _, x := range b2.Instrs {
								if isClear(x) {
									hasClear = true
								}
							}
						}
					}
					if !hasClear {
						// start and finish live in different functions (raft Persist/Release): paired by the library's contract
						continue
					}
					key := world.FuncName(fn) + "|pair:" + name
					leaks := pairLeaks(w, fn, in, isClear)
					if len(leaks) == 0 {
						r.OK(key, w.InstrPos(in), "every exit after "+name+"() passes "+want+"()")
					} else {
						var ps []string
						for _, l := range leaks {
							ps = append(ps, w.InstrPos(l))
						}
						r.Fail(key, w.InstrPos(in), fmt.Sprintf("%s() is called here and %d exit(s) are reachable without %s() (%s): the in-progress indication is never cleared and later attempts are refused forever", name, len(leaks), want, strings.Join(ps, ", ")))
					}
				}
			}
		}
	}
}

// isClusterTest: v is a call of the module's in-cluster predicate (SugarDB.isInCluster).
func isClusterTest(v ssa.Value) bool {
	c, ok := v.(*ssa.Call)
	if !ok {
		return false
	}
	f := c.Call.StaticCallee()
	return f != nil && world.InModule(f) && world.BaseName(f) == "isInCluster"
}

// aofEngineOnlyStandalone: every store to a SugarDB field of type *aof.Engine lies on an edge
// where the in-cluster predicate is false (the AOF engine exists only in standalone mode), and
// there is at least one such store.
func aofEngineOnlyStandalone(w *world.World) bool {
	const NC world.Facts = 1
	n := 0
	for _, fn := range w.FuncsIn("sugardb") {
		var stores []ssa.Instruction
		for _, b := range fn.Blocks {
			for _, in := range b.Instrs {
				st, ok := in.(*ssa.Store)
				if !ok {
					continue
				}
				fa, ok := st.Addr.(*ssa.FieldAddr)
				if !ok || !world.TypeIs(world.FieldOf(fa).Type(), "internal/aof", "Engine") {
					continue
				}
				stores = append(stores, in)
			}
		}
		if len(stores) == 0 {
			continue
		}
		eg := func(b *ssa.BasicBlock, si int) world.Facts {
			iff := world.IfOf(b)
			if iff == nil {
				return 0
			}
			c, neg := world.CondValue(iff), false
			if u, ok := c.(*ssa.UnOp); ok && u.Op == token.NOT {
				c, neg = u.X, true
			}
			if isClusterTest(c) && (si == 0) == neg {
				return NC
			}
			return 0
		}
		in := world.Must(fn, eg, nil, nil)
		for _, st := range stores {
			n++
			if world.FactsAt(in, st, nil, nil)&NC == 0 {
				return false
			}
		}
	}
	return n > 0
}
