package rules

import (
	"fmt"
	"go/token"
	"sort"
	"strings"

	"golang.org/x/tools/go/ssa"

	"svcheck/internal/report"
	"svcheck/internal/world"
)

func init() {
	register("TM", 14, "type check before mutation: in the handlers of the hash, list, set and sorted-set families every keyspace mutation (DeleteKey, SetValues, SetExpiry) is reached only after a stored value has passed a comma-ok type assertion, or over the edge on which the key was found not to exist — a command of the family never deletes or overwrites a key of another type before it has looked at it (HSET and the *STORE destinations overwrite by design: HSET is excluded, a STORE handler is covered through the assertion of its sources)", ruleTM)
}

func ruleTM(w *world.World, r *report.RuleResult) {
	cmds, err := w.Commands()
	if err != nil {
		r.Err = err
		return
	}
	fam := func(fn *ssa.Function) bool {
		n := world.FuncName(fn)
		for _, p := range []string{"internal/modules/hash.", "internal/modules/list.", "internal/modules/set.", "internal/modules/sorted_set."} {
			if strings.HasPrefix(n, p) {
				return true
			}
		}
		return false
	}
	hs, names := handlersOf(cmds, nil)
	var fns []*ssa.Function
	seen := map[*ssa.Function]bool{}
	// overwrites by design: HSET replaces a value of another type, the *STORE commands replace their
	// destination whatever it held (SetValues only; a DeleteKey there is still checked)
	overwrites := map[*ssa.Function]bool{}
	for _, h := range hs {
		if !fam(h) {
			continue
		}
		all := len(names[h]) > 0
		for _, n := range names[h] {
			if !(strings.HasSuffix(strings.ToLower(n), "store") || strings.EqualFold(n, "hset") || strings.EqualFold(n, "hsetnx")) {
				all = false
			}
		}
		for _, f := range w.ReachFrom(h, false).Fns {
			if fam(f) && f.Blocks != nil {
				if !seen[f] {
					seen[f] = true
					fns = append(fns, f)
					overwrites[f] = all
				} else if !all {
					overwrites[f] = false
				}
			}
		}
	}
	sort.Slice(fns, func(i, j int) bool { return world.FuncName(fns[i]) < world.FuncName(fns[j]) })
	const OK world.Facts = 1
	fromAccessor := func(v ssa.Value, name string) bool {
		return derivesFrom(v, func(x ssa.Value) bool {
			c, ok := x.(ssa.CallInstruction)
			return ok && world.AccessorCall(c) == name
		}, 0)
	}
	for _, fn := range fns {
		var muts []ssa.CallInstruction
		for _, c := range world.Calls(fn) {
			if a := world.AccessorCall(c); a == "DeleteKey" || a == "SetValues" || a == "SetExpiry" {
				muts = append(muts, c)
			}
		}
		if len(muts) == 0 {
			continue
		}
		eg := func(b *ssa.BasicBlock, si int) world.Facts {
			iff := world.IfOf(b)
			if iff == nil {
				return 0
			}
			c := world.CondValue(iff)
			neg := false
			for {
				if u, ok := c.(*ssa.UnOp); ok && u.Op == token.NOT {
					c, neg = u.X, !neg
					continue
				}
				break
			}
			// ok edge of a comma-ok assertion on a value read from the store
			if ex, ok := c.(*ssa.Extract); ok && ex.Index == 1 {
				if ta, ok := ex.Tuple.(*ssa.TypeAssert); ok && ta.CommaOk && fromAccessor(ta.X, "GetValues") {
					if (si == 0) != neg {
						return OK
					}
					return 0
				}
			}
			// "key does not exist" edge of an existence test
			if fromAccessor(c, "KeysExist") {
				if _, isTA := c.(*ssa.Extract); !isTA {
					if (si == 1) != neg {
						return OK
					}
				}
			}
			return 0
		}
		// a type switch / single-value use guarded elsewhere: a value-typed use of an asserted value
		must := world.Must(fn, eg, nil, nil)
		for i, c := range muts {
			key := fmt.Sprintf("%s|%s#%d-after-type-check", world.FuncName(fn), world.AccessorCall(c), i+1)
			if overwrites[fn] && world.AccessorCall(c) == "SetValues" {
				r.Skip(key, w.InstrPos(c), "the command replaces its destination (or, for HSET, a value of another type) by design")
				continue
			}
			if world.FactsAt(must, c, nil, nil)&OK != 0 {
				r.OK(key, w.InstrPos(c), "reached only after a stored value passed its type assertion, or on the key-absent edge")
			} else {
				r.Fail(key, w.InstrPos(c), fmt.Sprintf("%s can reach this %s on a path on which no stored value has passed a type assertion and the key was not found absent: applied to a key holding another type, the command deletes or overwrites it instead of failing with a wrong-type error", world.FuncName(fn), world.AccessorCall(c)))
			}
		}
	}
}
