package rules

// Property definitions: which rules decide which clause of which property.
// A property with an empty Rules list is not claimed (MANIFEST.not_applicable).

const stance = "Static analysis of /repo's current source (go/packages + go/types + go/ssa + VTA call graph). Decides structural NECESSARY conditions of the property over all CFG paths / call-graph paths / table entries of the code — not the behavioural property itself. "

func init() {
	defProp(&Prop{ID: "C01", Title: "Keyspace is a sequential typed map",
		Explanation: stance + "Decided clause: a generic/string command applied to a value of the wrong type fails with an error instead of panicking or silently succeeding (type assertions on store values are comma-ok with an error exit), and constant indices into the command are inside every possible length.",
		NotCovered:  []string{"last-write-wins, counter arithmetic, byte-for-byte preservation, option combinations of SET, deadlines carried across SET/RENAME (value-level; no sound static argument in reach)"},
	})
	defProp(&Prop{ID: "C02", Title: "Append-only log",
		Explanation: stance + "Decided clauses: every successful write command is appended to the AOF after (and only after) its handler succeeded, with the bytes received, under the request's database, never during replay (D2); mutating handlers are write-classified, otherwise they are never logged (T2); under 'always' the writer fsyncs before it reports success and a database switch is logged before the command (D3); restore applies the preamble before the log and replays each command into the database of the last SELECT marker (D7).",
		Decides:     []string{"D2 log-after-success in the dispatcher", "D3 sync-before-ack and SELECT marker in log.Store.Write", "D7 restore order and replay database", "T2 mutating handlers are write-classified"},
		NotCovered:  []string{"that replaying the logged commands reproduces the dataset (value semantics of each handler)", "torn final record tolerance (behaviour of tidwall/resp on given bytes)", "everysec/no timing"},
		Assumptions: []string{"os.File.Sync is durable; os.O_APPEND appends atomically"},
		Rules:       []RuleRef{{ID: "D2"}, {ID: "D3"}, {ID: "D7"}, {ID: "T2"}},
	})
	defProp(&Prop{ID: "C03", Title: "Snapshot round trip",
		Explanation: stance,
	})
	defProp(&Prop{ID: "C04", Title: "Expiry",
		Explanation: stance,
	})
	defProp(&Prop{ID: "C05", Title: "Commands are atomic",
		Explanation: stance,
	})
	defProp(&Prop{ID: "C06", Title: "ACL authorization",
		Explanation: stance + "Decided clauses: every effectful step of the TCP dispatcher (handler invocation, raft apply, forwarding, AOF append, mutation flag) is dominated by a successful AuthorizeConnection or by a bypass edge for non-TCP callers, and the gate sees the very command, sub-command and tokens that are executed (D1).",
		Decides:     []string{"D1 authorization gate dominates every sink of the dispatcher; gate inputs are the request's"},
		NotCovered:  []string{"glob matching semantics, category arithmetic, polarity of individual tests, rule normalisation (value-level)"},
		Rules:       []RuleRef{{ID: "D1"}},
	})
	defProp(&Prop{ID: "C07", Title: "Replication",
		Explanation: stance + "Decided clauses: only the dispatcher and the raft FSM invoke command handlers; in a cluster a synced command is never applied locally, raft apply happens only on the leader, forwarding only when enabled, otherwise the client gets an error (D4); every handler that can mutate the keyspace is Sync, i.e. replicated (T2).",
		Decides:     []string{"D4 cluster guard and routing", "T2 mutators are Sync"},
		NotCovered:  []string{"convergence after quiescence, ordering inside hashicorp/raft, leadership changes (library behaviour over histories)"},
		Rules:       []RuleRef{{ID: "D4"}, {ID: "T2"}},
	})
	defProp(&Prop{ID: "C08", Title: "Max-memory policy",
		Explanation: stance,
	})
	defProp(&Prop{ID: "C09", Title: "Log rewrite",
		Explanation: stance + "Decided clauses: the log is truncated only after, and only if, the preamble was written and synced successfully, inside one critical section of the engine mutex; the preamble bytes are the marshalled current state (D5); restore order (D7); the rewrite-in-progress indication is cleared on every exit (D8).",
		Decides:     []string{"D5 rewrite order and critical section", "D7 restore order", "D8 start/finish pairing"},
		NotCovered:  []string{"equality of restored datasets; interleavings beyond lock coverage"},
		Rules:       []RuleRef{{ID: "D5"}, {ID: "D7"}, {ID: "D8", Scope: []string{"internal/aof.", "getState", "handleCommand"}, Floor: 3}},
	})
	defProp(&Prop{ID: "C10", Title: "Snapshots are crash-atomic",
		Explanation: stance + "Decided by a typestate over the file operations of TakeSnapshot: the manifest at its final path is replaced only after the new state file was written and fsynced successfully, by an atomic rename of a temporary that was written, fsynced and closed; no failure / nothing-new return is preceded by a manifest replacement or a last-save update; LASTSAVE is published only after the manifest is in place; writer and reader build the same paths (D6); the snapshot-in-progress indication is cleared on every exit (D8).",
		Decides:     []string{"D6 (a) state durable before manifest replace, (b) atomic rename, (c) failed attempts leave the manifest, (d) last-save after publish, (e) path agreement", "D8 start/finish pairing"},
		NotCovered:  []string{"fsync of the containing directory is not modelled", "content equality of the restored dataset"},
		Assumptions: []string{"os.Rename within one directory is atomic; os.Create/O_TRUNC truncate; (*os.File).Sync is durable"},
		Rules:       []RuleRef{{ID: "D6"}, {ID: "D8", Scope: []string{"internal/snapshot."}, Floor: 1}},
	})
	defProp(&Prop{ID: "C11", Title: "Authentication and user lifecycle",
		Explanation: stance,
	})
	defProp(&Prop{ID: "C12", Title: "Wire protocol",
		Explanation: stance + "Decided clause: the handler the dispatcher invokes is non-nil for every registered command (no nil-func crash on a bare parent command) (T1).",
		Decides:     []string{"T1 complete dispatch"},
		NotCovered:  []string{"framing of pipelined or split input (byte-stream behaviour)", "data-dependent indices", "array-header/element-count agreement", "agreement of the embedded API's parser with the reply"},
		Rules:       []RuleRef{{ID: "T0"}, {ID: "T1"}},
	})
	defProp(&Prop{ID: "C13", Title: "Read-only commands are pure", Explanation: stance})
	defProp(&Prop{ID: "C14", Title: "Hash commands", Explanation: stance})
	defProp(&Prop{ID: "C15", Title: "List commands", Explanation: stance})
	defProp(&Prop{ID: "C16", Title: "Set commands", Explanation: stance})
	defProp(&Prop{ID: "C17", Title: "Sorted-set commands", Explanation: stance})
	defProp(&Prop{ID: "C18", Title: "Pub/Sub", Explanation: stance})
	defProp(&Prop{ID: "C19", Title: "Reported memory usage", Explanation: stance})
	defProp(&Prop{ID: "C20", Title: "Logical databases", Explanation: stance})
}

// NotApplicableReason is used for unclaimed properties in MANIFEST.json.
var NotApplicableReason = map[string]string{}
