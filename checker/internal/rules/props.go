package rules

// Property definitions: which rules decide which clause of which property.
// A property with an empty Rules list is not claimed (MANIFEST.not_applicable).

const stance = "Static analysis of /repo's current source (go/packages + go/types + go/ssa + VTA call graph). Decides structural NECESSARY conditions of the property over all CFG paths / call-graph paths / table entries of the code — not the behavioural property itself. "

func init() {
	defProp(&Prop{ID: "C01", Title: "Keyspace is a sequential typed map",
		Explanation: stance + "Decided clause: a generic/string command applied to a value of the wrong type fails with an error instead of panicking or silently succeeding (type assertions on store values are comma-ok with an error exit), and constant indices into the command are inside every possible length.",
		Decides:     []string{"WT wrong-type discipline of the generic and string handlers", "AR constant index safety of the generic and string handlers and key functions", "NUM every numeric conversion of the family parses/prints base 10, 64 bits", "X4 a multi-key write gives each key its own deadline", "FA the write that can be refused is the first keyspace mutation of the command (a command that fails has changed nothing)", "DC counted changes are duplicate-safe", "MV write-then-delete under two client-supplied names is guarded by a comparison of the names (RENAME k k)", "A1 refusal-before-first-write: a multi-key write refused at the memory limit has changed nothing"},
		NotCovered:  []string{"last-write-wins, counter arithmetic, byte-for-byte preservation, option combinations of SET, deadlines carried across SET/RENAME (value-level; no sound static argument in reach)"},
		Rules: []RuleRef{
			{ID: "WT", Scope: []string{"internal/modules/generic.", "internal/modules/string."}, Floor: 15},
			{ID: "AR", Scope: []string{"internal/modules/generic.", "internal/modules/string."}, Floor: 55},
			{ID: "NUM", Scope: []string{"internal/modules/generic.", "internal/modules/string."}, Floor: 10},
			{ID: "FA", Scope: []string{"internal/modules/generic.", "internal/modules/string."}, Floor: 10},
			{ID: "DC", Scope: []string{"internal/modules/generic.", "internal/modules/string."}, Floor: 1},
			{ID: "MV", Scope: []string{"internal/modules/generic."}, Floor: 1},
			{ID: "X4"},
			{ID: "A1", Scope: []string{"refusal-before-first-write"}, Floor: 1},
		},
	})
	defProp(&Prop{ID: "C02", Title: "Append-only log",
		Explanation: stance + "Decided clauses: every successful write command is appended to the AOF after (and only after) its handler succeeded, with the bytes received, under the request's database, never during replay (D2); mutating handlers are write-classified, otherwise they are never logged (T2); under 'always' the writer fsyncs before it reports success and a database switch is logged before the command (D3); restore applies the preamble before the log and replays each command into the database of the last SELECT marker (D7).",
		Decides:     []string{"D2 log-after-success in the dispatcher", "D3 sync-before-ack and SELECT marker in log.Store.Write", "D7 restore order and replay database", "T2 mutating handlers are write-classified", "R2 the log's own SELECT marker is well-formed RESP for every database index", "L1 the log handle is used only under the store mutex"},
		NotCovered:  []string{"that replaying the logged commands reproduces the dataset (value semantics of each handler)", "torn final record tolerance (behaviour of tidwall/resp on given bytes)", "everysec/no timing"},
		Assumptions: []string{"os.File.Sync is durable; os.O_APPEND appends atomically"},
		Rules:       []RuleRef{{ID: "D2"}, {ID: "D3"}, {ID: "D7"}, {ID: "T2"}, {ID: "R2", Scope: []string{"internal/aof"}, Floor: 2}, {ID: "L1", Scope: []string{"log.Store"}, Floor: 2}, {ID: "D5"}, {ID: "OA"}, {ID: "N3", Scope: []string{"rebinds-database", "replay-context"}, Floor: 2}},
	})
	defProp(&Prop{ID: "C03", Title: "Snapshot round trip",
		Explanation: stance + "Decided clauses: (1) every concrete type handlers store as a value is reproduced with the same dynamic type by the snapshot codec (E8); (2) the restore callbacks store data.Value and data.ExpireAt for the same key and database, the state callbacks copy every database and key (RC); (3) the expired-key filter removes exactly entries whose non-zero deadline is before now (X3 on FilterExpiredKeys); (4) the automatic trigger fires when the change count is at or above the threshold and not below (TR); (5) LASTSAVE is published only after the snapshot is durable and named in the manifest (D6 d); (6) the state copy runs under the store lock (L1 on getState).",
		Decides:     []string{"E8 codec table agreement", "RC restore/state callbacks", "X3 expired-key filter orientation", "TR automatic trigger", "D6(d) last-save after publish", "L1 state copy under the store lock", "SA a SAVE that replies OK has started a snapshot"},
		NotCovered:  []string{"equality of the restored dataset with the dataset at the snapshot instant (needs execution)", "timing of the snapshot interval"},
		Rules: []RuleRef{{ID: "E8"}, {ID: "RC"}, {ID: "X3", Scope: []string{"internal.FilterExpiredKeys"}, Floor: 2}, {ID: "TR"},
			{ID: "D6", Scope: []string{"|d:lastsave", "|e:writer-reader"}, Floor: 2}, {ID: "L1", Scope: []string{"sugardb.(*SugarDB).getState|"}, Floor: 1}, {ID: "SA", Scope: []string{"takeSnapshot"}, Floor: 1}},
		Tech: "static analysis: type-flow table of stored dynamic types vs a model of encoding/json; SSA dataflow identity; abstract evaluation over orderings",
	})
	defProp(&Prop{ID: "C04", Title: "Expiry",
		Explanation: stance + "Decided clauses: every read primitive of the keyspace reports an entry only on the 'deadline not passed' edge of an expiry test of that entry, with the right orientation and the zero deadline treated as alive (X1); every expiry-driven removal (background sampler, lazy deletion, snapshot filter) happens only on the edges 'a deadline is set' and 'it has passed', established since the last mutex release (X3); setValues does not carry over a deadline that has already passed (X4); EXPIRE/PEXPIRE/EXPIREAT/PEXPIREAT set the deadline and reply exactly as documented for option x current-deadline x ordering (X5); PERSIST / zero deadlines leave the volatile index (A3).",
		Decides:     []string{"X1 expired keys unobservable through KeysExist/GetValues/GetExpiry/Randomkey", "X3 only expired keys are removed by expiry", "X4 no inherited expired deadline", "X5 EXPIRE-family option table (36 cases)", "A3 volatile index membership"},
		NotCovered:  []string{"TTL/PTTL/EXPIRETIME arithmetic", "SET EX/PX/EXAT/PXAT and GETEX option parsing (value-level)", "timing of background expiry"},
		Rules:       []RuleRef{{ID: "X1"}, {ID: "X3"}, {ID: "X4"}, {ID: "X5"}, {ID: "A3", Scope: []string{"volatile-index-append"}, Floor: 1}},
		Tech:        "static analysis: must-facts on SSA CFG edges generated by expiry atoms (deadline.Before(now) etc.), abstract path evaluation over a finite ordering domain",
	})
	defProp(&Prop{ID: "C05", Title: "Commands are atomic",
		Explanation: stance + "Decided clauses: every access to a guarded structure (store, memory counter, volatile-key index, per-database caches and their heaps, connection table, command list, ACL users/connections/globs, pub/sub tables, AOF handles) happens with its lock held in a sufficient mode on every call chain from every root (L1); the lock-order graph is acyclic modulo gate locks and no non-reentrant lock is re-acquired (L2); in-progress flags are cleared on every exit (D8); a command that takes more than one keyspace step holds a command-scoped lock across them (L4) and does not mutate stored objects in place outside the keyspace lock (P3).",
		Decides:     []string{"L1 lock discipline over the frozen guard table", "L2 lock order / self-deadlock", "D8 flag pairing", "L4 command-level atomicity (reported per handler)", "P3 in-place mutation outside the lock (reported per handler)", "X3 background/lazy expiry removes a key only inside the critical section in which it found the key's deadline passed (a mutex release forgets what was learnt about the entry)"},
		NotCovered:  []string{"linearizability of replies over histories", "liveness under contention", "the busy-wait handshake between state copy and state mutation (check-then-set on two atomics)"},
		Assumptions: []string{"the guard table (field -> lock) frozen in locks.go is the intended discipline; it was inferred from the majority of accesses and confirmed by reading"},
		Rules: []RuleRef{{ID: "L1"}, {ID: "L2"}, {ID: "D8"}, {ID: "L4"}, {ID: "P3"}, {ID: "T7"},
			{ID: "X3", Scope: []string{"evictKeysWithExpiredTTL|delete:", "getValues|delete:"}, Floor: 4}, {ID: "LP"}},
		Tech: "static analysis: interprocedural must-lockset over SSA CFGs with wrapper summaries, caller-chain requirement propagation (VTA), gate-aware lock-order graph, store-reference taint",
	})
	defProp(&Prop{ID: "C06", Title: "ACL authorization",
		Explanation: stance + "Decided clauses: every effectful step of the TCP dispatcher (handler invocation, raft apply, forwarding, AOF append, mutation flag) is dominated by a successful AuthorizeConnection or by a bypass edge for non-TCP callers, and the gate sees the very command, sub-command and tokens that are executed (D1); only the handshake commands are exempt before the authentication test (T4); the decision uses the key-extraction result of the command or sub-command being run (SK), checks channels, read keys and write keys one by one (Q) and consults every rule field of the user (FE); the keys the decision sees are the keys the handler passes to the keyspace, for every table entry and accessor call site (K1, T6).",
		Decides:     []string{"D1 authorization gate dominates every sink of the dispatcher; gate inputs are the request's", "T4 exemptions within the handshake commands", "SK every key-extraction result feeds the resource checks", "Q every resource collection can cause a per-element denial", "FE every rule field of the user is enforced", "K1+T6 the keys the decision sees are the keys the handler touches (all table entries, all accessor call sites)", "U1 a connection becomes authenticated only on a path that established that the user is enabled (the statement's 'authenticated as an enabled user')", "UP user records keep their identity (connections authorize through a pointer to the record, so rule changes reach open connections)"},
		NotCovered:  []string{"glob matching semantics, category arithmetic, polarity of individual tests, rule normalisation (value-level)", "that a denied command has no effect on ACL/connection state beyond the dispatcher's sinks"},
		Rules: []RuleRef{{ID: "D1"}, {ID: "T4"}, {ID: "SK"}, {ID: "Q"}, {ID: "FE"}, {ID: "K1"}, {ID: "T6"},
			{ID: "U1", Scope: []string{"update-only-if-enabled"}, Floor: 1}, {ID: "UP"}},
	})
	defProp(&Prop{ID: "C07", Title: "Replication",
		Explanation: stance + "Decided clauses: only the dispatcher and the raft FSM invoke command handlers; in a cluster a synced command is never applied locally, raft apply happens only on the leader, forwarding only when enabled, otherwise the client gets an error (D4); every handler that can mutate the keyspace is Sync, i.e. replicated (T2).",
		Decides:     []string{"D4 cluster guard and routing", "T2 mutators are Sync", "DT synced handlers reach no random source / clock", "N1+N3 the request's database and protocol reach the replicated request and the FSM's handler context", "E8 raft snapshot codec", "NM+RC raft state callback", "RS the raft snapshot captures the state at Snapshot(), not at Persist()", "A1 refusal-before-first-write: a write the memory limit refuses is refused as a whole (a partial application would depend on map iteration order and differ between replicas)"},
		NotCovered:  []string{"convergence after quiescence, ordering inside hashicorp/raft, leadership changes (library behaviour over histories)"},
		Rules: []RuleRef{{ID: "D4"}, {ID: "T2"}, {ID: "DT"}, {ID: "N1"}, {ID: "N3"}, {ID: "E8"}, {ID: "NM"}, {ID: "RC", Scope: []string{"|get-state"}, Floor: 3}, {ID: "RS"},
			{ID: "A1", Scope: []string{"refusal-before-first-write"}, Floor: 1}},
	})
	defProp(&Prop{ID: "C08", Title: "Max-memory policy",
		Explanation: stance + "Decided clauses: under noeviction every store write is preceded by the admission test, which refuses exactly when a limit is configured and usage >= limit (A1); evictions happen only at/above the limit and every eviction loop re-tests the limit before the next eviction (A2); volatile policies draw candidates only from keys with a deadline (A3); the heap comparators put the least recently / least frequently used entry first (A4); the LRU and LFU caches maintain the same bookkeeping (SB); random indices are applied to the collection that bounded them (IA); createDatabase / deleteKey / Flush cover every per-database structure and a flushed cache heap is empty (PD).",
		Decides:     []string{"A1 admission", "A2 eviction bounds", "A3 volatile candidates", "A4 comparator orientation", "SB sibling caches", "IA index agreement", "PD per-database structures", "FA a write refused at the limit has not already changed the dataset (the refusable write is the command's first mutation; under noeviction no key is removed by a refused command)", "N5 an eviction victim is deleted in the database whose cache it was taken from", "KB an overwrite keeps the key's access count / recency (the write primitives never remove cache or store entries)", "A1 a refused multi-key write has stored nothing (refusal decided before the first entry is written)"},
		NotCovered:  []string{"which concrete key is evicted for a given history", "the size function's figures", "timing of the asynchronous cache updates"},
		Rules:       []RuleRef{{ID: "A1"}, {ID: "A2"}, {ID: "A3"}, {ID: "A4"}, {ID: "SB"}, {ID: "IA"}, {ID: "PD"}, {ID: "FA"}, {ID: "N5"}, {ID: "KB"}},
		Tech:        "static analysis: must-facts on CFG edges, loop-cycle re-test check, abstract evaluation of comparators over {<,=,>}, field-write set comparison of sibling implementations",
	})
	defProp(&Prop{ID: "C09", Title: "Log rewrite",
		Explanation: stance + "Decided clauses: the log is truncated only after, and only if, the preamble was written and synced successfully, inside one critical section of the engine mutex; the preamble bytes are the marshalled current state (D5); restore order (D7); the rewrite-in-progress indication is cleared on every exit (D8).",
		Decides:     []string{"D5 rewrite order and critical section", "D7 restore order", "D8 start/finish pairing", "E8 preamble codec table", "L1 the AOF / preamble handles are used only under their store mutex", "RC preamble restore/state callbacks"},
		NotCovered:  []string{"equality of restored datasets; interleavings beyond lock coverage"},
		Rules: []RuleRef{{ID: "D5"}, {ID: "D7"}, {ID: "D8", Scope: []string{"internal/aof.", "getState", "handleCommand"}, Floor: 3}, {ID: "E8"},
			{ID: "L1", Scope: []string{"internal/aof", "preamble.Store", "log.Store"}, Floor: 4}, {ID: "RC", Scope: []string{"|set-key-data", "|get-state"}, Floor: 4}, {ID: "R2", Scope: []string{"internal/aof"}, Floor: 2},
			{ID: "X3", Scope: []string{"internal.FilterExpiredKeys"}, Floor: 2}, {ID: "RW"}, {ID: "OA"}, {ID: "D3", Scope: []string{"|truncate-"}, Floor: 2}, {ID: "SA", Scope: []string{"rewriteAOF"}, Floor: 1}},
	})
	defProp(&Prop{ID: "C10", Title: "Snapshots are crash-atomic",
		Explanation: stance + "Decided by a typestate over the file operations of TakeSnapshot: the manifest at its final path is replaced only after the new state file was written and fsynced successfully, by an atomic rename of a temporary that was written, fsynced and closed; no failure / nothing-new return is preceded by a manifest replacement or a last-save update; LASTSAVE is published only after the manifest is in place; writer and reader build the same paths (D6); the snapshot-in-progress indication is cleared on every exit (D8).",
		Decides:     []string{"D6 (a) state durable before manifest replace, (b) atomic rename, (c) failed attempts leave the manifest, (d) last-save after publish, (e) path agreement", "D8 start/finish pairing"},
		NotCovered:  []string{"fsync of the containing directory is not modelled", "content equality of the restored dataset"},
		Assumptions: []string{"os.Rename within one directory is atomic; os.Create/O_TRUNC truncate; (*os.File).Sync is durable"},
		Rules:       []RuleRef{{ID: "D6"}, {ID: "D8", Scope: []string{"internal/snapshot."}, Floor: 1}},
	})
	defProp(&Prop{ID: "C11", Title: "Authentication and user lifecycle",
		Explanation: stance + "Decided clauses: a failed authentication attempt never updates the connection table, and every update is followed only by the success return (U1); Enabled, NoPassword, the user name and the password type/value each control the outcome (U2); every field of User/Password is exported with json and yaml tags and Merge/Replace carry every rule field over, so SAVE/LOAD reproduce users (U3); the default user cannot be removed (U4); a new connection is bound to the default user and authenticated exactly when that user needs no password (U5); the user-lifecycle commands do not crash on short or empty arguments (AR over the acl package).",
		Decides:     []string{"U1 failed AUTH changes nothing", "U2 credential fields enforced", "U3 persistence coverage", "U4 default user undeletable", "U5 connection registration", "AR constant index safety of the acl package", "UP user records are edited in place, never exchanged: changes made by SETUSER / LOAD govern connections that are already open"},
		NotCovered:  []string{"password comparison values, rule-string grammar (\"+@all\" stores the category 'all' rather than the wildcard: value-level)", "effect of edits on later decisions over histories", "connection termination timing"},
		Rules:       []RuleRef{{ID: "U1"}, {ID: "U2"}, {ID: "U3"}, {ID: "U4"}, {ID: "U5"}, {ID: "AR", Scope: []string{"internal/modules/acl."}, Floor: 35}, {ID: "L1", Scope: []string{"acl.ACL."}, Floor: 5}, {ID: "UP"}},
	})
	defProp(&Prop{ID: "C12", Title: "Wire protocol",
		Explanation: stance + "Decided clauses: the handler the dispatcher invokes is non-nil for every registered command (T1); constant indices into the command are inside every possible length (AR); every reply returned with a nil error ends in CRLF on every path, bulk headers are len() of their payload and no client-controlled string is written inside a simple string or error frame (R1-R3); a panic in a handler is recovered on the connection goroutine and in the raft FSM (W5); after a command was handled the connection loop writes a reply or error line before reading the next message (CL).",
		Decides:     []string{"T1 complete dispatch", "AR constant index safety over all handlers, key functions and their helpers", "R1 every successful reply ends in CRLF on every path", "R2 bulk headers carry len() of their payload", "R3 no client data inside simple strings / errors", "W5 handler panics are contained on the connection goroutine and in the raft FSM", "CL every handled command is answered before the next read", "SC one confirmation frame per channel named in SUBSCRIBE/PSUBSCRIBE", "LP a lock released by an explicit unlock is not held across a call that panics by contract (the panic is recovered per connection, the unlock would be skipped, other connections would block)"},
		NotCovered:  []string{"framing of pipelined or split input (byte-stream behaviour)", "data-dependent indices", "array-header/element-count agreement", "agreement of the embedded API's parser with the reply"},
		Rules:       []RuleRef{{ID: "T0"}, {ID: "T1"}, {ID: "AR"}, {ID: "R1"}, {ID: "R2"}, {ID: "R3"}, {ID: "W5"}, {ID: "CL"}, {ID: "SC"}, {ID: "LP"}},
	})
	defProp(&Prop{ID: "C13", Title: "Read-only commands are pure",
		Explanation: stance + "Decided: no handler of a read-only command writes through any reference it obtained from the store, on any call path (values are handed out by reference, so this is the mechanism by which a read could change what later commands observe) (P1); a value stored by SetValues is never a store-derived reference read under another key that stays in place, so a STORE destination never shares structure with a source (P2).",
		Decides:     []string{"T3 the read-only set", "P1 read purity", "P2 store freshness"},
		NotCovered:  []string{"removal of expired keys (allowed by the statement)", "cache bookkeeping touched by reads", "equality of the dataset before/after (value-level)"},
		Assumptions: []string{"external (stdlib) callees other than the listed in-place functions (sort.*, slices.Sort*/Reverse/Delete*/Insert/Compact/Replace) do not mutate their arguments"},
		Rules:       []RuleRef{{ID: "T3"}, {ID: "P1"}, {ID: "P2"}},
		Tech:        "static analysis: context-sensitive store-reference taint over SSA (per handler, with summaries) + call-graph reachability",
	})
	defProp(&Prop{ID: "C14", Title: "Hash commands",
		Explanation: stance + "Decided clause only: reading a key of another type with a hash command fails without changing it (HSET replacing a non-hash is outside the statement) — every type assertion on the stored value is comma-ok and its not-ok edge reaches only error returns, before any mutator (WT); constant indices into the command are within every possible length (AR). The algebraic content of the statement (equivalence with a reference structure) is value-level and NOT claimed.",
		Decides:     []string{"WT wrong-type discipline of the family's handlers", "AR constant index safety of the family's handlers and key functions", "TM no keyspace mutation before a stored value passed its type assertion or the key was found absent", "P2 a stored value shares no structure with a value that stays stored under another key", "DC a count of changes over a client-supplied list is taken in the iteration that makes the change, under a test of the live container (repeated arguments are not counted twice)"},
		NotCovered:  []string{"equivalence of replies and resulting values with the reference map/sequence/set/scored map (value-level)", "data-dependent indices"},
		Rules: []RuleRef{
			{ID: "WT", Scope: []string{"internal/modules/hash."}, Not: []string{"handleHSET|"}, Floor: 10},
			{ID: "AR", Scope: []string{"internal/modules/hash."}, Floor: 25},
			{ID: "P2", Scope: []string{"internal/modules/hash."}, Floor: 3},
			{ID: "TM", Scope: []string{"internal/modules/hash."}, Floor: 3},
			{ID: "DC", Scope: []string{"internal/modules/hash."}, Floor: 1},
			{ID: "NUM", Scope: []string{"internal/modules/hash."}, Floor: 2},
		},
	})
	defProp(&Prop{ID: "C15", Title: "List commands",
		Explanation: stance + "Decided clause only: a list command on a non-list key fails without changing it — every type assertion on the stored value is comma-ok and its not-ok edge reaches only error returns, before any mutator (WT); constant indices into the command are within every possible length (AR). The algebraic content of the statement (equivalence with a reference structure) is value-level and NOT claimed.",
		Decides:     []string{"WT wrong-type discipline of the family's handlers", "AR constant index safety of the family's handlers and key functions", "TM no keyspace mutation before a stored value passed its type assertion or the key was found absent", "P2 a stored value shares no structure with a value that stays stored under another key", "DC a count of changes over a client-supplied list is taken in the iteration that makes the change, under a test of the live container (repeated arguments are not counted twice)"},
		NotCovered:  []string{"equivalence of replies and resulting values with the reference map/sequence/set/scored map (value-level)", "data-dependent indices"},
		Rules: []RuleRef{
			{ID: "WT", Scope: []string{"internal/modules/list."}, Floor: 9},
			{ID: "AR", Scope: []string{"internal/modules/list."}, Floor: 25},
			{ID: "P2", Scope: []string{"internal/modules/list."}, Floor: 3},
			{ID: "TM", Scope: []string{"internal/modules/list."}, Floor: 5},
			{ID: "SR", Scope: []string{"internal/modules/list."}, Floor: 3},
		},
	})
	defProp(&Prop{ID: "C16", Title: "Set commands",
		Explanation: stance + "Also decided: the cached cardinality of a Set changes only by counted insertions/deletions on that same object (LC). Decided clause only: a set command on a non-set key fails without changing anything — every type assertion on the stored value is comma-ok and its not-ok edge reaches only error returns, before any mutator (WT); constant indices into the command are within every possible length (AR). The algebraic content of the statement (equivalence with a reference structure) is value-level and NOT claimed.",
		Decides:     []string{"WT wrong-type discipline of the family's handlers", "AR constant index safety of the family's handlers and key functions", "TM no keyspace mutation before a stored value passed its type assertion or the key was found absent", "P2 a stored value shares no structure with a value that stays stored under another key", "DC a count of changes over a client-supplied list is taken in the iteration that makes the change, under a test of the live container (repeated arguments are not counted twice)"},
		NotCovered:  []string{"equivalence of replies and resulting values with the reference map/sequence/set/scored map (value-level)", "data-dependent indices"},
		Rules: []RuleRef{
			{ID: "WT", Scope: []string{"internal/modules/set."}, Floor: 15},
			{ID: "AR", Scope: []string{"internal/modules/set."}, Floor: 25},
			{ID: "P2", Scope: []string{"internal/modules/set."}, Floor: 3},
			{ID: "TM", Scope: []string{"internal/modules/set."}, Floor: 1},
			{ID: "LC"},
			{ID: "MV", Scope: []string{"internal/modules/set."}, Floor: 1},
			{ID: "R1", Scope: []string{"internal/modules/set."}, Floor: 22},
		},
	})
	defProp(&Prop{ID: "C17", Title: "Sorted-set commands",
		Explanation: stance + "Decided clause only: a sorted-set command on another type of key fails without changing anything — every type assertion on the stored value is comma-ok and its not-ok edge reaches only error returns, before any mutator (WT); constant indices into the command are within every possible length (AR). The algebraic content of the statement (equivalence with a reference structure) is value-level and NOT claimed.",
		Decides:     []string{"WT wrong-type discipline of the family's handlers", "AR constant index safety of the family's handlers and key functions", "TM no keyspace mutation before a stored value passed its type assertion or the key was found absent", "P2 a stored value shares no structure with a value that stays stored under another key", "DC a count of changes over a client-supplied list is taken in the iteration that makes the change, under a test of the live container (repeated arguments are not counted twice)"},
		NotCovered:  []string{"equivalence of replies and resulting values with the reference map/sequence/set/scored map (value-level)", "data-dependent indices"},
		Rules: []RuleRef{
			{ID: "WT", Scope: []string{"internal/modules/sorted_set."}, Floor: 20},
			{ID: "AR", Scope: []string{"internal/modules/sorted_set."}, Floor: 80},
			{ID: "P2", Scope: []string{"internal/modules/sorted_set."}, Floor: 3},
			{ID: "TM", Scope: []string{"internal/modules/sorted_set."}, Floor: 2},
			{ID: "DC", Scope: []string{"internal/modules/sorted_set."}, Floor: 1},
			{ID: "NUM", Scope: []string{"internal/modules/sorted_set."}, Floor: 2},
		},
	})
	defProp(&Prop{ID: "C18", Title: "Pub/Sub",
		Explanation: stance + "Decided clauses: between taking a message from a channel's queue and writing it to a subscriber's socket no goroutine is started, so messages of one channel reach a subscriber in queue order (S1); the channel table and the subscriber tables are accessed only under their locks (L1); the replies of UNSUBSCRIBE / PUBSUB CHANNELS / NUMSUB are CRLF-terminated with correct bulk headers (R1, R2).",
		Decides:     []string{"S1 delivery by the dequeuing goroutine", "L1 pub/sub tables under their locks", "R1/R2 reply framing of the pubsub package", "SC every channel named in SUBSCRIBE/PSUBSCRIBE gets a confirmation frame (the write is unconditional, or guarded by a predicate whose summary is 'always true')", "FC a channel created for a name not found in the table enters the table before the next name is looked up (one channel object per name)"},
		NotCovered:  []string{"exactly-once delivery, 'subscribed at the time of publish' (delivery is asynchronous by design)", "running counts in confirmations (UNSUBSCRIBE iterates a Go map: order and indices are value-level)"},
		Rules:       []RuleRef{{ID: "S1"}, {ID: "L1", Scope: []string{"pubsub."}, Floor: 8}, {ID: "R1", Scope: []string{"internal/modules/pubsub."}, Floor: 5}, {ID: "R2", Scope: []string{"internal/modules/pubsub."}, Floor: 3}, {ID: "SC"}, {ID: "FC"}},
	})
	defProp(&Prop{ID: "C19", Title: "Reported memory usage",
		Explanation: stance + "Decided clauses: the memory counter is written only by the functions that add/replace/remove/clear store entries (M1); each such function pairs the store mutation with the matching adjustment: += new size and -= replaced size on writes, -= on removal and only for an entry that is in the store, -= all on clear (M2); handlers that grow or shrink a stored object in place, which the counter cannot follow, are inventoried (P3).",
		Decides:     []string{"M1 accounting ownership", "M2 accounting pairing", "P3 in-place mutators (reported per handler)"},
		NotCovered:  []string{"the size function's figures", "equality of the figure with a fresh instance holding the same dataset (value-level)"},
		Rules:       []RuleRef{{ID: "M1"}, {ID: "M2"}, {ID: "P3"}, {ID: "GM"}, {ID: "N5"}},
	})
	defProp(&Prop{ID: "C20", Title: "Logical databases",
		Explanation: stance + "Decided clauses: every read of the request's database from the context is reached only with contexts that carry it (N1); every index into a per-database structure is the request's database, a loop variable over the databases or a parameter (N2); the database travels unchanged into the AOF append, the replicated request, the FSM's handler context and the AOF replay (D2 e, N3); the AOF writer logs a SELECT marker before a command for another database (D3); the maintenance functions cover every per-database structure (PD).",
		Decides:     []string{"N1 context must-keys", "N2 per-database indexing", "N3 + D2(e) database identity across AOF / raft", "D3 SELECT marker", "PD per-database structures", "N5 a key taken from one database's structures is handed on only with a context that carries that database", "D3 the log's record of its current database starts unknown and survives truncation; D7 the reader parses every marker the writer can emit"},
		NotCovered:  []string{"FLUSHDB vs FLUSHALL argument choice, SWAPDB semantics (value-level)", "behaviour across restarts"},
		Rules: []RuleRef{{ID: "N1"}, {ID: "N2"}, {ID: "N3"}, {ID: "D2", Scope: []string{"|e:log-database"}, Floor: 1},
			{ID: "D3", Scope: []string{"select-marker", "current-database", "database-record", "truncate-keeps"}, Floor: 4}, {ID: "D7", Scope: []string{"replay-database", "marker-parse"}, Floor: 2}, {ID: "PD", Not: []string{"heap-emptied"}, Floor: 12}, {ID: "R2", Scope: []string{"internal/aof"}, Floor: 2},
			{ID: "X3", Scope: []string{"internal.FilterExpiredKeys"}, Floor: 2}, {ID: "N4"}, {ID: "N5"}},
	})
}

// NotApplicableReason is used for unclaimed properties in MANIFEST.json.
var NotApplicableReason = map[string]string{}
