package rules

import (
	"fmt"
	"go/token"
	"go/types"
	"os"
	"strings"

	"golang.org/x/tools/go/ssa"

	"svcheck/internal/report"
	"svcheck/internal/world"
)

func init() {
	register("SC", 1, "subscribe confirmations: in every function of the pub/sub table that writes confirmation frames to the connection inside a loop over the channel names it was given, each iteration writes a frame before the next one begins; a guard that is a call of a module predicate is resolved by a summary (always true: the map lookup it returns is preceded by the insertion of that key on every path; may be false: it has a constant-false return)", ruleSC)
}

// boolSummary classifies a module function returning a single bool.
//
//	+1: returns true on every path (constant true, or the comma-ok result of looking up (m,k) at a point
//	    where (m,k) was inserted, or found, on every path)
//	-1: has a return of the constant false
//	 0: unknown
func boolSummary(fn *ssa.Function) int {
	if fn == nil || fn.Blocks == nil || fn.Signature.Results().Len() != 1 {
		return 0
	}
	if b, ok := fn.Signature.Results().At(0).Type().Underlying().(*types.Basic); !ok || b.Kind() != types.Bool {
		return 0
	}
	allTrue := true
	for _, ret := range world.Returns(fn) {
		rv := world.RetVals(ret)
		if len(rv) != 1 {
			return 0
		}
		if c, ok := rv[0].(*ssa.Const); ok {
			if v, ok := world.ConstBool(c); ok {
				if !v {
					return -1
				}
				continue
			}
		}
		ex, ok := rv[0].(*ssa.Extract)
		if !ok || ex.Index != 1 {
			allTrue = false
			continue
		}
		lk, ok := ex.Tuple.(*ssa.Lookup)
		if !ok || !lk.CommaOk {
			allTrue = false
			continue
		}
		// must-fact: (m,k) is in the map
		const IN world.Facts = 1
		same := func(m, k ssa.Value) bool { return world.SameExpr(m, lk.X) && world.SameExpr(k, lk.Index) }
		eg := func(b *ssa.BasicBlock, si int) world.Facts {
			iff := world.IfOf(b)
			if iff == nil {
				return 0
			}
			c := world.CondValue(iff)
			neg := false
			if u, ok := c.(*ssa.UnOp); ok && u.Op == token.NOT {
				c, neg = u.X, true
			}
			if e2, ok := c.(*ssa.Extract); ok && e2.Index == 1 {
				if l2, ok := e2.Tuple.(*ssa.Lookup); ok && l2.CommaOk && same(l2.X, l2.Index) {
					if (si == 0) != neg {
						return IN
					}
				}
			}
			return 0
		}
		gen := func(in ssa.Instruction) world.Facts {
			if mu, ok := in.(*ssa.MapUpdate); ok && same(mu.Map, mu.Key) {
				return IN
			}
			return 0
		}
		kill := func(in ssa.Instruction) world.Facts {
			if c, ok := in.(ssa.CallInstruction); ok {
				if bi, ok := c.Common().Value.(*ssa.Builtin); ok && (bi.Name() == "delete" || bi.Name() == "clear") {
					return IN
				}
			}
			return 0
		}
		must := world.Must(fn, eg, gen, kill)
		if world.FactsAt(must, lk, gen, kill)&IN == 0 {
			allTrue = false
		}
	}
	if allTrue {
		return +1
	}
	return 0
}

func ruleSC(w *world.World, r *report.RuleResult) {
	n := 0
	for _, fn := range w.FuncsIn("internal/modules/pubsub") {
		if fn.Signature.Recv() == nil || fn.Parent() != nil {
			continue
		}
		// the channel-name parameter
		var names *ssa.Parameter
		for _, p := range fn.Params {
			if sl, ok := p.Type().Underlying().(*types.Slice); ok {
				if b, ok := sl.Elem().Underlying().(*types.Basic); ok && b.Kind() == types.String {
					names = p
				}
			}
		}
		if names == nil {
			continue
		}
		isWrite := func(in ssa.Instruction) bool {
			c, ok := in.(ssa.CallInstruction)
			if !ok {
				return false
			}
			f := c.Common().StaticCallee()
			return f != nil && f.Signature.Recv() != nil && strings.HasPrefix(f.Name(), "Write") && (world.TypeIs(f.Signature.Recv().Type(), "resp", "Conn") || world.TypeIs(f.Signature.Recv().Type(), "resp", "Writer"))
		}
		// (the parameter may live in a local because a closure captures it)
		isNames := func(v ssa.Value) bool {
			return derivesFrom(v, func(x ssa.Value) bool { return x == ssa.Value(names) }, 0)
		}
		// loop over the names: innermost natural loop containing an access names[i] / range names
		var header *ssa.BasicBlock
		for _, b := range fn.Blocks {
			for _, in := range b.Instrs {
				acc := false
				switch x := in.(type) {
				case *ssa.IndexAddr:
					_, isConst := x.Index.(*ssa.Const)
					acc = isNames(x.X) && !isConst
				case *ssa.Range:
					acc = isNames(x.X)
				}
				if !acc {
					continue
				}
				for _, h := range fn.Blocks {
					if !h.Dominates(b) {
						continue
					}
					back := false
					for _, p := range h.Preds {
						if h.Dominates(p) {
							back = true
						}
					}
					if back && (header == nil || header.Dominates(h)) {
						header = h
					}
				}
			}
		}
		if os.Getenv("SVCHECK_DEBUG") != "" {
			fmt.Fprintln(os.Stderr, "SC", fn, "names", names, "header", header)
		}
		if header == nil {
			continue
		}
		writes := 0
		for _, b := range fn.Blocks {
			if !header.Dominates(b) {
				continue
			}
			for _, in := range b.Instrs {
				if isWrite(in) {
					writes++
				}
			}
		}
		if writes == 0 {
			continue // builds its reply instead of writing frames (UNSUBSCRIBE): covered by R1/R2
		}
		n++
		const W world.Facts = 1
		unknown, mayFalse := "", ""
		eg := func(b *ssa.BasicBlock, si int) world.Facts {
			iff := world.IfOf(b)
			if iff == nil || !header.Dominates(b) {
				return 0
			}
			c := world.CondValue(iff)
			neg := false
			if u, ok := c.(*ssa.UnOp); ok && u.Op == token.NOT {
				c, neg = u.X, true
			}
			call, ok := c.(*ssa.Call)
			if !ok {
				return 0
			}
			g := call.Call.StaticCallee()
			if g == nil || !world.InModule(g) {
				return 0
			}
			switch boolSummary(g) {
			case +1:
				// the edge on which the predicate is false cannot be taken
				if (si == 1) != neg {
					return W
				}
			case -1:
				mayFalse = world.FuncName(g)
			default:
				unknown = world.FuncName(g)
			}
			return 0
		}
		gen := func(in ssa.Instruction) world.Facts {
			if isWrite(in) {
				return W
			}
			return 0
		}
		kill := func(in ssa.Instruction) world.Facts {
			if in.Block() == header {
				return W
			}
			return 0
		}
		must := world.Must(fn, eg, gen, kill)
		key := world.FuncName(fn) + "|every-name-confirmed"
		var bad ssa.Instruction
		for _, p := range header.Preds {
			if !header.Dominates(p) {
				continue
			}
			f := must[p]
			for _, in := range p.Instrs {
				f &^= kill(in)
				f |= gen(in)
			}
			for si, sc := range p.Succs {
				if sc == header {
					f |= eg(p, si)
				}
			}
			if f&W == 0 {
				bad = p.Instrs[len(p.Instrs)-1]
			}
		}
		switch {
		case bad == nil:
			r.OK(key, w.Pos(fn.Pos()), "every iteration over the channel names writes a confirmation frame before the next one begins (guards that are module predicates are always true by their summary)")
		case unknown != "" && mayFalse == "":
			r.Skip(key, w.InstrPos(bad), "an iteration can end without a confirmation only if "+unknown+" returns false, which this analysis cannot decide")
		default:
			why := "a branch of the loop body skips the write"
			if mayFalse != "" {
				why = "the write is conditional on " + mayFalse + ", which returns false on some path (e.g. for a connection that is already subscribed)"
			}
			r.Fail(key, w.InstrPos(bad), fmt.Sprintf("%s can finish the iteration for one of the channel names it was given without writing a confirmation frame: %s. The command itself replies with nothing, so the client receives fewer confirmations than channels it named (none at all for a repeated subscription) and every later reply is attributed to the wrong request", world.FuncName(fn), why))
		}
	}
	if n == 0 {
		r.Fail("anchor", "-", "no function of the pub/sub table writes confirmation frames in a loop over channel names: the subscribe path is lost")
	}
}

func init() {
	register("FC", 1, "find-or-create in a loop: when a function of the pub/sub table walks the names it was given, looks each one up in the channel table and creates a channel for a name it does not find, the new channel is put into that table before the next name is looked up — otherwise a name given twice in one command creates two channel objects, and every later message is delivered twice", ruleFC)
}

func ruleFC(w *world.World, r *report.RuleResult) {
	n := 0
	for _, fn := range w.FuncsIn("internal/modules/pubsub") {
		if fn.Signature.Recv() == nil || fn.Parent() != nil || fn.Blocks == nil {
			continue
		}
		recvT := fn.Signature.Recv().Type()
		for _, c := range world.Calls(fn) {
			call, ok := c.(*ssa.Call)
			if !ok {
				continue
			}
			g := call.Call.StaticCallee()
			if g == nil || !world.InModule(g) || g.Signature.Recv() != nil || g.Signature.Results().Len() != 1 {
				continue
			}
			elemT := g.Signature.Results().At(0).Type()
			if _, isPtr := elemT.(*types.Pointer); !isPtr || world.NamedOf(elemT) == nil {
				continue
			}
			// the table: a field of the receiver of type []elemT
			isTableStore := func(in ssa.Instruction) bool {
				st, ok := in.(*ssa.Store)
				if !ok {
					return false
				}
				fa, ok := st.Addr.(*ssa.FieldAddr)
				if !ok || !types.Identical(fa.X.Type(), recvT) {
					return false
				}
				sl, ok := st.Val.Type().Underlying().(*types.Slice)
				return ok && types.Identical(sl.Elem(), elemT)
			}
			// enclosing loop
			var header *ssa.BasicBlock
			for _, h := range fn.Blocks {
				if !h.Dominates(call.Block()) {
					continue
				}
				for _, p := range h.Preds {
					if h.Dominates(p) && (header == nil || header.Dominates(h)) {
						header = h
					}
				}
			}
			if header == nil {
				continue
			}
			n++
			key := fmt.Sprintf("%s|created-element-enters-table#%d", world.FuncName(fn), n)
			// every feasible path from the creation to the loop header passes a store to the table
			var bad ssa.Instruction
			undecided := ""
			seen := map[*ssa.BasicBlock]bool{}
			var walk func(b *ssa.BasicBlock, from int)
			walk = func(b *ssa.BasicBlock, from int) {
				for i := from; i < len(b.Instrs); i++ {
					if isTableStore(b.Instrs[i]) {
						return
					}
				}
				succs := b.Succs
				if iff := world.IfOf(b); iff != nil {
					cnd := world.CondValue(iff)
					neg := false
					if u, ok := cnd.(*ssa.UnOp); ok && u.Op == token.NOT {
						cnd, neg = u.X, true
					}
					if cc, ok := cnd.(*ssa.Call); ok {
						if pf := cc.Call.StaticCallee(); pf != nil && world.InModule(pf) {
							switch boolSummary(pf) {
							case +1:
								if neg {
									succs = []*ssa.BasicBlock{b.Succs[1]}
								} else {
									succs = []*ssa.BasicBlock{b.Succs[0]}
								}
							case 0:
								undecided = world.FuncName(pf)
							}
						}
					}
				}
				for _, s := range succs {
					if s == header {
						bad = b.Instrs[len(b.Instrs)-1]
						continue
					}
					if !header.Dominates(s) {
						continue // leaves the loop
					}
					if !seen[s] {
						seen[s] = true
						walk(s, 0)
					}
				}
			}
			idx := 0
			for i, in := range call.Block().Instrs {
				if in == ssa.Instruction(call) {
					idx = i + 1
				}
			}
			walk(call.Block(), idx)
			switch {
			case bad == nil:
				r.OK(key, w.InstrPos(call), "the element created for a name that was not found is stored into the table before the next iteration")
			case undecided != "":
				r.Skip(key, w.InstrPos(call), "whether the store is skipped depends on "+undecided+", which this analysis cannot decide")
			default:
				r.Fail(key, w.InstrPos(call), fmt.Sprintf("%s creates an element for a name it did not find in the table, but can start the next iteration (at %s) without having put it into the table: a name given twice in one command is not found the second time either, a second object is created for it, and from then on every message published to that name is delivered twice (and the name is listed twice)", world.FuncName(fn), w.InstrPos(bad)))
			}
		}
	}
	if n == 0 {
		r.Skip("no-instance", "-", "no loop of the pub/sub table creates elements")
	}
}
