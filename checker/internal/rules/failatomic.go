package rules

import (
	"fmt"
	"sort"

	"golang.org/x/tools/go/ssa"

	"svcheck/internal/report"
	"svcheck/internal/world"
)

func init() {
	register("FA", 35, "failed commands change nothing: the keyspace write that can be refused (SetValues: max-memory admission under noeviction, size computation) is never preceded, on any path of a handler or of a helper it calls, by another keyspace mutation (DeleteKey, SetValues, SetExpiry) of the same command — otherwise the refusal is reported to the client as an error while the earlier mutation stays applied", ruleFA)
}

// ruleFA: for every function reachable (by calls) from a command handler, a may-analysis marks the
// points reached after a keyspace mutation; a SetValues call at such a point is a finding.
func ruleFA(w *world.World, r *report.RuleResult) {
	cmds, err := w.Commands()
	if err != nil {
		r.Err = err
		return
	}
	hs, _ := handlersOf(cmds, nil)
	seen := map[*ssa.Function]bool{}
	var fns []*ssa.Function
	for _, h := range hs {
		for _, f := range w.ReachFrom(h, false).Fns {
			if !seen[f] && world.InModule(f) && f.Blocks != nil {
				seen[f] = true
				fns = append(fns, f)
			}
		}
	}
	sort.Slice(fns, func(i, j int) bool { return world.FuncName(fns[i]) < world.FuncName(fns[j]) })
	const MUT world.Facts = 1
	// helpers that mutate: a static call of a module function that (transitively, within the handler
	// packages) performs a keyspace mutation counts as a mutation at the call site
	mutates := map[*ssa.Function]bool{}
	var doesMutate func(f *ssa.Function, depth int) bool
	doesMutate = func(f *ssa.Function, depth int) bool {
		if v, ok := mutates[f]; ok {
			return v
		}
		mutates[f] = false
		if depth > 3 || f.Blocks == nil {
			return false
		}
		res := false
		for _, c := range world.Calls(f) {
			if world.Mutators[world.AccessorCall(c)] {
				res = true
			}
			if g := c.Common().StaticCallee(); g != nil && world.InModule(g) && seen[g] && doesMutate(g, depth+1) {
				res = true
			}
		}
		mutates[f] = res
		return res
	}
	for _, fn := range fns {
		gen := func(in ssa.Instruction) world.Facts {
			c, ok := in.(ssa.CallInstruction)
			if !ok {
				return 0
			}
			if world.Mutators[world.AccessorCall(c)] {
				return MUT
			}
			if g := c.Common().StaticCallee(); g != nil && world.InModule(g) && seen[g] && doesMutate(g, 0) {
				return MUT
			}
			return 0
		}
		may := world.May(fn, nil, gen, nil)
		n := 0
		for _, c := range world.Calls(fn) {
			if world.AccessorCall(c) != "SetValues" {
				continue
			}
			n++
			key := fmt.Sprintf("%s|write#%d-is-first-mutation", world.FuncName(fn), n)
			// facts before the call itself
			if world.FactsAt(may, c, gen, nil)&MUT != 0 {
				r.Fail(key, w.InstrPos(c), fmt.Sprintf("%s can reach this SetValues after another keyspace mutation of the same command (a DeleteKey, SetValues or SetExpiry earlier on the path): SetValues is refused with an error when the server is at its memory limit under noeviction, and then the command fails although the earlier mutation has been applied (e.g. the source key of a rename is gone and the destination was never written)", world.FuncName(fn)))
			} else {
				r.OK(key, w.InstrPos(c), "no keyspace mutation precedes this write on any path: if it is refused nothing has changed")
			}
		}
	}
}
