package rules

import (
	"fmt"
	"go/token"
	"go/types"
	"strings"

	"golang.org/x/tools/go/ssa"

	"svcheck/internal/lockset"
	"svcheck/internal/report"
	"svcheck/internal/world"
)

func init() {
	register("NX", 12, "a database that was never created: the per-database caches are pointers created by createDatabase together with the database's maps, so a cache looked up with index d is dereferenced - and the database's key map is assigned into - only where d names a created database: d is the range variable of a loop over a per-database map, the function established it on every path (createDatabase(d), a test store[d] != nil, a key found in store[d]), or d is the request's database from the context (created when it was selected); an index chosen by the caller (a plain int parameter) is not enough: FLUSHDB of a database that only SELECT created is replayed at the next start on an instance that has no such database", ruleNX)
}

func ruleNX(w *world.World, r *report.RuleResult) {
	const fExists world.Facts = 1
	isDBRead := func(v ssa.Value) bool {
		_, ok := isCtxValueRead(v, "Database")
		return ok
	}
	isRangeKey := func(v ssa.Value) bool {
		ex, ok := v.(*ssa.Extract)
		if !ok || ex.Index != 1 {
			return false
		}
		nx, ok := ex.Tuple.(*ssa.Next)
		if !ok {
			return false
		}
		rg, ok := nx.Iter.(*ssa.Range)
		return ok && isPerDBOuter(rg.X)
	}
	outerLookup := func(v ssa.Value, paths ...string) (*ssa.Lookup, bool) {
		lk, ok := v.(*ssa.Lookup)
		if !ok || lk.CommaOk || !isPerDBOuter(lk.X) {
			return nil, false
		}
		p := lockset.Path(lk.X)
		for _, s := range paths {
			if p == s {
				return lk, true
			}
		}
		return nil, false
	}
	cg := w.VTA()
	type memoKey struct {
		fn   *ssa.Function
		root ssa.Value
	}
	memo := map[memoKey]map[*ssa.BasicBlock]world.Facts{}
	// established: on every path to `at` the function has established that database idx exists
	established := func(fn *ssa.Function, idx ssa.Value, at ssa.Instruction) bool {
		root := world.Unwrap(idx)
		same := func(v ssa.Value) bool {
			v = world.Unwrap(v)
			return v == root || world.SameExpr(v, root)
		}
		eg := func(b *ssa.BasicBlock, si int) world.Facts {
			iff := world.IfOf(b)
			if iff == nil {
				return 0
			}
			c := world.CondValue(iff)
			neg := false
			for {
				u, ok := c.(*ssa.UnOp)
				if !ok || u.Op != token.NOT {
					break
				}
				c, neg = u.X, !neg
			}
			// store[d] != nil / cache[d] != nil
			if x, eqNil, ok := world.NilTest(c); ok {
				if lk, ok := x.(*ssa.Lookup); ok && !lk.CommaOk && isPerDBOuter(lk.X) && same(lk.Index) {
					nonNilEdge := 1
					if !eqNil {
						nonNilEdge = 0
					}
					if neg {
						nonNilEdge = 1 - nonNilEdge
					}
					if si == nonNilEdge {
						return fExists
					}
				}
				return 0
			}
			// _, ok := store[d]: the found edge
			if ex, ok := c.(*ssa.Extract); ok && ex.Index == 1 {
				if lk, ok := ex.Tuple.(*ssa.Lookup); ok && lk.CommaOk && isPerDBOuter(lk.X) && same(lk.Index) {
					okEdge := 0
					if neg {
						okEdge = 1
					}
					if si == okEdge {
						return fExists
					}
				}
			}
			// _, ok := store[d][k]: the ok edge
			if ex, ok := c.(*ssa.Extract); ok && ex.Index == 1 {
				if lk, ok := ex.Tuple.(*ssa.Lookup); ok && lk.CommaOk {
					if outer, ok := lk.X.(*ssa.Lookup); ok && !outer.CommaOk && isPerDBOuter(outer.X) && same(outer.Index) {
						okEdge := 0
						if neg {
							okEdge = 1
						}
						if si == okEdge {
							return fExists
						}
					}
				}
			}
			return 0
		}
		gen := func(in ssa.Instruction) world.Facts {
			c, ok := in.(ssa.CallInstruction)
			if !ok {
				return 0
			}
			f := c.Common().StaticCallee()
			if f == nil || world.BaseName(f) != "createDatabase" {
				return 0
			}
			for _, a := range c.Common().Args {
				if b, ok := a.Type().Underlying().(*types.Basic); ok && b.Kind() == types.Int && same(a) {
					return fExists
				}
			}
			return 0
		}
		must, ok := memo[memoKey{fn, root}]
		if !ok {
			must = world.Must(fn, eg, gen, nil)
			memo[memoKey{fn, root}] = must
		}
		return world.FactsAt(must, at, gen, nil)&fExists != 0
	}
	var classify func(fn *ssa.Function, idx ssa.Value, at ssa.Instruction, depth int) (string, bool)
	classify = func(fn *ssa.Function, idx ssa.Value, at ssa.Instruction, depth int) (string, bool) {
		if derivesFromNoArith(idx, isRangeKey) {
			return "indexed by the range variable of a loop over a per-database map", true
		}
		if established(fn, idx, at) {
			return "the function established that the database exists on every path to this point", true
		}
		if derivesFromNoArith(idx, isDBRead) {
			return "indexed by the request's database (created when it was selected)", true
		}
		// a parameter of an internal helper: every caller passes a database that qualifies
		var prm *ssa.Parameter
		if derivesFromNoArith(idx, func(v ssa.Value) bool {
			p, ok := v.(*ssa.Parameter)
			if ok && p.Parent() == fn {
				prm = p
			}
			return ok && p.Parent() == fn
		}) && prm != nil && depth < 3 && fn.Parent() == nil {
			pi := -1
			for i, p := range fn.Params {
				if p == prm {
					pi = i
				}
			}
			node := cg.Nodes[fn]
			if node == nil || pi < 0 || len(node.In) == 0 {
				return "", false
			}
			for _, e := range node.In {
				if e.Site == nil || e.Site.Common().StaticCallee() != fn || e.Caller.Func == nil || !world.InModule(e.Caller.Func) {
					return "", false // reachable through a function value (a handler callback, the embedded API)
				}
				if strings.Contains(w.Pos(e.Caller.Func.Pos()), "_test.go") {
					continue
				}
				args := e.Site.Common().Args
				if pi >= len(args) {
					return "", false
				}
				if _, ok := classify(e.Caller.Func, args[pi], e.Site, depth+1); !ok {
					return "", false
				}
			}
			return "a parameter of an internal helper whose every caller passes a database that is known to exist", true
		}
		return "", false
	}
	for _, fn := range w.FuncsIn("sugardb") {
		if strings.Contains(w.Pos(fn.Pos()), "_test.go") || fn.Blocks == nil {
			continue
		}
		type site struct {
			in   ssa.Instruction
			idx  ssa.Value
			kind string
			what string
		}
		var sites []site
		for _, b := range fn.Blocks {
			for _, in := range b.Instrs {
				switch x := in.(type) {
				case *ssa.Lookup:
					if lk, ok := outerLookup(x, pLFU, pLRU); ok && lk.Referrers() != nil {
						deref := false
						for _, ref := range *lk.Referrers() {
							switch y := ref.(type) {
							case *ssa.FieldAddr:
								deref = deref || y.X == ssa.Value(lk)
							case *ssa.UnOp:
								deref = deref || (y.Op == token.MUL && y.X == ssa.Value(lk))
							case ssa.CallInstruction:
								// a method call on the pointer, or the pointer handed to a function
								// (heap.Pop(cache)) that will use it
								cc := y.Common()
								if cc.IsInvoke() && cc.Value == ssa.Value(lk) {
									deref = true
								}
								for _, a := range cc.Args {
									if a == ssa.Value(lk) {
										deref = true
									}
								}
							case *ssa.MakeInterface:
								deref = true // handed on as an interface (heap.Interface)
							}
						}
						if deref {
							sites = append(sites, site{in, lk.Index, "cache-deref", strings.TrimPrefix(lockset.Path(lk.X), "sugardb.SugarDB.")})
						}
					}
				case *ssa.MapUpdate:
					if lk, ok := outerLookup(x.Map, pStore); ok {
						sites = append(sites, site{in, lk.Index, "inner-map-write", "store"})
					}
				}
			}
		}
		if len(sites) == 0 {
			continue
		}
		name := world.FuncName(fn)
		count := map[string]int{}
		for _, s := range sites {
			count[s.kind+s.what]++
			key := fmt.Sprintf("%s|%s:%s#%d", name, s.kind, s.what, count[s.kind+s.what])
			pos := w.InstrPos(s.in)
			if why, ok := classify(fn, s.idx, s.in, 0); ok {
				r.OK(key, pos, why)
				continue
			}
			what := "the cache pointer " + s.what + "[" + exprString(s.idx) + "] is dereferenced"
			if s.kind == "inner-map-write" {
				what = "the key map store[" + exprString(s.idx) + "] is assigned into"
			}
			r.Fail(key, pos, fmt.Sprintf("%s: %s, but nothing on this path establishes that this database was created (no createDatabase, no test of store[...] != nil, no key found in it) and the index is not the request's selected database: for a database that does not exist the lookup yields nil and the process panics - e.g. a logged FLUSHDB of a database that only SELECT had created is replayed at the next start on an instance without that database", name, what))
		}
	}
}
