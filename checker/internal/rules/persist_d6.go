package rules

import (
	"fmt"
	"go/token"
	"go/types"
	"os"
	"sort"
	"strings"

	"golang.org/x/tools/go/ssa"

	"svcheck/internal/report"
	"svcheck/internal/world"
)

// D6 — snapshot typestate, analysed over TakeSnapshot and the same-package helpers it calls
// (a helper is summarised by the facts it guarantees on its nil-error returns and those that may
// hold on its failure returns, so extracting a step into a function does not lose the events).

const (
	d6SW   world.Facts = 1 << iota // state written successfully
	d6SS                           // state synced successfully
	d6NOEX                         // manifest did not exist (ErrNotExist edge)
	d6MREP                         // manifest replaced at its final path
	d6TW                           // temp manifest written
	d6TS                           // temp manifest synced
	d6TC                           // temp manifest closed
	d6SETL                         // last-save time published
)

type d6Hop struct {
	call  *ssa.Call
	op    string
	kinds map[string]bool
}

type d6Key struct {
	fn   *ssa.Function
	call *ssa.Call // the call site the helper is analysed for (nil for the top function)
}

type d6Info struct {
	deferClose map[string]bool // kinds of handles closed by a deferred call (runs at every return)
	clobbered  bool            // a deferred function literal overwrites the error result unconditionally
	fn         *ssa.Function
	events     []fileEv
	hops       []d6Hop
	helpers    []*ssa.Call // calls of same-package helpers with file effects
	setL       *ssa.Call
	resets     []*ssa.Call // calls that reset the engine's change counter (directly or through a helper)
	tested     map[*ssa.Call]bool
	retEvent   map[*ssa.Return]*ssa.Call // `return <event call>`
}

type d6Sum struct {
	okMust  world.Facts
	failMay world.Facts
	anyMay  world.Facts
}

type d6Ctx struct {
	w     *world.World
	r     *report.RuleResult
	top   *ssa.Function
	infos map[d6Key]*d6Info
	sums  map[d6Key]*d6Sum
	busy  map[*ssa.Function]bool
	nrep  int
	nerr  int
	nrem  int
	own   map[string]bool
}

func isErrNotExistCond(cond ssa.Value) bool {
	c, ok := cond.(*ssa.Call)
	if !ok {
		return false
	}
	f := c.Call.StaticCallee()
	if f == nil {
		return false
	}
	switch f.String() {
	case "errors.Is":
		if u, ok := c.Call.Args[1].(*ssa.UnOp); ok {
			if g, ok := u.X.(*ssa.Global); ok && g.Name() == "ErrNotExist" {
				return true
			}
		}
	case "os.IsNotExist":
		return true
	}
	return false
}

func d6IsManifestReplace(e fileEv) bool {
	if e.kind != "manifest" {
		return false
	}
	switch e.op {
	case "os.Create", "os.WriteFile", "os.Remove", "os.RemoveAll", "os.Truncate", "os.Rename":
		return true
	case "os.OpenFile":
		if len(e.in.Call.Args) >= 2 {
			if fl, ok := world.ConstInt(e.in.Call.Args[1]); ok {
				const oWRONLY, oRDWR = 0x1, 0x2
				return fl&(oWRONLY|oRDWR) != 0
			}
		}
		return true
	}
	return false
}

func (c *d6Ctx) hasFileEffects(fn *ssa.Function, depth int) bool {
	if fn == nil || fn.Blocks == nil || depth > 2 {
		return false
	}
	for _, call := range world.Calls(fn) {
		f := call.Common().StaticCallee()
		if f == nil {
			continue
		}
		n := f.String()
		if strings.HasPrefix(n, "os.") || strings.HasPrefix(n, "(*os.File).") {
			return true
		}
		if world.InModule(f) && world.PkgOf(f) == world.PkgOf(fn) && c.hasFileEffects(f, depth+1) {
			return true
		}
	}
	return false
}

// rebind makes the helper's parameters stand for the arguments of this call site only, so that a
// helper used for several files (writeFileSync(path, data)) is read once per call with that call's path.
func rebind(call *ssa.Call) {
	f := call.Call.StaticCallee()
	if f == nil || len(f.Params) != len(call.Call.Args) {
		return
	}
	for i, p := range f.Params {
		constParamBind[p] = []ssa.Value{call.Call.Args[i]}
	}
}

func (c *d6Ctx) info(fn *ssa.Function, site *ssa.Call) *d6Info {
	key := d6Key{fn, site}
	if i, ok := c.infos[key]; ok {
		return i
	}
	if site != nil {
		rebind(site)
	}
	inf := &d6Info{fn: fn, tested: map[*ssa.Call]bool{}, retEvent: map[*ssa.Return]*ssa.Call{}, deferClose: map[string]bool{}}
	c.infos[key] = inf
	handleKind := map[ssa.Value]string{}
	for _, ci := range world.Calls(fn) {
		call, ok := ci.(*ssa.Call)
		if !ok {
			continue
		}
		if n, ok := fieldFuncCall(call); ok && n == "setLatestSnapshotTimeFunc" {
			inf.setL = call
		}
		if resetsChangeCounter(call, 0) {
			inf.resets = append(inf.resets, call)
		}
		f := call.Call.StaticCallee()
		if f == nil {
			continue
		}
		switch n := f.String(); n {
		case "os.Create", "os.OpenFile", "os.Open", "os.WriteFile", "os.Remove", "os.RemoveAll", "os.Truncate", "os.ReadFile":
			k := pathKind(call.Call.Args[0])
			inf.events = append(inf.events, fileEv{in: call, op: n, kind: k})
			if call.Referrers() != nil {
				for _, ref := range *call.Referrers() {
					if ex, ok := ref.(*ssa.Extract); ok && ex.Index == 0 {
						handleKind[ex] = k
					}
				}
			}
		case "os.Rename":
			inf.events = append(inf.events, fileEv{in: call, op: n, kind: pathKind(call.Call.Args[1]), src: pathKind(call.Call.Args[0])})
		default:
			if world.InModule(f) && world.PkgOf(f) == world.PkgOf(fn) && f != fn && c.hasFileEffects(f, 0) {
				inf.helpers = append(inf.helpers, call)
				bindParams(call)
			}
		}
	}
	var resolve func(v ssa.Value, depth int, out map[string]bool)
	resolve = func(v ssa.Value, depth int, out map[string]bool) {
		if depth > 6 {
			return
		}
		if k, ok := handleKind[v]; ok {
			out[k] = true
			return
		}
		switch x := v.(type) {
		case *ssa.Phi:
			for _, e := range x.Edges {
				resolve(e, depth+1, out)
			}
		case *ssa.UnOp:
			if x.Op == token.MUL {
				if al, ok := x.X.(*ssa.Alloc); ok {
					if last := world.LastStoreBefore(x); last != nil {
						resolve(last, depth+1, out)
						return
					}
					for _, ref := range *al.Referrers() {
						if st, ok := ref.(*ssa.Store); ok && st.Addr == ssa.Value(al) && !world.Dominates(x, st) {
							resolve(st.Val, depth+1, out)
						}
					}
				}
			}
		case *ssa.MakeInterface:
			resolve(x.X, depth+1, out)
		}
	}
	for _, ci := range world.Calls(fn) {
		call, ok := ci.(*ssa.Call)
		if !ok {
			continue
		}
		f := call.Call.StaticCallee()
		var m string
		var recv ssa.Value
		if f != nil && strings.HasPrefix(f.String(), "(*os.File).") {
			m, recv = strings.TrimPrefix(f.String(), "(*os.File)."), call.Call.Args[0]
		} else if call.Call.IsInvoke() {
			m, recv = call.Call.Method.Name(), call.Call.Value
		}
		switch m {
		case "Write", "WriteString", "Sync", "Close", "Truncate":
			ks := map[string]bool{}
			resolve(recv, 0, ks)
			if len(ks) > 0 {
				inf.hops = append(inf.hops, d6Hop{call, m, ks})
			}
		}
	}
	// deferred Close of a handle (directly or inside a deferred function literal): runs at every return
	for _, ci := range world.Calls(fn) {
		d, ok := ci.(*ssa.Defer)
		if !ok {
			continue
		}
		closes := func(cc ssa.CallInstruction, bind func(ssa.Value) ssa.Value) {
			f := cc.Common().StaticCallee()
			var recv ssa.Value
			if f != nil && f.String() == "(*os.File).Close" {
				recv = cc.Common().Args[0]
			} else if cc.Common().IsInvoke() && cc.Common().Method.Name() == "Close" {
				recv = cc.Common().Value
			}
			if recv == nil {
				return
			}
			ks := map[string]bool{}
			resolve(bind(recv), 0, ks)
			for k := range ks {
				inf.deferClose[k] = true
			}
		}
		if mc, ok := d.Call.Value.(*ssa.MakeClosure); ok {
			lit := mc.Fn.(*ssa.Function)
			// `defer func() { err = f.Close() }()`: the named error result is overwritten whatever the
			// body returned, so an earlier failure is reported as success when the deferred call succeeds.
			// (`if err == nil { err = cerr }` - a store on the edge where the result was tested nil - keeps it.)
			for _, lb := range lit.Blocks {
				for _, lin := range lb.Instrs {
					st, ok := lin.(*ssa.Store)
					if !ok || !world.IsErrorType(st.Val.Type()) {
						continue
					}
					fv, ok := st.Addr.(*ssa.FreeVar)
					if !ok {
						continue
					}
					guarded := false
					for dd := lb; dd != nil; dd = dd.Idom() {
						iff := world.IfOf(dd)
						if iff == nil || dd == lb {
							continue
						}
						x, _, ok := world.NilTest(iff.Cond)
						if !ok {
							continue
						}
						if u, ok := x.(*ssa.UnOp); ok && u.X == ssa.Value(fv) {
							guarded = true
						}
					}
					if !guarded {
						inf.clobbered = true
					}
				}
			}
			bind := func(v ssa.Value) ssa.Value {
				// a load of a captured variable -> the captured alloc's value in fn
				if u, ok := v.(*ssa.UnOp); ok {
					if fv, ok := u.X.(*ssa.FreeVar); ok {
						for i, x := range lit.FreeVars {
							if x == fv && i < len(mc.Bindings) {
								if al, ok := mc.Bindings[i].(*ssa.Alloc); ok {
									for _, ref := range *al.Referrers() {
										if st, ok := ref.(*ssa.Store); ok && st.Addr == ssa.Value(al) {
											return st.Val
										}
									}
								}
								return mc.Bindings[i]
							}
						}
					}
				}
				if fv, ok := v.(*ssa.FreeVar); ok {
					for i, x := range lit.FreeVars {
						if x == fv && i < len(mc.Bindings) {
							return mc.Bindings[i]
						}
					}
				}
				return v
			}
			for _, cc := range world.Calls(lit) {
				closes(cc, bind)
			}
		} else {
			closes(d, func(v ssa.Value) ssa.Value { return v })
		}
	}
	succ := func(b *ssa.BasicBlock, si int, call *ssa.Call) bool {
		return world.ErrNilEdge(b, func(v ssa.Value) bool { return v == ssa.Value(call) }) == si
	}
	for _, b := range fn.Blocks {
		for si := range b.Succs {
			for _, e := range inf.events {
				if succ(b, si, e.in) {
					inf.tested[e.in] = true
				}
			}
			for _, h := range inf.helpers {
				if succ(b, si, h) {
					inf.tested[h] = true
				}
			}
			for _, h := range inf.hops {
				if succ(b, si, h.call) {
					inf.tested[h.call] = true
				}
			}
		}
	}
	for _, ret := range world.Returns(fn) {
		rv := world.RetVals(ret)
		if len(rv) == 0 {
			continue
		}
		// `return f(...)`: the call's own error is the result and nothing tests it in between
		if call, ok := rv[len(rv)-1].(*ssa.Call); ok && call.Block() == ret.Block() && !inf.tested[call] {
			inf.retEvent[ret] = call
		}
	}
	return inf
}

// eventFacts: facts established when the call (an os.* event, a handle operation or a helper) succeeds.
func (c *d6Ctx) successFacts(inf *d6Info, call *ssa.Call) world.Facts {
	var f world.Facts
	for _, h := range inf.hops {
		if h.call != call {
			continue
		}
		only := func(k string) bool { return len(h.kinds) == 1 && h.kinds[k] }
		switch {
		case h.op == "Write" && only("state"):
			f |= d6SW
		case h.op == "Sync" && only("state"):
			f |= d6SS
		case h.op == "Write" && only("manifest-tmp"):
			f |= d6TW
		case h.op == "Sync" && only("manifest-tmp"):
			f |= d6TS
		case h.op == "Close" && only("manifest-tmp"):
			f |= d6TC
		}
	}
	for _, e := range inf.events {
		if e.in == call && d6IsManifestReplace(e) {
			f |= d6MREP
		}
	}
	for _, h := range inf.helpers {
		if h == call {
			f |= c.summary(h.Call.StaticCallee(), h).okMust
		}
	}
	return f
}

func (c *d6Ctx) flow(inf *d6Info) (eg world.EdgeGen, gen, genMay world.InstrFn) {
	eg = func(b *ssa.BasicBlock, si int) world.Facts {
		var f world.Facts
		if iff := world.IfOf(b); iff != nil && isErrNotExistCond(world.CondValue(iff)) && si == 0 {
			f |= d6NOEX
		}
		// success edges of tested calls
		for call := range inf.tested {
			if world.ErrNilEdge(b, func(v ssa.Value) bool { return v == ssa.Value(call) }) == si {
				f |= c.successFacts(inf, call)
			}
		}
		return f
	}
	// untested events count at the call itself (unless the call's error is what the function returns)
	returned := map[*ssa.Call]bool{}
	for _, call := range inf.retEvent {
		returned[call] = true
	}
	gen = func(in ssa.Instruction) world.Facts {
		call, ok := in.(*ssa.Call)
		if !ok {
			return 0
		}
		var f world.Facts
		if inf.setL != nil && call == inf.setL {
			f |= d6SETL
		}
		if !inf.tested[call] && !returned[call] {
			for _, e := range inf.events {
				if e.in == call && d6IsManifestReplace(e) {
					f |= d6MREP
				}
			}
		}
		return f
	}
	genMay = func(in ssa.Instruction) world.Facts {
		f := gen(in)
		call, ok := in.(*ssa.Call)
		if !ok {
			return f
		}
		// a helper that fails may already have replaced the manifest
		for _, h := range inf.helpers {
			if h == call {
				s := c.summary(h.Call.StaticCallee(), h)
				f |= s.failMay
				if !inf.tested[call] {
					f |= s.anyMay
				}
			}
		}
		return f
	}
	return
}

func (c *d6Ctx) summary(fn *ssa.Function, site *ssa.Call) *d6Sum {
	if s, ok := c.sums[d6Key{fn, site}]; ok {
		return s
	}
	s := &d6Sum{}
	c.sums[d6Key{fn, site}] = s
	if fn == nil || fn.Blocks == nil || c.busy[fn] {
		return s
	}
	c.busy[fn] = true
	defer delete(c.busy, fn)
	inf := c.info(fn, site)
	eg, gen, genMay := c.flow(inf)
	must := world.Must(fn, eg, gen, nil)
	may := world.May(fn, eg, genMay, nil)
	var atReturn world.Facts // established by deferred calls at every return
	if inf.deferClose["manifest-tmp"] {
		atReturn |= d6TC
	}
	first := true
	for _, ret := range world.Returns(fn) {
		rv := world.RetVals(ret)
		fm := world.FactsAt(must, ret, gen, nil) | atReturn
		fy := world.FactsAt(may, ret, genMay, nil) | atReturn
		s.anyMay |= fy
		isErr := len(rv) > 0 && world.IsErrorType(rv[len(rv)-1].Type())
		switch {
		case !isErr || world.IsNilConst(rv[len(rv)-1]):
			if first {
				s.okMust, first = fm, false
			} else {
				s.okMust &= fm
			}
		case inf.retEvent[ret] != nil:
			// `return <call>`: success = call succeeded (its facts hold); failure = it did not
			ok := fm | c.successFacts(inf, inf.retEvent[ret])
			if first {
				s.okMust, first = ok, false
			} else {
				s.okMust &= ok
			}
			s.failMay |= fy
			s.anyMay |= ok
		default:
			s.failMay |= fy
			if inf.clobbered {
				// the failure may be turned into success by the deferred overwrite of the result
				if first {
					s.okMust, first = fm, false
				} else {
					s.okMust &= fm
				}
			}
		}
	}
	if first {
		s.okMust = 0
	}
	if os.Getenv("SVCHECK_DEBUG") != "" {
		fmt.Fprintf(os.Stderr, "D6 summary %s ok=%b fail=%b any=%b tested=%d helpers=%d\n", fn, s.okMust, s.failMay, s.anyMay, len(inf.tested), len(inf.helpers))
	}
	return s
}

func (c *d6Ctx) report(fn *ssa.Function, site *ssa.Call, entryMust, entryMay world.Facts, depth int) {
	inf := c.info(fn, site)
	eg, gen, genMay := c.flow(inf)
	must := world.MustFrom(fn, entryMust, eg, gen, nil)
	may := world.MayFrom(fn, entryMay, eg, genMay, nil)
	w, r := c.w, c.r
	top := world.FuncName(c.top)
	where := ""
	if fn != c.top {
		where = " (in helper " + world.FuncName(fn) + ")"
	}
	for _, e := range inf.events {
		if !d6IsManifestReplace(e) {
			continue
		}
		f := world.FactsAt(must, e.in, gen, nil)
		if f&d6NOEX != 0 {
			r.OK(fmt.Sprintf("%s|a:first-snapshot-create:%s", top, e.op), w.InstrPos(e.in), "manifest created in the branch where no manifest (hence no previous snapshot) exists")
			continue
		}
		c.nrep++
		key := fmt.Sprintf("%s|a:manifest-replace-after-state-durable:%s", top, e.op)
		if f&d6SW != 0 && f&d6SS != 0 {
			r.OK(key, w.InstrPos(e.in), "the manifest is replaced only after Write and Sync of the new state file succeeded"+where)
		} else {
			r.Fail(key, w.InstrPos(e.in), fmt.Sprintf("%s replaces/truncates the manifest at its final path before the new state file has been written and synced successfully (state written=%v synced=%v)%s: a crash or failure after this point leaves a manifest that names a snapshot which is not (completely) on disk, or an empty manifest, although a previous good snapshot existed", e.op, f&d6SW != 0, f&d6SS != 0, where))
		}
		key = fmt.Sprintf("%s|b:manifest-replace-atomic:%s", top, e.op)
		switch {
		case e.op == "os.Rename" && e.src == "manifest-tmp" && f&d6TW != 0 && f&d6TS != 0 && f&d6TC != 0:
			r.OK(key, w.InstrPos(e.in), "manifest replaced by rename of a temporary file that was written, synced and closed"+where)
		case e.op == "os.Rename":
			r.Fail(key, w.InstrPos(e.in), fmt.Sprintf("the file renamed over the manifest was not written, synced and closed successfully on every path (written=%v synced=%v closed=%v)%s", f&d6TW != 0, f&d6TS != 0, f&d6TC != 0, where))
		default:
			r.Fail(key, w.InstrPos(e.in), fmt.Sprintf("the manifest is rewritten in place (%s truncates it, the new content is written afterwards)%s: a crash between the two leaves an empty or partial manifest and start-up restore fails although a previous snapshot existed; replacement must be an atomic rename of a complete temporary file", e.op, where))
		}
	}
	// (f) every file the snapshot writes starts empty: a file opened for writing is created with
	// truncation (os.Create, or O_TRUNC / O_EXCL), so that what is renamed into place or named by the
	// manifest is exactly what this attempt wrote, whatever an earlier failed attempt left behind
	for _, e := range inf.events {
		if e.kind == "other" {
			continue
		}
		key := fmt.Sprintf("%s|f:written-file-starts-empty:%s", top, e.kind)
		switch e.op {
		case "os.Create", "os.WriteFile":
			r.OK(key, w.InstrPos(e.in), e.op+" truncates an existing file"+where)
		case "os.OpenFile":
			if len(e.in.Call.Args) < 2 {
				continue
			}
			fl, ok := world.ConstInt(e.in.Call.Args[1])
			if !ok {
				r.Und(key, w.InstrPos(e.in), "open flags are not constant"+where)
				continue
			}
			const oWRONLY, oRDWR, oEXCL, oTRUNC, oAPPEND = 0x1, 0x2, 0x80, 0x200, 0x400
			if fl&(oWRONLY|oRDWR) == 0 {
				continue // read-only open
			}
			if fl&(oTRUNC|oEXCL) != 0 && fl&oAPPEND == 0 {
				r.OK(key, w.InstrPos(e.in), "opened for writing with O_TRUNC/O_EXCL"+where)
			} else {
				r.Fail(key, w.InstrPos(e.in), fmt.Sprintf("the %s file is opened for writing without O_TRUNC/O_EXCL (flags %#x)%s: if an earlier attempt left a longer file behind (it failed or crashed after writing it), the new content overwrites only its beginning and the stale tail is published with it — the manifest/state no longer parses and start-up restore fails although good snapshots are on disk", e.kind, fl, where))
			}
		}
	}
	// (g) nothing of an earlier snapshot is removed before the new manifest is in place: a removal
	// (os.Remove / os.RemoveAll / os.Truncate, or a rename that moves something away) that can execute
	// while the manifest still names the previous snapshot must target a temporary file or a path
	// built only from what names THIS attempt's state file
	for _, e := range inf.events {
		var target ssa.Value
		switch e.op {
		case "os.Remove", "os.RemoveAll", "os.Truncate":
			target = e.in.Call.Args[0]
		case "os.Rename":
			if e.kind == "manifest" || e.src == "manifest-tmp" || e.src == "state-tmp" {
				continue
			}
			target = e.in.Call.Args[0]
		default:
			continue
		}
		if e.kind == "manifest" {
			continue // decided by (a)/(b)
		}
		c.nrem++
		key := fmt.Sprintf("%s|g:removal-after-publish:%s#%d", top, e.op, c.nrem)
		f := world.FactsAt(must, e.in, gen, nil)
		if f&d6MREP != 0 {
			r.OK(key, w.InstrPos(e.in), "removal happens only after the new manifest has been put in place"+where)
			continue
		}
		k := e.kind
		if e.op == "os.Rename" {
			k = e.src
		}
		if k == "manifest-tmp" || k == "state-tmp" {
			r.OK(key, w.InstrPos(e.in), "removes a temporary file of the snapshot writer"+where)
			continue
		}
		own := c.newStateLeaves()
		lv := map[string]bool{}
		pathLeaves(target, 0, lv)
		foreign := []string{}
		for l := range lv {
			if !own[l] {
				foreign = append(foreign, l)
			}
		}
		sort.Strings(foreign)
		if len(lv) > 0 && len(foreign) == 0 {
			r.OK(key, w.InstrPos(e.in), "removes only what this attempt itself created (the path is built from the values that name the new state file)"+where)
			continue
		}
		r.Fail(key, w.InstrPos(e.in), fmt.Sprintf("%s can delete files of the snapshot directory before the manifest of the new snapshot is in place (the path depends on %s, which does not name this attempt's own files)%s: a crash or a failure between this removal and the manifest rename leaves a manifest that names a snapshot which is no longer on disk - the last good snapshot is lost and start-up restore finds nothing", e.op, strings.Join(foreign, ", "), where))
	}
	if fn == c.top {
		for _, ret := range world.Returns(fn) {
			rv := world.RetVals(ret)
			if len(rv) != 1 || world.IsNilConst(rv[0]) {
				continue
			}
			f := world.FactsAt(may, ret, genMay, nil)
			fm := world.FactsAt(must, ret, gen, nil)
			if fm&d6NOEX != 0 && f&d6SETL == 0 {
				continue
			}
			c.nerr++
			key := fmt.Sprintf("%s|c:failed-attempt-leaves-manifest#%d", top, c.nerr)
			switch {
			case f&(d6MREP|d6SETL) == 0:
				r.OK(key, w.InstrPos(ret), "this failure / nothing-new return is not preceded by a manifest replacement or a last-save update")
			case f&d6NOEX != 0 && f&d6SETL == 0 && fm&d6MREP == 0:
				r.OK(key, w.InstrPos(ret), "only the first-snapshot manifest creation may precede this failure return")
			default:
				r.Fail(key, w.InstrPos(ret), "a snapshot attempt that fails here has already replaced the manifest or published the last-save time: a failed attempt does not leave the previous snapshot untouched")
			}
		}
		// (h) the change counter (which arms the automatic snapshot) is cleared only once the snapshot
		// is published: an attempt that fails after the reset would leave the accumulated writes
		// forgotten, and no automatic snapshot would follow until a whole new threshold of writes arrived
		for i, rc := range inf.resets {
			key := fmt.Sprintf("%s|h:change-count-reset-after-publish#%d", top, i+1)
			f := world.FactsAt(must, rc, gen, nil)
			if f&d6MREP != 0 && f&d6SS != 0 {
				r.OK(key, w.InstrPos(rc), "the change counter is reset only after the state is durable and the manifest replaced")
			} else {
				r.Fail(key, w.InstrPos(rc), "the write counter that triggers automatic snapshots is reset before the new snapshot is durable and published: if the attempt fails afterwards (I/O fault while writing the state file or the manifest) the counter stays at zero with nothing saved, the ticker no longer retries, and the accumulated writes are not snapshotted until a whole further threshold of writes has arrived")
			}
		}
		if inf.setL == nil {
			r.Fail(top+"|d:lastsave-after-publish", w.Pos(fn.Pos()), "TakeSnapshot never publishes the last-save time")
		} else {
			f := world.FactsAt(must, inf.setL, gen, nil)
			if f&d6MREP != 0 && f&d6SS != 0 {
				r.OK(top+"|d:lastsave-after-publish", w.InstrPos(inf.setL), "last-save time is published only after the state is durable and the manifest replaced")
			} else {
				r.Fail(top+"|d:lastsave-after-publish", w.InstrPos(inf.setL), "LASTSAVE is updated although the new snapshot is not yet durable and published")
			}
		}
	}
	if depth < 2 {
		for _, h := range inf.helpers {
			c.report(h.Call.StaticCallee(), h, world.FactsAt(must, h, gen, nil), world.FactsAt(may, h, genMay, nil), depth+1)
		}
	}
}

func (c *d6Ctx) paths(fn *ssa.Function, depth int, man, st *[]string) {
	if fn == nil || depth > 2 {
		return
	}
	for _, ci := range world.Calls(fn) {
		call, ok := ci.(*ssa.Call)
		if !ok {
			continue
		}
		f := call.Call.StaticCallee()
		if f == nil {
			continue
		}
		switch f.String() {
		case "os.Open", "os.OpenFile", "os.Create", "os.ReadFile", "os.Rename":
			arg := call.Call.Args[0]
			if f.String() == "os.Rename" {
				arg = call.Call.Args[1]
			}
			var cs []string
			constStrings(arg, 0, &cs)
			sort.Strings(cs)
			cs = dedup(cs)
			switch pathKind(arg) {
			case "manifest":
				*man = cs
			case "state":
				*st = cs
			}
		default:
			if world.InModule(f) && world.PkgOf(f) == world.PkgOf(fn) && f != fn {
				rebind(call)
				c.paths(f, depth+1, man, st)
			}
		}
	}
}

func ruleD6(w *world.World, r *report.RuleResult) {
	ts := w.Func("internal/snapshot.(*Engine).TakeSnapshot")
	if ts == nil {
		r.Err = fmt.Errorf("snapshot.Engine.TakeSnapshot not found")
		return
	}
	c := &d6Ctx{w: w, r: r, top: ts, infos: map[d6Key]*d6Info{}, sums: map[d6Key]*d6Sum{}, busy: map[*ssa.Function]bool{}}
	c.report(ts, nil, 0, 0, 0)
	fname := world.FuncName(ts)
	if c.nrep == 0 {
		r.Fail(fname+"|a:manifest-replace-after-state-durable", w.Pos(ts.Pos()), "TakeSnapshot never publishes a manifest for the new snapshot")
	}
	rs := w.Func("internal/snapshot.(*Engine).Restore")
	if rs == nil {
		r.Err = fmt.Errorf("snapshot.Engine.Restore not found")
		return
	}
	// (i) Restore reports success only after it published the restored snapshot's time (LASTSAVE
	// "reports the time of the snapshot that was restored") and walked the restored state
	{
		const (
			SETL world.Facts = 1 << iota
			WALK
		)
		gen := func(in ssa.Instruction) world.Facts {
			switch x := in.(type) {
			case *ssa.Call:
				if n, ok := fieldFuncCall(x); ok && n == "setLatestSnapshotTimeFunc" && len(x.Call.Args) == 1 &&
					derivesFrom(x.Call.Args[0], func(v ssa.Value) bool {
						switch f := v.(type) {
						case *ssa.FieldAddr:
							return world.FieldName(f) == "LatestSnapshotMilliseconds"
						case *ssa.Field:
							if st, ok := f.X.Type().Underlying().(*types.Struct); ok {
								return world.CanonField(st.Field(f.Field)) == "LatestSnapshotMilliseconds"
							}
						}
						return false
					}, 0) {
					return SETL
				}
			case *ssa.Range:
				return WALK
			}
			return 0
		}
		must := world.Must(rs, nil, gen, nil)
		k := 0
		rname := world.FuncName(rs)
		for _, ret := range world.Returns(rs) {
			rv := world.RetVals(ret)
			if len(rv) != 1 || !world.IsNilConst(rv[0]) {
				continue
			}
			k++
			key := fmt.Sprintf("%s|i:restore-success-publishes#%d", rname, k)
			f := world.FactsAt(must, ret, gen, nil)
			switch {
			case f&SETL != 0 && f&WALK != 0:
				r.OK(key, w.InstrPos(ret), "success is reported only after the restored snapshot's time was published and its state applied")
			case f&WALK == 0:
				r.Fail(key, w.InstrPos(ret), rname+" can report success without having applied the snapshot's state: the server starts with an empty dataset although a snapshot is on disk, and nothing tells the operator")
			default:
				r.Fail(key, w.InstrPos(ret), rname+" can report success without publishing the restored snapshot's time (the LatestSnapshotMilliseconds recorded with it): LASTSAVE does not report the snapshot that was restored")
			}
		}
	}
	// (j) the new state file goes into a directory of its own: the number its name is formatted from
	// comes from the clock of this attempt, never from the time recorded in the current manifest -
	// otherwise the attempt truncates and rewrites the last good snapshot in place, and a crash or a
	// failed write leaves the manifest naming a partial file
	{
		var mayBeManifest func(v ssa.Value, seen map[ssa.Value]bool) bool
		mayBeManifest = func(v ssa.Value, seen map[ssa.Value]bool) bool {
			if v == nil || seen[v] {
				return false
			}
			seen[v] = true
			switch x := v.(type) {
			case *ssa.Phi:
				for _, e := range x.Edges {
					if mayBeManifest(e, seen) {
						return true
					}
				}
			case *ssa.Convert:
				return mayBeManifest(x.X, seen)
			case *ssa.ChangeType:
				return mayBeManifest(x.X, seen)
			case *ssa.Field:
				return world.TypeIs(x.X.Type(), "internal/snapshot", "Manifest")
			case *ssa.UnOp:
				if x.Op != token.MUL {
					return false
				}
				switch a := x.X.(type) {
				case *ssa.FieldAddr:
					return world.TypeIs(a.X.Type(), "internal/snapshot", "Manifest")
				case *ssa.Alloc:
					for _, ref := range *a.Referrers() {
						if st, ok := ref.(*ssa.Store); ok && st.Addr == ssa.Value(a) && mayBeManifest(st.Val, seen) {
							return true
						}
					}
				}
			case *ssa.BinOp:
				// manifest time + 1 (or any strictly positive constant) is a fresh name
				if x.Op == token.ADD {
					if k, ok := world.ConstInt(x.Y); ok && k > 0 {
						return false
					}
				}
				return mayBeManifest(x.X, seen) || mayBeManifest(x.Y, seen)
			}
			return false
		}
		// the integers that reach the path argument of a file operation
		var intLeaves func(v ssa.Value, depth int, seen map[ssa.Value]bool, out *[]ssa.Value)
		intLeaves = func(v ssa.Value, depth int, seen map[ssa.Value]bool, out *[]ssa.Value) {
			if v == nil || depth > 24 || seen[v] {
				return
			}
			seen[v] = true
			if b, ok := v.Type().Underlying().(*types.Basic); ok && b.Info()&types.IsInteger != 0 {
				if _, isConst := v.(*ssa.Const); !isConst {
					*out = append(*out, v)
				}
				return
			}
			switch x := v.(type) {
			case *ssa.Call:
				f := x.Call.StaticCallee()
				if f == nil {
					return
				}
				if world.InModule(f) && f.Blocks != nil {
					for _, ret := range world.Returns(f) {
						for _, rv := range world.RetVals(ret) {
							intLeaves(rv, depth+1, seen, out)
						}
					}
				}
				for _, a := range x.Call.Args {
					intLeaves(a, depth+1, seen, out)
				}
			case *ssa.Slice:
				intLeaves(x.X, depth+1, seen, out)
			case *ssa.MakeInterface:
				intLeaves(x.X, depth+1, seen, out)
			case *ssa.BinOp:
				intLeaves(x.X, depth+1, seen, out)
				intLeaves(x.Y, depth+1, seen, out)
			case *ssa.Phi:
				for _, e := range x.Edges {
					intLeaves(e, depth+1, seen, out)
				}
			case *ssa.Convert:
				intLeaves(x.X, depth+1, seen, out)
			case *ssa.UnOp:
				if x.Op == token.MUL {
					intLeaves(x.X, depth+1, seen, out)
				}
			case *ssa.Alloc:
				for _, ref := range *x.Referrers() {
					switch y := ref.(type) {
					case *ssa.Store:
						if y.Addr == ssa.Value(x) {
							intLeaves(y.Val, depth+1, seen, out)
						}
					case *ssa.IndexAddr:
						for _, r2 := range *y.Referrers() {
							if st, ok := r2.(*ssa.Store); ok {
								intLeaves(st.Val, depth+1, seen, out)
							}
						}
					}
				}
			case *ssa.Parameter:
				for _, a := range constParamBind[x] {
					intLeaves(a, depth+1, seen, out)
				}
			}
		}
		n := 0
		for _, fn := range append([]*ssa.Function{ts}, ts.AnonFuncs...) {
			for _, cl := range world.Calls(fn) {
				call, ok := cl.(*ssa.Call)
				if !ok {
					continue
				}
				f := call.Call.StaticCallee()
				if f == nil {
					continue
				}
				switch f.String() {
				case "os.MkdirAll", "os.Mkdir", "os.Create", "os.OpenFile", "os.WriteFile":
				default:
					continue
				}
				var nums []ssa.Value
				intLeaves(call.Call.Args[0], 0, map[ssa.Value]bool{}, &nums)
				for _, x := range nums {
					n++
					key := fmt.Sprintf("%s|j:fresh-snapshot-directory#%d", fname, n)
					if mayBeManifest(x, map[ssa.Value]bool{}) {
						r.Fail(key, w.InstrPos(call), "the number in the path this attempt creates or opens for writing can be the time recorded in the current manifest: the attempt then opens the last good snapshot's state file with O_TRUNC and rewrites it in place - a crash or a failed write leaves the manifest naming an empty or partial file, and a failure at the manifest stage has already replaced the previous snapshot although the attempt reports an error")
					} else {
						r.OK(key, w.InstrPos(call), "the path is named after this attempt's own time")
					}
				}
			}
		}
	}
	var wm, wst, rm, rst []string
	c.paths(ts, 0, &wm, &wst)
	c.paths(rs, 0, &rm, &rst)
	// the manifest's temporary name is not part of the agreement
	strip := func(s []string) []string {
		var o []string
		for _, x := range s {
			if !strings.Contains(x, ".tmp") {
				o = append(o, x)
			}
		}
		return o
	}
	wm, rm = strip(wm), strip(rm)
	// a bare format verb ("%d" in fmt.Sprintf("%d", msec)) is how a number is printed, not a path
	// component: strconv.FormatInt(msec, 10) builds the same name without it
	verb := func(s []string) []string {
		var o []string
		for _, x := range s {
			if len(x) >= 2 && x[0] == '%' && strings.Trim(x[1:len(x)-1], "0123456789.+-# ") == "" && strings.ContainsAny(x[len(x)-1:], "dvs") {
				continue
			}
			o = append(o, x)
		}
		return o
	}
	wm, rm, wst, rst = verb(wm), verb(rm), verb(wst), verb(rst)
	key := fname + "|e:writer-reader-paths"
	if len(wst) > 0 && strings.Join(wst, "/") == strings.Join(rst, "/") && strings.Join(wm, "/") == strings.Join(rm, "/") {
		r.OK(key, w.Pos(rs.Pos()), fmt.Sprintf("writer and reader build the same paths: manifest %v, state %v", wm, wst))
	} else {
		r.Fail(key, w.Pos(rs.Pos()), fmt.Sprintf("TakeSnapshot and Restore build different paths: writer manifest %v state %v; reader manifest %v state %v — a snapshot that was written cannot be found again", wm, wst, rm, rst))
	}
}

// newStateLeaves: the non-constant values from which the path of the state file written by this
// attempt is built (its directory field, the timestamp of this attempt, ...).
func (c *d6Ctx) newStateLeaves() map[string]bool {
	if c.own != nil {
		return c.own
	}
	c.own = map[string]bool{}
	for _, inf := range c.infos {
		for _, e := range inf.events {
			if e.kind != "state" {
				continue
			}
			switch e.op {
			case "os.Create", "os.WriteFile":
				pathLeaves(e.in.Call.Args[0], 0, c.own)
			case "os.OpenFile":
				if fl, ok := world.ConstInt(e.in.Call.Args[1]); !ok || fl&0x3 != 0 {
					pathLeaves(e.in.Call.Args[0], 0, c.own)
				}
			}
		}
	}
	return c.own
}

// pathLeaves collects the non-constant values a path expression is built from: field loads (by
// field), calls other than the string builders (by identity), unbound parameters.
func pathLeaves(v ssa.Value, depth int, out map[string]bool) {
	if depth > 24 || v == nil {
		return
	}
	switch x := v.(type) {
	case *ssa.Const:
	case *ssa.Parameter:
		if len(constParamBind[x]) == 0 {
			out["parameter "+x.Name()+" of "+x.Parent().Name()] = true
		}
		for _, a := range constParamBind[x] {
			pathLeaves(a, depth+1, out)
		}
	case *ssa.Call:
		f := x.Call.StaticCallee()
		if f != nil && world.InModule(f) && f.Blocks != nil && isStringy(x.Type()) && depth < 20 {
			// path helper of the module: the leaves of its returned expression for this call's arguments
			if len(f.Params) == len(x.Call.Args) {
				for i, p := range f.Params {
					constParamBind[p] = []ssa.Value{x.Call.Args[i]}
				}
			}
			for _, ret := range world.Returns(f) {
				for _, rv := range world.RetVals(ret) {
					pathLeaves(rv, depth+1, out)
				}
			}
			return
		}
		if f != nil {
			switch n := f.String(); {
			case n == "path.Join", n == "path/filepath.Join", n == "fmt.Sprintf", n == "fmt.Sprint", strings.HasPrefix(n, "strconv.Format"), n == "strconv.Itoa":
				for _, a := range x.Call.Args {
					pathLeaves(a, depth+1, out)
				}
				return
			}
		}
		out[fmt.Sprintf("the result of %s (%p)", world.CalleeName(x), x)] = true
	case *ssa.Slice:
		pathLeaves(x.X, depth+1, out)
	case *ssa.Alloc:
		for _, r := range *x.Referrers() {
			switch y := r.(type) {
			case *ssa.IndexAddr:
				for _, r2 := range *y.Referrers() {
					if st, ok := r2.(*ssa.Store); ok {
						pathLeaves(st.Val, depth+1, out)
					}
				}
			case *ssa.Store:
				if y.Addr == x {
					pathLeaves(y.Val, depth+1, out)
				}
			}
		}
	case *ssa.Phi:
		for _, e := range x.Edges {
			pathLeaves(e, depth+1, out)
		}
	case *ssa.MakeInterface:
		pathLeaves(x.X, depth+1, out)
	case *ssa.ChangeType:
		pathLeaves(x.X, depth+1, out)
	case *ssa.Convert:
		pathLeaves(x.X, depth+1, out)
	case *ssa.UnOp:
		if x.Op == token.MUL {
			if fa, ok := x.X.(*ssa.FieldAddr); ok {
				out["field "+world.FieldName(fa)] = true
				return
			}
			pathLeaves(x.X, depth+1, out)
		}
	case *ssa.BinOp:
		pathLeaves(x.X, depth+1, out)
		pathLeaves(x.Y, depth+1, out)
	default:
		out[fmt.Sprintf("%s (%T)", v.Name(), v)] = true
	}
}

// resetsChangeCounter: the call stores a constant zero into an atomic counter field whose name
// mentions "change" (changeCount.Store(0)), directly or inside a same-package helper (depth 2).
func resetsChangeCounter(call *ssa.Call, d int) bool {
	f := call.Call.StaticCallee()
	if f == nil {
		return false
	}
	if strings.HasPrefix(f.String(), "(*sync/atomic.") && f.Name() == "Store" && len(call.Call.Args) == 2 {
		if fa, ok := call.Call.Args[0].(*ssa.FieldAddr); ok && strings.Contains(strings.ToLower(world.FieldName(fa)), "change") {
			if k, ok := world.ConstInt(call.Call.Args[1]); ok && k == 0 {
				return true
			}
		}
		return false
	}
	if d < 2 && world.InModule(f) && f.Blocks != nil && world.ShortPkg(world.PkgOf(f)) == "internal/snapshot" {
		for _, c := range world.Calls(f) {
			if cc, ok := c.(*ssa.Call); ok && resetsChangeCounter(cc, d+1) {
				return true
			}
		}
	}
	return false
}
