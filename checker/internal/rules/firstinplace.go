package rules

import (
	"fmt"

	"golang.org/x/tools/go/ssa"

	"svcheck/internal/report"
	"svcheck/internal/world"
)

func init() {
	register("FI", 20, "the refusable keyspace write is not preceded by an in-place update: a handler that writes through a reference to the stored value (the keyspace hands out the stored map/slice/set itself) and only then calls SetValues reports an error when that write is refused (max-memory under noeviction) although the stored value has already changed", ruleFI)
}

// ruleFI: for every handler with SetValues calls: may-fact W = "a write through a store-derived
// reference has happened (in the handler or in a helper it called)"; W at a SetValues call is a finding.
func ruleFI(w *world.World, r *report.RuleResult) {
	cmds, err := w.Commands()
	if err != nil {
		r.Err = err
		return
	}
	eng := engine(w)
	hs, _ := handlersOf(cmds, nil)
	const W world.Facts = 1
	for _, h := range hs {
		var sets []ssa.CallInstruction
		for _, c := range world.Calls(h) {
			if world.AccessorCall(c) == "SetValues" {
				sets = append(sets, c)
			}
		}
		if len(sets) == 0 {
			continue
		}
		res := eng.Analyze(h)
		gen := func(in ssa.Instruction) world.Facts {
			if !res.Sites[in] {
				return 0
			}
			// append(stored, x...) / append(stored[i:], x...) writes only beyond the stored slice's
			// length (into spare capacity): the stored value does not change. append(stored[:i], ...)
			// overwrites elements the stored header still covers and does count.
			if invisibleAppend(in) {
				return 0
			}
			// a call (helper, immediately-invoked literal) whose only writes are such appends
			if c, ok := in.(ssa.CallInstruction); ok {
				var callee *ssa.Function
				if mc, ok := c.Common().Value.(*ssa.MakeClosure); ok {
					callee = mc.Fn.(*ssa.Function)
				} else if f := c.Common().StaticCallee(); f != nil && world.InModule(f) {
					callee = f
				}
				if callee != nil {
					cname := world.FuncName(callee)
					n, inv := 0, 0
					for _, ev := range res.Events {
						under := ev.Fn == callee
						for _, ch := range ev.Chain {
							if ch == cname {
								under = true
							}
						}
						if !under {
							continue
						}
						n++
						if invisibleAppend(ev.In) {
							inv++
						}
					}
					if n > 0 && n == inv {
						return 0
					}
				}
			}
			return W
		}
		may := world.May(h, nil, gen, nil)
		name := world.FuncName(h)
		var first ssa.CallInstruction
		for _, c := range sets {
			if world.FactsAt(may, c, gen, nil)&W != 0 && first == nil {
				first = c
			}
		}
		key := name + "|write-not-preceded-by-in-place-update"
		if first != nil {
			r.Fail(key, w.InstrPos(first), fmt.Sprintf("%s updates the stored value in place (through the reference GetValues handed out) and then calls SetValues: when that write is refused - the server is at its memory limit under noeviction - the command replies with an error but the stored value has already changed (a failing command must change nothing)", name))
		} else {
			r.OK(key, w.InstrPos(sets[0]), "no write through a store-derived reference precedes the keyspace write: a refused write leaves the value as it was")
		}
	}
}

var _ = report.Discharged


// invisibleAppend: append(stored, x...) or append(stored[i:], x...): writes beyond the length of the
// stored slice only.
func invisibleAppend(in ssa.Instruction) bool {
	c, ok := in.(*ssa.Call)
	if !ok {
		return false
	}
	bi, ok := c.Call.Value.(*ssa.Builtin)
	if !ok || bi.Name() != "append" || len(c.Call.Args) == 0 {
		return false
	}
	sl, isSlice := c.Call.Args[0].(*ssa.Slice)
	return !isSlice || sl.High == nil
}
