package rules

import (
	"fmt"
	"go/token"
	"sort"
	"strings"

	"golang.org/x/tools/go/ssa"

	"svcheck/internal/report"
	"svcheck/internal/world"
)

func init() {
	register("X5", 30, "EXPIRE-family options: for each handler of EXPIRE/PEXPIRE/EXPIREAT/PEXPIREAT the decision part is evaluated over option in {none,NX,XX,GT,LT} x current deadline {none, set} x ordering of new vs current deadline {<,=,>}; whether the deadline is set and the integer reply must match the documented table (equality of deadlines left free)", ruleX5)
}

// pathOutcome of one abstract execution.
type pathOutcome struct {
	set   bool
	reply string
	err   bool
}

// enumPaths enumerates acyclic paths of fn under decide (0 true edge, 1 false edge, -1 both) and
// reports, per path, whether an event instruction was passed and the return reached.
func enumPaths(fn *ssa.Function, decide func(cond ssa.Value) int, isEvent func(ssa.Instruction) bool, limit int) (out []struct {
	event bool
	ret   *ssa.Return
}, truncated bool) {
	var dfs func(b *ssa.BasicBlock, onPath map[*ssa.BasicBlock]bool, ev bool)
	dfs = func(b *ssa.BasicBlock, onPath map[*ssa.BasicBlock]bool, ev bool) {
		if len(out) >= limit {
			truncated = true
			return
		}
		if onPath[b] {
			return
		}
		onPath[b] = true
		defer delete(onPath, b)
		for _, in := range b.Instrs {
			if isEvent(in) {
				ev = true
			}
			if r, ok := in.(*ssa.Return); ok {
				out = append(out, struct {
					event bool
					ret   *ssa.Return
				}{ev, r})
				return
			}
		}
		if iff := world.IfOf(b); iff != nil {
			switch decide(world.CondValue(iff)) {
			case 0:
				dfs(b.Succs[0], onPath, ev)
			case 1:
				dfs(b.Succs[1], onPath, ev)
			default:
				dfs(b.Succs[0], onPath, ev)
				dfs(b.Succs[1], onPath, ev)
			}
			return
		}
		for _, s := range b.Succs {
			dfs(s, onPath, ev)
		}
	}
	if len(fn.Blocks) > 0 {
		dfs(fn.Blocks[0], map[*ssa.BasicBlock]bool{}, false)
	}
	return
}

// cmdIndexOf: v is params.Command[idx] possibly wrapped in strings.ToLower/ToUpper.
func cmdIndexOf(v ssa.Value) (int64, bool) {
	v = world.Forward(v)
	if c, ok := v.(*ssa.Call); ok {
		if f := c.Call.StaticCallee(); f != nil && (f.String() == "strings.ToLower" || f.String() == "strings.ToUpper") {
			return cmdIndexOf(c.Call.Args[0])
		}
		return 0, false
	}
	u, ok := v.(*ssa.UnOp)
	if !ok || u.Op != token.MUL {
		return 0, false
	}
	ia, ok := u.X.(*ssa.IndexAddr)
	if !ok {
		return 0, false
	}
	return world.ConstInt(ia.Index)
}

func ruleX5(w *world.World, r *report.RuleResult) {
	cmds, err := w.Commands()
	if err != nil {
		r.Err = err
		return
	}
	handlers := map[*ssa.Function][]string{}
	for _, c := range cmds {
		switch c.Name {
		case "expire", "pexpire", "expireat", "pexpireat":
			if c.Handler != nil {
				handlers[c.Handler] = append(handlers[c.Handler], c.Name)
			}
		}
	}
	if len(handlers) == 0 {
		r.Err = fmt.Errorf("EXPIRE-family commands not found in the command table")
		return
	}
	var hs []*ssa.Function
	for h := range handlers {
		hs = append(hs, h)
	}
	sort.Slice(hs, func(i, j int) bool { return world.FuncName(hs[i]) < world.FuncName(hs[j]) })
	type want struct {
		set   bool
		reply string
	}
	// documented table; rel = ordering of NEW vs CURRENT deadline
	table := func(opt string, curSet bool, rel string) (want, bool) {
		yes, no := want{true, ":1\r\n"}, want{false, ":0\r\n"}
		switch opt {
		case "":
			return yes, true
		case "nx":
			if curSet {
				return no, true
			}
			return yes, true
		case "xx":
			if curSet {
				return yes, true
			}
			return no, true
		case "gt":
			if !curSet {
				return no, true // a key without expiry counts as infinite TTL
			}
			switch rel {
			case ">":
				return yes, true
			case "<":
				return no, true
			}
			return want{}, false // equality left free
		case "lt":
			if !curSet {
				return yes, true
			}
			switch rel {
			case "<":
				return yes, true
			case ">":
				return no, true
			}
			return want{}, false
		}
		return want{}, false
	}
	for _, h := range hs {
		hname := world.FuncName(h)
		symOf := func(v ssa.Value) string {
			switch {
			case derivesFrom(v, func(x ssa.Value) bool {
				c, ok := x.(*ssa.Call)
				return ok && world.Accessor(c.Call.Value) == "GetExpiry"
			}, 0):
				return "cur"
			case derivesFrom(v, func(x ssa.Value) bool {
				c, ok := x.(*ssa.Call)
				if !ok {
					return false
				}
				f := c.Call.StaticCallee()
				return f != nil && (f.String() == "(time.Time).Add" || f.String() == "time.Unix" || f.String() == "time.UnixMilli")
			}, 0):
				return "new"
			}
			return ""
		}
		for _, opt := range []string{"", "nx", "xx", "gt", "lt"} {
			for _, curSet := range []bool{false, true} {
				for _, rel := range []string{"<", "=", ">"} {
					if !curSet && rel != "=" {
						continue // ordering is meaningless without a current deadline: one case
					}
					undecided := ""
					decide := func(cond ssa.Value) int {
						neg := false
						c := cond
						if u, ok := c.(*ssa.UnOp); ok && u.Op == token.NOT {
							c, neg = u.X, true
						}
						res := -1
						switch x := c.(type) {
						case *ssa.BinOp:
							// err != nil: assume success
							if _, _, ok := world.NilTest(x); ok {
								if x.Op == token.NEQ {
									res = 1
								} else {
									res = 0
								}
								break
							}
							// len(params.Command) op k
							if lc, ok := x.X.(*ssa.Call); ok {
								if b, ok := lc.Call.Value.(*ssa.Builtin); ok && b.Name() == "len" {
									if k, ok := world.ConstInt(x.Y); ok {
										ar := int64(3)
										if opt != "" {
											ar = 4
										}
										holds := map[token.Token]bool{token.EQL: ar == k, token.NEQ: ar != k, token.LSS: ar < k, token.GTR: ar > k, token.LEQ: ar <= k, token.GEQ: ar >= k}[x.Op]
										if holds {
											res = 0
										} else {
											res = 1
										}
										break
									}
								}
							}
							// option / command-name comparisons
							if s, ok := world.ConstString(x.Y); ok && (x.Op == token.EQL || x.Op == token.NEQ) {
								if idx, ok := cmdIndexOf(x.X); ok {
									switch idx {
									case 3:
										holds := strings.EqualFold(opt, s) == (x.Op == token.EQL)
										if holds {
											res = 0
										} else {
											res = 1
										}
									case 0:
										res = -1 // EXPIRE vs PEXPIRE: both
										return -1
									}
									break
								}
							}
							// current deadline vs zero
							if v, trueIsZero, ok := zeroTimeTest(x); ok && symOf(v) == "cur" {
								isZero := !curSet
								if isZero == trueIsZero {
									res = 0
								} else {
									res = 1
								}
								break
							}
						case *ssa.Call:
							if a, b, before, ok := timeCmp(x); ok {
								sa, sb := symOf(a), symOf(b)
								rr := rel
								switch {
								case sa == "new" && sb == "cur":
								case sa == "cur" && sb == "new":
									rr = flipRel(rel)
								default:
									undecided = "time comparison between unrecognised operands"
									return -1
								}
								holds := (before && rr == "<") || (!before && rr == ">")
								if holds {
									res = 0
								} else {
									res = 1
								}
								break
							}
							if v, trueIsZero, ok := zeroTimeTest(x); ok && symOf(v) == "cur" {
								if (!curSet) == trueIsZero {
									res = 0
								} else {
									res = 1
								}
							}
						case *ssa.Lookup, *ssa.Extract:
							res = 0 // keyExists[key]: the key exists
						}
						if res == -1 {
							return -1
						}
						if neg {
							return 1 - res
						}
						return res
					}
					paths, trunc := enumPaths(h, decide, func(in ssa.Instruction) bool {
						c, ok := in.(ssa.CallInstruction)
						return ok && world.AccessorCall(c) == "SetExpiry"
					}, 64)
					wantOut, constrained := table(opt, curSet, rel)
					relName := rel
					if !curSet {
						relName = "-"
					}
					key := fmt.Sprintf("%s|opt:%s|cur:%v|new%scur", hname, map[string]string{"": "none"}[opt]+opt, curSet, relName)
					if !constrained {
						r.Skip(key, w.Pos(h.Pos()), "equal deadlines under GT/LT: left free")
						continue
					}
					outs := map[pathOutcome]bool{}
					for _, p := range paths {
						rv := world.RetVals(p.ret)
						o := pathOutcome{set: p.event}
						if len(rv) == 2 && !world.IsNilConst(rv[1]) {
							o.err = true
						}
						if s, ok := world.ConstString(world.Unwrap(rv[0])); ok {
							o.reply = s
						}
						outs[o] = true
					}
					var got []string
					okAll := len(outs) > 0 && !trunc && undecided == ""
					for o := range outs {
						got = append(got, fmt.Sprintf("{set:%v reply:%q err:%v}", o.set, o.reply, o.err))
						if o.err || o.set != wantOut.set || o.reply != wantOut.reply {
							okAll = false
						}
					}
					sort.Strings(got)
					cmdNames := strings.ToUpper(strings.Join(handlers[h], "/"))
					switch {
					case trunc || undecided != "":
						r.Und(key, w.Pos(h.Pos()), "could not evaluate the decision part: "+undecided)
					case okAll:
						r.OK(key, w.Pos(h.Pos()), fmt.Sprintf("outcome %s matches the documented behaviour", strings.Join(got, ",")))
					default:
						r.Fail(key, w.Pos(h.Pos()), fmt.Sprintf("%s with option %q, current deadline %s, new deadline %s current: the handler's outcome is %s but the documented behaviour is {set:%v reply:%q}",
							cmdNames, strings.ToUpper(opt), map[bool]string{true: "set", false: "none"}[curSet], relName, strings.Join(got, " or "), wantOut.set, wantOut.reply))
					}
				}
			}
		}
	}
}
