package rules

import (
	"fmt"

	"golang.org/x/tools/go/ssa"

	"svcheck/internal/report"
	"svcheck/internal/world"
)

func init() {
	register("FR", 2, "request framing: the connection loop takes each command from a RESP frame reader ((*resp.Reader).ReadValue / ReadMultiBulk) that lives as long as the connection - created before the loop, not per command. A loop that takes whatever one read returns for one command answers two commands sent in one write once, answers each half of a command that arrives in two pieces with an error, and waits for ever on a command whose length is a multiple of its buffer; a reader created per command drops what the previous one had buffered", ruleFR)
}

func ruleFR(w *world.World, r *report.RuleResult) {
	loop, cmdCall, err := connLoop(w)
	if err != nil {
		r.Err = err
		return
	}
	fname := world.FuncName(loop)
	var read ssa.CallInstruction
	for _, c := range world.Calls(loop) {
		if isRequestRead(c) {
			read = c
		}
	}
	if read == nil {
		r.Fail(fname+"|frame-reader", w.Pos(loop.Pos()), "the connection loop's request read was not found")
		return
	}
	if !isFrameRead(read) {
		r.Fail(fname+"|frame-reader", w.InstrPos(read), fmt.Sprintf("%s obtains a command with %s, which returns what one read of the connection delivers (a fixed buffer, a new bufio.Reader per call) instead of one RESP frame: two commands sent in one write get one reply, a command that arrives in two pieces gets an error reply per piece, and a command whose length is a multiple of the buffer size gets no reply until more bytes arrive", fname, world.FuncName(read.Common().StaticCallee())))
		return
	}
	r.OK(fname+"|frame-reader", w.InstrPos(read), "commands are read as RESP frames")
	// the reader is created outside the request loop
	var blocks map[*ssa.BasicBlock]bool
	for d := read.Block(); d != nil; d = d.Idom() {
		if nl := naturalLoop(d); nl != nil && nl[read.Block()] && nl[cmdCall.Block()] {
			blocks = nl
			break
		}
	}
	recv, _ := frameReader(read, 0)
	def, isInstr := recv.(ssa.Instruction)
	switch {
	case blocks == nil:
		r.Fail(fname+"|reader-outlives-command", w.InstrPos(read), "the request read and the command call are not in one loop: the connection serves one command only")
	case isInstr && blocks[def.Block()]:
		r.Fail(fname+"|reader-outlives-command", w.InstrPos(def), "the RESP reader is created inside the request loop: whatever the previous reader had buffered beyond its command (the next pipelined command, the beginning of a large one) is dropped with it")
	default:
		r.OK(fname+"|reader-outlives-command", w.InstrPos(read), "the RESP reader is created once per connection, before the request loop")
	}
}
