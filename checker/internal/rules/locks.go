package rules

import (
	"fmt"
	"sort"
	"strings"

	"golang.org/x/tools/go/ssa"

	"svcheck/internal/lockset"
	"svcheck/internal/report"
	"svcheck/internal/world"
)

func init() {
	register("L1", 110, "lock discipline: every access to a guarded field (frozen field->lock table) happens with its lock held in a sufficient mode (writes need the write lock), locally or on every call chain from every root (exported API, goroutine start, callback)", ruleL1)
	register("L2", 8, "lock order: the held->acquired graph over all functions (including acquisitions made by callees) has no cycle, and no non-reentrant lock is re-acquired while held", ruleL2)
}

// guardTable is the frozen field -> lock table (DESIGN.md I7). It was inferred from the
// majority of accesses on the pinned tree, confirmed by reading, and is the reference for
// later changes. One line of reason per entry.
var guardTable = []*lockset.Guard{
	{Field: "sugardb.SugarDB.store", Lock: "sugardb.SugarDB.storeLock", Why: "\"Global read-write mutex for entire store\" (struct comment); every keyspace primitive takes it"},
	{Field: "sugardb.SugarDB.memUsed", Lock: "sugardb.SugarDB.storeLock", Why: "updated only inside setValues/deleteKey critical sections"},
	{Field: "sugardb.SugarDB.keysWithExpiry.keys", Lock: "sugardb.SugarDB.keysWithExpiry.rwMutex", Why: "struct comment: only one process may update this list at a time"},
	{Field: "sugardb.SugarDB.connInfo.tcpClients", Lock: "sugardb.SugarDB.connInfo.mut", Why: "struct comment: RWMutex for the connInfo object"},
	{Field: "sugardb.SugarDB.connInfo.embedded", Lock: "sugardb.SugarDB.connInfo.mut", Why: "same object"},
	{Field: "sugardb.SugarDB.commands", Lock: "sugardb.SugarDB.commandsRWMut", Why: "declared next to each other; getCommand/AddCommand/RemoveCommand take it"},
	{Field: "sugardb.SugarDB.lfuCache.cache", Lock: "sugardb.SugarDB.storeLock", Alt: "sugardb.SugarDB.lfuCache.mutex", Why: "per-database cache map: created in createDatabase under the store lock, read by the keyspace primitives under the store lock"},
	{Field: "sugardb.SugarDB.lruCache.cache", Lock: "sugardb.SugarDB.storeLock", Alt: "sugardb.SugarDB.lruCache.mutex", Why: "as lfuCache.cache"},
	{Field: "acl.ACL.Users", Lock: "acl.ACL.UsersMutex", Why: "struct comment"},
	{Field: "acl.ACL.Connections", Lock: "acl.ACL.UsersMutex", Why: "RegisterConnection / AuthorizeConnection access it under UsersMutex"},
	{Field: "acl.ACL.GlobPatterns", Lock: "acl.ACL.UsersMutex", Why: "compiled under the write lock in SetUser, read by AuthorizeConnection under the read lock"},
	{Field: "pubsub.PubSub.channels", Lock: "pubsub.PubSub.channelsRWMut", Why: "declared together; Subscribe/Unsubscribe/Publish take it"},
	{Field: "pubsub.Channel.subscribers", Lock: "pubsub.Channel.subscribersRWMut", Why: "struct comment"},
	{Field: "log.Store.rw", Lock: "log.Store.mut", Handle: true, Why: "handle set once in the constructor; every use (Write/Seek/Truncate/Sync/Close) must be under the store mutex"},
	{Field: "log.Store.currentDatabase", Lock: "log.Store.mut", Why: "updated by Write under mut"},
	{Field: "preamble.Store.rw", Lock: "preamble.Store.mut", Handle: true, Why: "as log.Store.rw"},
	{Field: "eviction.CacheLRU.entries", Lock: "sugardb.SugarDB.storeLock", Monitor: true, Why: "heap internals: every mutation (Update, Delete, Flush, heap.Pop in eviction) happens inside a store-lock critical section; the cache's own Mutex is additionally taken around most but not all of them (deleteKey does not), so the store lock is the lock all accesses share"},
	{Field: "eviction.CacheLRU.keys", Lock: "sugardb.SugarDB.storeLock", Monitor: true, Why: "same"},
	{Field: "eviction.CacheLFU.entries", Lock: "sugardb.SugarDB.storeLock", Monitor: true, Why: "same"},
	{Field: "eviction.CacheLFU.keys", Lock: "sugardb.SugarDB.storeLock", Monitor: true, Why: "same"},
}

// constructorPhase: functions that build an object before it is published to other goroutines.
func constructorPhase(fn *ssa.Function) string {
	top := world.Outermost(fn)
	name := top.Name()
	pk := world.ShortPkg(world.PkgOf(top))
	if fn != top {
		// closures inside constructors run later (callbacks, goroutines) unless they are
		// immediately-invoked initialisers or option setters
		if strings.HasPrefix(name, "With") && pk != "sugardb" {
			return "option setter closure (runs inside the constructor)"
		}
		if strings.HasPrefix(name, "With") && pk == "sugardb" {
			return "option setter closure (runs inside NewSugarDB before publication)"
		}
		return ""
	}
	if top.Signature.Recv() == nil && strings.HasPrefix(name, "New") {
		return "constructor: the object is not yet shared"
	}
	if name == "initialiseCaches" && pk == "sugardb" {
		return "called only from NewSugarDB before the instance is returned"
	}
	return ""
}

// ignoreAcq lists the justified exceptions of the lock-order analysis (one named call edge each).
func ignoreAcq(caller, callee *ssa.Function, lock string) bool {
	// The AOF replay closure calls the dispatcher with replay=true; rule D2(c) proves that the AOF
	// append (the only path to log.Store.mut / aof.Engine.mut from the dispatcher besides REWRITEAOF,
	// which is not a logged command) is unreachable with replay==true. The lock-order analysis is
	// path-insensitive, so acquisitions "through" this edge are not real.
	if world.FuncName(caller) == "internal/aof/log.(*Store).Restore" && (lock == "log.Store.mut" || lock == "aof.Engine.mut" || lock == "preamble.Store.mut") {
		return true
	}
	return false
}

var lsMemo *lockset.Analysis

func locksetOf(w *world.World) *lockset.Analysis {
	if lsMemo == nil || lsMemo.W != w {
		lsMemo = lockset.New(w, guardTable, constructorPhase)
		lsMemo.IgnoreAcq = ignoreAcq
	}
	return lsMemo
}

func ruleL1(w *world.World, r *report.RuleResult) {
	a := locksetOf(w)
	vs := a.Check()
	type agg struct {
		ok      bool
		n       int
		first   lockset.Verdict
		bad     *lockset.Verdict
		exempt  string
		lowMode bool
	}
	groups := map[string]*agg{}
	var order []string
	seenField := map[string]bool{}
	for _, v := range vs {
		seenField[v.Access.G.Field] = true
		key := fmt.Sprintf("%s|%s|%s", world.FuncName(v.Access.Fn), v.Access.G.Field, v.Mode)
		if !v.OK {
			// monitor pattern: methods of the guarded type assume their caller holds the lock; the
			// unmet requirement is attributed to the first caller outside the type's own methods
			if b, m := blame(v); b != nil {
				key = fmt.Sprintf("%s|calls:%s|needs:%s", world.FuncName(b), world.FuncName(m), v.Access.G.Lock)
			}
		}
		g := groups[key]
		if g == nil {
			g = &agg{ok: true, first: v}
			groups[key] = g
			order = append(order, key)
		}
		g.n++
		if v.Exempt != "" {
			g.exempt = v.Exempt
		}
		if !v.OK && g.bad == nil {
			vv := v
			g.bad = &vv
			g.ok = false
		}
	}
	sort.Strings(order)
	for _, key := range order {
		g := groups[key]
		acc := g.first.Access
		switch {
		case g.exempt != "":
			r.Skip(key, w.InstrPos(acc.In), "constructor phase: "+g.exempt)
		case g.ok:
			how := "held locally"
			if !coveredLocally(acc) {
				how = "held by every caller chain up to every root"
			}
			r.OK(key, w.InstrPos(acc.In), fmt.Sprintf("%d access(es); %s (%s) %s", g.n, acc.G.Lock, modeName(acc.Write), how))
		default:
			b := g.bad
			msg := fmt.Sprintf("%s without %s held in %s mode. Reached unlocked via: %s. ", a.Describe(b.Access), b.Access.G.Lock, modeName(b.Access.Write), strings.Join(b.Witness, " -> "))
			if b.Access.Write && b.Access.Held[b.Access.G.Lock] == lockset.ModeR {
				msg += "Only the read lock is held while the shared structure is written: concurrent readers observe a half-written value and concurrent map writes abort the process."
			} else {
				msg += "A concurrent command touching the same structure races with this access (Go aborts the process on concurrent map read/write)."
			}
			r.Fail(key, w.InstrPos(b.Access.In), msg)
		}
	}
	// every table entry must still be anchored in the code
	for _, g := range guardTable {
		if !seenField[g.Field] {
			r.Und("table|"+g.Field, "-", "guard table entry "+g.Field+" matches no access in the current source (field renamed or removed): the table must be re-confirmed")
		}
	}
}

func modeName(write bool) string {
	if write {
		return "write"
	}
	return "read"
}

func coveredLocally(acc lockset.Access) bool {
	m := lockset.ModeR
	if acc.Write {
		m = lockset.ModeW
	}
	return acc.Held[acc.G.Lock] >= m || (acc.G.Alt != "" && acc.Held[acc.G.Alt] >= m)
}

func ruleL2(w *world.World, r *report.RuleResult) {
	a := locksetOf(w)
	edges := a.OrderGraph()
	adj := map[string][]string{}
	var keys [][2]string
	for k := range edges {
		keys = append(keys, k)
		adj[k[0]] = append(adj[k[0]], k[1])
	}
	sort.Slice(keys, func(i, j int) bool {
		if keys[i][0] != keys[j][0] {
			return keys[i][0] < keys[j][0]
		}
		return keys[i][1] < keys[j][1]
	})
	// reachability for cycle detection. Goodlock-style gates: two edges that are both taken only
	// while a common third lock is held cannot be interleaved, so the search from edge e only
	// follows edges that share no gate lock with e (other than the cycle's own locks).
	shareGate := func(e1, e2 lockset.OrderEdge) bool {
		for g := range e1.Gates {
			if _, ok := e2.Gates[g]; ok && g != e1.From && g != e1.To && g != e2.From && g != e2.To {
				return true
			}
		}
		return false
	}
	reach := func(start lockset.OrderEdge, from, to string) bool {
		seen := map[string]bool{}
		var dfs func(x string) bool
		dfs = func(x string) bool {
			if x == to {
				return true
			}
			if seen[x] {
				return false
			}
			seen[x] = true
			for _, y := range adj[x] {
				if shareGate(start, edges[[2]string{x, y}]) {
					continue
				}
				if dfs(y) {
					return true
				}
			}
			return false
		}
		for _, y := range adj[from] {
			if shareGate(start, edges[[2]string{from, y}]) {
				continue
			}
			if dfs(y) {
				return true
			}
		}
		return false
	}
	for _, k := range keys {
		e := edges[k]
		key := "order:" + k[0] + "->" + k[1]
		via := ""
		if e.Via != "" {
			via = " via " + e.Via
		}
		if reach(e, k[1], k[0]) {
			r.Fail(key, w.InstrPos(e.In), fmt.Sprintf("%s is acquired while %s is held (in %s%s), and elsewhere %s is (transitively) acquired while %s is held: two goroutines taking the locks in opposite orders deadlock", k[1], k[0], world.FuncName(e.Fn), via, k[0], k[1]))
		} else {
			r.OK(key, w.InstrPos(e.In), fmt.Sprintf("%s acquired while %s held (in %s%s; gates %s); no ungated path back", k[1], k[0], world.FuncName(e.Fn), via, e.Gates))
		}
	}
	for _, e := range a.SelfDeadlocks() {
		key := "reacquire:" + e.From + "|" + world.FuncName(e.Fn) + "->" + e.Via
		r.Fail(key, w.InstrPos(e.In), fmt.Sprintf("%s calls %s while holding %s, and the callee (transitively) acquires the same non-reentrant lock: the goroutine deadlocks on itself", world.FuncName(e.Fn), e.Via, e.From))
	}
}

// blame: for an access inside a method of the type that owns the guarded field, return the
// nearest caller in the witness chain that is not a method of that type, and the method it calls.
func blame(v lockset.Verdict) (caller, method *ssa.Function) {
	owner := v.Access.G.Field
	if i := strings.LastIndex(owner, "."); i > 0 {
		owner = owner[:i]
	}
	isMethodOfOwner := func(f *ssa.Function) bool {
		f = world.Outermost(f)
		r := f.Signature.Recv()
		if r == nil {
			return false
		}
		n := world.NamedOf(r.Type())
		if n == nil || n.Obj().Pkg() == nil {
			return false
		}
		return n.Obj().Pkg().Name()+"."+n.Obj().Name() == owner
	}
	if !v.Access.G.Monitor || !isMethodOfOwner(v.Access.Fn) || len(v.Chain) < 2 {
		return nil, nil
	}
	for i := len(v.Chain) - 1; i >= 1; i-- {
		if isMethodOfOwner(v.Chain[i]) && !isMethodOfOwner(v.Chain[i-1]) {
			return v.Chain[i-1], v.Chain[i]
		}
	}
	return nil, nil
}

// ---- L4: command-level atomicity ----

func init() {
	register("L4", 40, "command atomicity: a handler whose execution takes more than one keyspace step (accessor call or in-place write), at least one of them a write, holds a command-scoped lock across all of them — otherwise another client's command can run between the steps (lost update, half-applied multi-key write)", ruleL4)
}

var keyspaceSteps = map[string]bool{"KeysExist": true, "GetValues": true, "GetExpiry": true, "Randomkey": true,
	"SetValues": true, "SetExpiry": true, "DeleteKey": true, "Flush": true}

func ruleL4(w *world.World, r *report.RuleResult) {
	cmds, err := w.Commands()
	if err != nil {
		r.Err = err
		return
	}
	a := locksetOf(w)
	eng := engine(w)
	hs, names := handlersOf(cmds, nil)
	for _, h := range hs {
		reach := w.ReachFrom(h, false)
		type step struct {
			in    ssa.Instruction
			name  string
			write bool
		}
		var steps []step
		for acc, sites := range reach.Accessors {
			if !keyspaceSteps[acc] {
				continue
			}
			for _, c := range sites {
				steps = append(steps, step{c, acc, world.Mutators[acc]})
			}
		}
		for _, ev := range eng.Analyze(h).Events {
			steps = append(steps, step{ev.In, "in-place " + ev.Kind, true})
		}
		sort.Slice(steps, func(i, j int) bool { return steps[i].in.Pos() < steps[j].in.Pos() })
		key := world.FuncName(h)
		nWrite := 0
		for _, s := range steps {
			if s.write {
				nWrite++
			}
		}
		if nWrite == 0 {
			continue // read-only: consistency of multi-step reads is not claimed
		}
		// find a pair of steps that can both execute in one run: B reachable from A
		var pa, pb *step
		for i := range steps {
			for j := range steps {
				x, y := steps[i], steps[j]
				if !x.write && !y.write {
					continue
				}
				if canFollow(x.in, y.in) {
					// common lock across both?
					hx, hy := a.HeldAt(x.in), a.HeldAt(y.in)
					common := false
					for l := range hx {
						if _, ok := hy[l]; ok {
							common = true
						}
					}
					if !common {
						pa, pb = &steps[i], &steps[j]
						break
					}
				}
			}
			if pa != nil {
				break
			}
		}
		cmd := strings.ToUpper(strings.Join(names[h], "/"))
		if pa == nil {
			r.OK(key, w.Pos(h.Pos()), fmt.Sprintf("%s: at most one keyspace step per execution (%d step site(s)), so the keyspace lock of that step makes the command atomic", cmd, len(steps)))
			continue
		}
		r.Fail(key, w.InstrPos(pa.in), fmt.Sprintf("%s is not atomic: %s at %s and %s at %s are separate critical sections of the keyspace lock with no command-scoped lock across them; a concurrent command on the same key can run in between (e.g. two clients both read the old value and both write: one update is lost; a multi-key write is observed half-applied)",
			cmd, pa.name, w.InstrPos(pa.in), pb.name, w.InstrPos(pb.in)))
	}
}

// canFollow: instruction b can execute after instruction a in one activation (same function:
// CFG reachability incl. loops; different functions: assumed).
func canFollow(a, b ssa.Instruction) bool {
	if a.Parent() != b.Parent() {
		return true
	}
	ba, bb := a.Block(), b.Block()
	if ba == bb {
		ia, ib := -1, -1
		for i, in := range ba.Instrs {
			if in == a {
				ia = i
			}
			if in == b {
				ib = i
			}
		}
		if ia < ib {
			return true
		}
	}
	// b's block reachable from a's block via at least one edge
	seen := map[*ssa.BasicBlock]bool{}
	var dfs func(x *ssa.BasicBlock) bool
	dfs = func(x *ssa.BasicBlock) bool {
		for _, s := range x.Succs {
			if s == bb {
				return true
			}
			if !seen[s] {
				seen[s] = true
				if dfs(s) {
					return true
				}
			}
		}
		return false
	}
	return dfs(ba)
}
