package rules

import (
	"fmt"
	"go/token"
	"go/types"
	"sort"
	"strings"

	"golang.org/x/tools/go/ssa"

	"svcheck/internal/report"
	"svcheck/internal/world"
)

func init() {
	register("MV", 1, "moves are alias-safe: a command or container operation that inserts under one name and deletes under another does the deletion first, or is guarded by a comparison of the two names — when the client names the same key (or the same set) twice, insert-then-delete removes what was just written and the value is lost, delete-then-insert leaves it in place", ruleMV)
}

func ruleMV(w *world.World, r *report.RuleResult) {
	cmds, err := w.Commands()
	if err != nil {
		r.Err = err
		return
	}
	hs, _ := handlersOf(cmds, func(c *world.CmdEntry) bool { return !c.IsReadOnly() })
	sort.Slice(hs, func(i, j int) bool { return world.FuncName(hs[i]) < world.FuncName(hs[j]) })
	// guarded: some If in fn compares a and b for (in)equality and dominates in
	guarded := func(fn *ssa.Function, a, b ssa.Value, in ssa.Instruction) bool {
		for _, blk := range fn.Blocks {
			iff := world.IfOf(blk)
			if iff == nil || !blk.Dominates(in.Block()) {
				continue
			}
			if derivesFrom(world.CondValue(iff), func(v ssa.Value) bool {
				bo, ok := v.(*ssa.BinOp)
				if !ok || (bo.Op != token.EQL && bo.Op != token.NEQ) {
					return false
				}
				return (world.SameExpr(bo.X, a) && world.SameExpr(bo.Y, b)) || (world.SameExpr(bo.X, b) && world.SameExpr(bo.Y, a))
			}, 0) {
				return true
			}
		}
		return false
	}
	n := 0
	// (1) keyspace level: SetValues{k2: …} followed by DeleteKey(k1), both names supplied by the client
	for _, fn := range hs {
		if fn.Blocks == nil {
			continue
		}
		type wr struct {
			call ssa.CallInstruction
			keys []ssa.Value
		}
		var writes []wr
		var dels []ssa.CallInstruction
		for _, c := range world.Calls(fn) {
			switch world.AccessorCall(c) {
			case "SetValues":
				var ks []ssa.Value
				for _, a := range c.Common().Args {
					if mm, ok := a.(*ssa.MakeMap); ok {
						for _, ref := range *mm.Referrers() {
							if mu, ok := ref.(*ssa.MapUpdate); ok && mu.Map == ssa.Value(mm) {
								ks = append(ks, mu.Key)
							}
						}
					}
				}
				writes = append(writes, wr{c, ks})
			case "DeleteKey":
				dels = append(dels, c)
			}
		}
		for _, s := range writes {
			for _, d := range dels {
				if !canFollow(s.call, d) || len(d.Common().Args) < 2 {
					continue
				}
				kd := d.Common().Args[len(d.Common().Args)-1]
				for _, ks := range s.keys {
					if world.SameExpr(ks, kd) {
						continue // the same name by construction: an intended replace-then-remove is another matter
					}
					if _, isConst := ks.(*ssa.Const); isConst {
						continue
					}
					n++
					key := fmt.Sprintf("%s|write-then-delete#%d", world.FuncName(fn), n)
					if guarded(fn, ks, kd, s.call) {
						r.OK(key, w.InstrPos(d), "the two names are compared before the write: the same-name case is handled apart")
					} else {
						r.Fail(key, w.InstrPos(d), fmt.Sprintf("%s writes the value under %s and afterwards deletes %s, without ever comparing the two names: when the client gives the same name twice (e.g. RENAME k k) the delete removes the value that was just written and the key is lost, where the command should leave it unchanged", world.FuncName(fn), exprString(ks), exprString(kd)))
					}
				}
			}
		}
	}
	// (2) container level: insert into one object, then remove from another object of the same type
	// that the caller may have passed twice
	isIns := func(name string) bool {
		for _, p := range []string{"Add", "Push", "Insert", "Set", "Put"} {
			if strings.HasPrefix(name, p) {
				return true
			}
		}
		return false
	}
	isDel := func(name string) bool {
		for _, p := range []string{"Remove", "Delete", "Pop", "Rem"} {
			if strings.HasPrefix(name, p) {
				return true
			}
		}
		return false
	}
	for _, fn := range w.ModFns {
		if fn.Blocks == nil || !strings.Contains(world.FuncName(fn), "internal/modules/") {
			continue
		}
		var ins, del []*ssa.Call
		for _, c := range world.Calls(fn) {
			call, ok := c.(*ssa.Call)
			if !ok {
				continue
			}
			f := call.Call.StaticCallee()
			if f == nil || f.Signature.Recv() == nil || !world.InModule(f) || len(call.Call.Args) == 0 {
				continue
			}
			if _, isPtr := f.Signature.Recv().Type().(*types.Pointer); !isPtr {
				continue
			}
			if isIns(f.Name()) {
				ins = append(ins, call)
			}
			if isDel(f.Name()) {
				del = append(del, call)
			}
		}
		for _, a := range ins {
			for _, d := range del {
				r1, r2 := d.Call.Args[0], a.Call.Args[0]
				if r1 == r2 || !types.Identical(r1.Type(), r2.Type()) || !canFollow(a, d) {
					continue
				}
				_, p1 := r1.(*ssa.Parameter)
				_, p2 := r2.(*ssa.Parameter)
				if !p1 || !p2 {
					continue
				}
				n++
				key := fmt.Sprintf("%s|insert-then-remove#%d", world.FuncName(fn), n)
				if guarded(fn, r1, r2, a) {
					r.OK(key, w.InstrPos(d), "the two objects are compared first")
				} else {
					r.Fail(key, w.InstrPos(d), fmt.Sprintf("%s inserts into %s and afterwards removes from %s; both are parameters of the same type and the caller passes the same object for both when the client names one key twice (SMOVE s s m): the member is then added (no effect) and removed, i.e. lost, although moving a member onto its own set must leave it in place. Removing first and inserting afterwards is alias-safe", world.FuncName(fn), exprString(r2), exprString(r1)))
				}
			}
		}
		// the alias-safe order is recorded as an instance so that the rule is not vacuous
		for _, d := range del {
			for _, a := range ins {
				r1, r2 := d.Call.Args[0], a.Call.Args[0]
				_, p1 := r1.(*ssa.Parameter)
				_, p2 := r2.(*ssa.Parameter)
				if r1 != r2 && p1 && p2 && types.Identical(r1.Type(), r2.Type()) && canFollow(d, a) && !canFollow(a, d) {
					n++
					r.OK(fmt.Sprintf("%s|remove-then-insert#%d", world.FuncName(fn), n), w.InstrPos(a), "removal from one object precedes the insertion into the other: safe when both are the same object")
				}
			}
		}
	}
}
