package rules

import (
	"fmt"
	"go/token"
	"go/types"
	"reflect"
	"sort"
	"strings"

	"golang.org/x/tools/go/ssa"

	"svcheck/internal/report"
	"svcheck/internal/world"
)

func init() {
	register("SK", 2, "key source: every key-extraction call in the authorization function feeds the channel / read-key / write-key checks (no dead store of a sub-command's extraction result)", ruleSK)
	register("Q", 3, "quantifier shape: each resource collection (channels, read keys, write keys) can cause a denial per element — an error return controlled by a test of one element inside a loop over the collection (directly or through an accumulator) — and no denial is conditioned on 'no element satisfies' (error on the false edge of ContainsFunc over the whole collection)", ruleQ)
	register("FE", 10, "enforcement coverage: every rule field of acl.User and Connection.Authenticated is read by the authorization function and reaches a branch condition in it", ruleFE)
	register("T4", 1, "exemptions: the command names for which the authorization function returns nil before the authentication test are within {auth, hello, ping, echo} (or are not registered commands)", ruleT4)
	register("U1", 2, "failed authentication changes nothing: every update of the connection table in AuthenticateConnection lies on a path that returns nil; every error return is preceded by no such update", ruleU1)
	register("U2", 4, "credential fields are enforced: Enabled, NoPassword and the password type/value each control the outcome of AuthenticateConnection", ruleU2)
	register("U3", 15, "persistence coverage: every field of acl.User / acl.Password is exported and carries json and yaml tags; Merge and Replace cover every non-identity field", ruleU3)
	register("UP", 2, "user records are edited in place: connections hold a pointer to their user's record, so a record in the user list is never exchanged for another object (and the list is only appended to, or shrunk together with the termination of the affected connections)", ruleUP)
	register("U4", 1, "the default user cannot be deleted: the removal in DeleteUser is unreachable for the username \"default\"", ruleU4)
	register("U5", 2, "a new connection is bound to the default user and authenticated exactly when that user needs no password", ruleU5)
}

func authzFunc(w *world.World) (*ssa.Function, error) {
	d, err := getDisp(w)
	if err != nil {
		return nil, err
	}
	if d.gate == nil {
		return nil, fmt.Errorf("the dispatcher has no authorization call")
	}
	f := d.gateFn
	if f == nil || f.Blocks == nil {
		return nil, fmt.Errorf("authorization function has no body")
	}
	return f, nil
}

func closureTree(fn *ssa.Function, out *[]*ssa.Function) {
	*out = append(*out, fn)
	for _, a := range fn.AnonFuncs {
		closureTree(a, out)
	}
}

func isKeyResType(t types.Type) bool { return world.TypeIs(t, "/internal", "KeyExtractionFuncResult") }

// keyFuncCalls: dynamic calls of a KeyExtractionFunc-typed value in fn.
func keyFuncCalls(fn *ssa.Function) []*ssa.Call {
	var out []*ssa.Call
	for _, c := range world.Calls(fn) {
		call, ok := c.(*ssa.Call)
		if !ok || call.Call.IsInvoke() || call.Call.StaticCallee() != nil {
			continue
		}
		sig, ok := call.Call.Value.Type().Underlying().(*types.Signature)
		if !ok || sig.Results().Len() != 2 || !isKeyResType(sig.Results().At(0).Type()) {
			continue
		}
		out = append(out, call)
	}
	return out
}

func ruleSK(w *world.World, r *report.RuleResult) {
	az, err := authzFunc(w)
	if err != nil {
		r.Err = err
		return
	}
	fname := world.FuncName(az)
	calls := keyFuncCalls(az)
	if len(calls) == 0 {
		r.Fail(fname+"|key-extraction", w.Pos(az.Pos()), "the authorization function never calls a key-extraction function: no key, channel or sub-command resource is ever checked")
		return
	}
	for i, c := range calls {
		key := fmt.Sprintf("%s|key-extraction-call#%d", fname, i+1)
		// result #0 -> stored into local A (or used directly); count field reads of Channels/ReadKeys/WriteKeys
		// that are dominated by this definition and not preceded by a later overwrite on the way
		reads := 0
		var res ssa.Value
		for _, ref := range *c.Referrers() {
			if ex, ok := ref.(*ssa.Extract); ok && ex.Index == 0 {
				res = ex
			}
		}
		if res == nil {
			r.Fail(key, w.InstrPos(c), "the result of this key-extraction call is discarded")
			continue
		}
		for _, ref := range *res.Referrers() {
			switch x := ref.(type) {
			case *ssa.Field:
				reads++
			case *ssa.Store:
				// reaching definition: reads of the local reachable from this store without an intervening store
				al := x.Addr
				seen := map[*ssa.BasicBlock]bool{}
				var dfs func(b *ssa.BasicBlock, from int)
				dfs = func(b *ssa.BasicBlock, from int) {
					for j := from; j < len(b.Instrs); j++ {
						switch y := b.Instrs[j].(type) {
						case *ssa.Store:
							if y.Addr == al {
								return
							}
						case *ssa.FieldAddr:
							if y.X == al {
								reads++
							}
						case *ssa.UnOp:
							if y.X == al {
								reads++
							}
						}
					}
					for _, sc := range b.Succs {
						if !seen[sc] {
							seen[sc] = true
							dfs(sc, 0)
						}
					}
				}
				blk := x.Block()
				for j, in := range blk.Instrs {
					if in == ssa.Instruction(x) {
						dfs(blk, j+1)
					}
				}
			}
		}
		if reads > 0 {
			r.OK(key, w.InstrPos(c), fmt.Sprintf("extraction result feeds %d field read(s) of Channels/ReadKeys/WriteKeys", reads))
		} else {
			r.Fail(key, w.InstrPos(c), "the result of this key-extraction call is assigned and never read before the resource checks (dead store): the command or sub-command it belongs to is authorized against another command's (empty) key set")
		}
	}
}

// resourceField: v is a read of KeyExtractionFuncResult.<name>.
func isResourceField(name string) func(ssa.Value) bool {
	return func(v ssa.Value) bool {
		switch x := v.(type) {
		case *ssa.FieldAddr:
			return world.FieldName(x) == name && isKeyResType(x.X.Type())
		case *ssa.Field:
			st, ok := x.X.Type().Underlying().(*types.Struct)
			return ok && world.CanonField(st.Field(x.Field)) == name && isKeyResType(x.X.Type())
		}
		return false
	}
}

func isErrReturnBlockDominatedBy(fn *ssa.Function, succ *ssa.BasicBlock) *ssa.Return {
	for _, ret := range world.Returns(fn) {
		rv := world.RetVals(ret)
		if len(rv) == 0 || world.IsNilConst(rv[len(rv)-1]) {
			continue
		}
		if succ.Dominates(ret.Block()) {
			return ret
		}
	}
	return nil
}

func ruleQ(w *world.World, r *report.RuleResult) {
	az, err := authzFunc(w)
	if err != nil {
		r.Err = err
		return
	}
	fname := world.FuncName(az)
	defer func() { derivParamBind = map[*ssa.Parameter][]ssa.Value{} }()
	for _, res := range []string{"Channels", "ReadKeys", "WriteKeys"} {
		isR := isResourceField(res)
		key := fname + "|" + res
		// element of R: IndexAddr / range-Next over a slice deriving from R with a non-constant index
		isElem := func(v ssa.Value) bool {
			switch x := v.(type) {
			case *ssa.IndexAddr:
				if _, isConst := x.Index.(*ssa.Const); isConst {
					return false
				}
				return derivesFrom(x.X, isR, 0)
			case *ssa.Next:
				if rg, ok := x.Iter.(*ssa.Range); ok {
					return derivesFrom(rg.X, isR, 0)
				}
			}
			return false
		}
		// helpers of the authorizer that receive the collection: analysed with their parameters bound
		// to the call-site arguments; their verdict is their result, which the authorizer must test
		type site struct {
			fn   *ssa.Function
			call *ssa.Call // nil for the authorizer itself
		}
		sites := []site{{az, nil}}
		for _, c := range world.Calls(az) {
			call, ok := c.(*ssa.Call)
			if !ok {
				continue
			}
			h := call.Call.StaticCallee()
			if h == nil || h.Blocks == nil || !world.InModule(h) || h == az || len(h.Params) != len(call.Call.Args) {
				continue
			}
			takes := false
			for _, a := range call.Call.Args {
				if _, isFn := a.Type().Underlying().(*types.Signature); !isFn && derivesFrom(a, isR, 0) {
					takes = true
				}
			}
			if !takes {
				continue
			}
			for i, p := range h.Params {
				dup := false
				for _, v := range derivParamBind[p] {
					dup = dup || v == call.Call.Args[i]
				}
				if !dup {
					derivParamBind[p] = append(derivParamBind[p], call.Call.Args[i])
				}
			}
			sites = append(sites, site{h, call})
		}
		// denyAt: the region dominated by succ produces the deny verdict of fn: in the authorizer an
		// error return; in a helper a return of a non-nil error, or an update of a value that flows
		// into the helper's result, provided the authorizer turns that result into an error return.
		resultTested := func(call *ssa.Call) *ssa.Return {
			for _, b2 := range az.Blocks {
				iff2 := world.IfOf(b2)
				if iff2 == nil || !derivesFrom(iff2.Cond, func(v ssa.Value) bool { return v == ssa.Value(call) }, 0) {
					continue
				}
				for _, s2 := range b2.Succs {
					if ret := isErrReturnBlockDominatedBy(az, s2); ret != nil {
						return ret
					}
				}
			}
			// the helper's error returned as the authorizer's own
			for _, ret := range world.Returns(az) {
				rv := world.RetVals(ret)
				if len(rv) > 0 && derivesFrom(rv[len(rv)-1], func(v ssa.Value) bool { return v == ssa.Value(call) }, 0) {
					return ret
				}
			}
			return nil
		}
		denyAt := func(st site, succ *ssa.BasicBlock, from *ssa.BasicBlock) string {
			if st.call == nil {
				if ret := isErrReturnBlockDominatedBy(az, succ); ret != nil && !succ.Dominates(from) {
					return "error return at " + w.InstrPos(ret) + " controlled by a per-element test"
				}
				return ""
			}
			outer := resultTested(st.call)
			if outer == nil {
				return ""
			}
			inRegion := func(v ssa.Value) bool {
				in, ok := v.(ssa.Instruction)
				return ok && in.Block() != nil && in.Parent() == st.fn && succ.Dominates(in.Block()) && !succ.Dominates(from)
			}
			for _, ret := range world.Returns(st.fn) {
				for _, v := range world.RetVals(ret) {
					if world.IsNilConst(v) {
						continue
					}
					if succ.Dominates(ret.Block()) && !succ.Dominates(from) || derivesFrom(v, inRegion, 0) {
						return "per-element test in helper " + world.FuncName(st.fn) + " decides its result, which controls the error return at " + w.InstrPos(outer)
					}
				}
			}
			return ""
		}
		var bad []string
		good := ""
		var bypass ssa.Instruction
		for _, st := range sites {
			fn := st.fn
			siteGood := ""
			for _, b := range fn.Blocks {
				iff := world.IfOf(b)
				if iff == nil {
					continue
				}
				cond := world.CondValue(iff)
				neg := false
				if u, ok := cond.(*ssa.UnOp); ok && u.Op.String() == "!" {
					cond, neg = u.X, true
				}
				// shape 1 (bad): deny verdict on the edge where ContainsFunc(R, p) is false
				if c, ok := cond.(*ssa.Call); ok {
					if f := c.Call.StaticCallee(); f != nil && (strings.HasPrefix(f.String(), "slices.ContainsFunc") || strings.HasPrefix(f.String(), "slices.Contains[")) && len(c.Call.Args) >= 1 {
						whole := derivesFrom(c.Call.Args[0], isR, 0) && !withStop(func(v ssa.Value) bool { _, ok := v.(*ssa.IndexAddr); return ok }, func() bool { return derivesFrom(c.Call.Args[0], isElem, 0) })
						// searching the collection for one of its own elements is not an authorization test
						if whole && strings.HasPrefix(f.String(), "slices.Contains[") && len(c.Call.Args) >= 2 && derivesFrom(c.Call.Args[1], isElem, 0) {
							whole = false
						}
						if whole {
							falseSucc := b.Succs[1]
							if neg {
								falseSucc = b.Succs[0]
							}
							if st.call == nil {
								if ret := isErrReturnBlockDominatedBy(az, falseSucc); ret != nil {
									bad = append(bad, w.InstrPos(c))
								}
							} else if denyAt(st, falseSucc, b) != "" {
								bad = append(bad, w.InstrPos(c))
							}
						}
					}
				}
				// shape 2 (good): condition derives from an element of R and controls the deny verdict directly…
				if derivesFrom(world.CondValue(iff), isElem, 0) {
					for _, s := range b.Succs {
						if g := denyAt(st, s, b); g != "" {
							siteGood = g
						}
						if st.call != nil {
							continue
						}
						// …or through an accumulator: a store to a local in a dominated block, later tested before an error return
						for _, bb := range az.Blocks {
							if !s.Dominates(bb) {
								continue
							}
							for _, in := range bb.Instrs {
								sto, ok := in.(*ssa.Store)
								if !ok {
									continue
								}
								al, ok := sto.Addr.(*ssa.Alloc)
								if !ok {
									continue
								}
								for _, b2 := range az.Blocks {
									iff2 := world.IfOf(b2)
									if iff2 == nil || !derivesFrom(iff2.Cond, func(v ssa.Value) bool { return v == ssa.Value(al) }, 0) {
										continue
									}
									for _, s2 := range b2.Succs {
										if ret := isErrReturnBlockDominatedBy(az, s2); ret != nil {
											siteGood = "error return at " + w.InstrPos(ret) + " controlled by an accumulator filled by a per-element test"
										}
									}
								}
							}
						}
					}
				}
			}
			if siteGood != "" {
				good = siteGood
				// Q2: inside the loop over the collection, every path from loading an element back to the loop
				// header passes the pattern test of that element (no iteration skips the check)
				if where := elementCheckBypass(fn, isElem); where != nil && bypass == nil {
					bypass = where
				}
			}
		}
		if good != "" && len(bad) == 0 {
			if bypass != nil {
				r.Fail(key+"|every-element-tested", w.InstrPos(bypass), fmt.Sprintf("in the loop over %s an iteration can return to the loop header without the element having been matched against the user's patterns (the check is skipped on some path, e.g. for elements already seen elsewhere): a resource named by the command escapes authorization", res))
			} else {
				r.OK(key+"|every-element-tested", w.Pos(az.Pos()), "every iteration over "+res+" matches its element against the user's patterns before the next iteration")
			}
		}
		switch {
		case len(bad) > 0:
			r.Fail(key, bad[0], fmt.Sprintf("the %s check returns its error on the FALSE edge of Contains/ContainsFunc over the whole collection (at %s): the command is denied only when NO %s is allowed, so a command naming one allowed and one forbidden resource is authorized", res, strings.Join(bad, ", "), strings.ToLower(res)))
		case good != "":
			r.OK(key, w.Pos(az.Pos()), res+": "+good)
		default:
			r.Fail(key, w.Pos(az.Pos()), fmt.Sprintf("no error return of the authorization function is controlled by a test of an individual element of %s: the resources named by the command are never checked one by one", res))
		}
	}
}

// ---- FE ----

func ruleFE(w *world.World, r *report.RuleResult) {
	az, err := authzFunc(w)
	if err != nil {
		r.Err = err
		return
	}
	var fns []*ssa.Function
	closureTree(az, &fns)
	mk := map[*ssa.Function]*ssa.MakeClosure{}
	for _, f := range fns {
		for _, b := range f.Blocks {
			for _, in := range b.Instrs {
				if m, ok := in.(*ssa.MakeClosure); ok {
					mk[m.Fn.(*ssa.Function)] = m
				}
			}
		}
	}
	var reachesIf func(v ssa.Value, seen map[ssa.Value]bool, d int) bool
	reachesIf = func(v ssa.Value, seen map[ssa.Value]bool, d int) bool {
		if seen[v] || d > 40 {
			return false
		}
		seen[v] = true
		refs := v.Referrers()
		if refs == nil {
			return false
		}
		for _, ref := range *refs {
			switch x := ref.(type) {
			case *ssa.If:
				return true
			case *ssa.Return:
				if m, ok := mk[x.Parent()]; ok {
					for _, r2 := range *m.Referrers() {
						if c, ok := r2.(*ssa.Call); ok && reachesIf(c, seen, d+1) {
							return true
						}
					}
				}
			case *ssa.Store:
				if x.Val == v || x.Addr == v {
					if reachesIf(x.Addr, seen, d+1) {
						return true
					}
					if ia, ok := x.Addr.(*ssa.IndexAddr); ok && reachesIf(ia.X, seen, d+1) {
						return true
					}
				}
			case *ssa.MakeClosure:
				cf := x.Fn.(*ssa.Function)
				for i, b := range x.Bindings {
					if b == v && i < len(cf.FreeVars) && reachesIf(cf.FreeVars[i], seen, d+1) {
						return true
					}
				}
				if reachesIf(x, seen, d+1) {
					return true
				}
			case *ssa.MapUpdate:
				if reachesIf(x.Map, seen, d+1) {
					return true
				}
			case ssa.Value:
				if reachesIf(x, seen, d+1) {
					return true
				}
			}
		}
		return false
	}
	read := map[string]bool{}
	enforced := map[string]bool{}
	for _, f := range fns {
		for _, b := range f.Blocks {
			for _, in := range b.Instrs {
				var name string
				var val ssa.Value
				switch x := in.(type) {
				case *ssa.FieldAddr:
					if n := world.NamedOf(x.X.Type()); n != nil && (n.Obj().Name() == "User" || n.Obj().Name() == "Connection") && strings.HasSuffix(n.Obj().Pkg().Path(), "/acl") {
						name, val = n.Obj().Name()+"."+world.FieldName(x), x
					}
				case *ssa.Field:
					if n, ok := x.X.Type().(*types.Named); ok && (n.Obj().Name() == "User" || n.Obj().Name() == "Connection") && strings.HasSuffix(n.Obj().Pkg().Path(), "/acl") {
						name, val = n.Obj().Name()+"."+world.CanonField(n.Underlying().(*types.Struct).Field(x.Field)), x
					}
				}
				if name == "" {
					continue
				}
				read[name] = true
				if reachesIf(val, map[ssa.Value]bool{}, 0) {
					enforced[name] = true
				}
			}
		}
	}
	p := w.Pkg("internal/modules/acl")
	if p == nil {
		r.Err = fmt.Errorf("acl package not found")
		return
	}
	userT, ok := p.Types.Scope().Lookup("User").Type().Underlying().(*types.Struct)
	if !ok {
		r.Err = fmt.Errorf("acl.User is not a struct")
		return
	}
	credential := map[string]bool{"Username": true, "Enabled": true, "NoPassword": true, "Passwords": true}
	var want []string
	for i := 0; i < userT.NumFields(); i++ {
		if !credential[world.CanonField(userT.Field(i))] {
			want = append(want, "User."+world.CanonField(userT.Field(i)))
		}
	}
	want = append(want, "Connection.Authenticated", "Connection.User")
	sort.Strings(want)
	for _, f := range want {
		key := world.FuncName(az) + "|field:" + f
		switch {
		case enforced[f]:
			r.OK(key, w.Pos(az.Pos()), f+" is read and reaches a branch condition of the authorization function")
		case read[f]:
			r.Fail(key, w.Pos(az.Pos()), f+" is read by the authorization function but never influences a branch: the rule it stores is not enforced")
		default:
			r.Fail(key, w.Pos(az.Pos()), f+" is never consulted by the authorization function: a user's setting for it has no effect on what the user may run")
		}
	}
}

// ---- T4 ----

func ruleT4(w *world.World, r *report.RuleResult) {
	az, err := authzFunc(w)
	if err != nil {
		r.Err = err
		return
	}
	cmds, err := w.Commands()
	if err != nil {
		r.Err = err
		return
	}
	registered := map[string]bool{}
	for _, c := range cmds {
		registered[c.Name] = true
	}
	allowed := map[string]bool{"auth": true, "hello": true, "ping": true, "echo": true}
	fname := world.FuncName(az)
	// the authentication test: an If whose condition derives from Connection.Authenticated
	const AUTHD world.Facts = 1
	isAuthField := func(v ssa.Value) bool {
		switch x := v.(type) {
		case *ssa.FieldAddr:
			return world.FieldName(x) == "Authenticated"
		case *ssa.Field:
			st, ok := x.X.Type().Underlying().(*types.Struct)
			return ok && world.CanonField(st.Field(x.Field)) == "Authenticated"
		}
		return false
	}
	must := world.Must(az, func(b *ssa.BasicBlock, si int) world.Facts {
		if iff := world.IfOf(b); iff != nil && derivesFrom(world.CondValue(iff), isAuthField, 0) {
			return AUTHD // either edge: the test has been evaluated
		}
		return 0
	}, nil, nil)
	nameConsts := func(b *ssa.BasicBlock) []string {
		// constants compared with the command name in the condition of b
		iff := world.IfOf(b)
		if iff == nil {
			return nil
		}
		var cs []string
		constStrings(world.CondValue(iff), 0, &cs)
		return cs
	}
	n := 0
	var offending []string
	for _, ret := range world.Returns(az) {
		rv := world.RetVals(ret)
		if len(rv) != 1 || !world.IsNilConst(rv[0]) {
			continue
		}
		if world.FactsAt(must, ret, nil, nil)&AUTHD != 0 {
			continue
		}
		n++
		// conditions controlling this early return: the Ifs of the dominating predecessors
		for _, p := range ret.Block().Preds {
			for _, s := range nameConsts(p) {
				ls := strings.ToLower(s)
				if registered[ls] && !allowed[ls] {
					offending = append(offending, ls)
				}
			}
			// RequirePass false is a legitimate early exit (the server does not require authentication)
		}
	}
	key := fname + "|early-allow"
	sort.Strings(offending)
	switch {
	case len(offending) > 0:
		r.Fail(key, w.Pos(az.Pos()), fmt.Sprintf("the authorization function returns nil before the authentication test for the registered command(s) %v: only the handshake commands auth, hello, ping and echo may be exempt", offending))
	case n == 0:
		r.OK(key, w.Pos(az.Pos()), "no early allow before the authentication test")
	default:
		r.OK(key, w.Pos(az.Pos()), fmt.Sprintf("%d early-allow return(s) before the authentication test; the command names they test are within {auth, hello, ping, echo} or are not registered commands", n))
	}
}

// ---- U rules ----

func aclFunc(w *world.World, name string) *ssa.Function {
	return w.Func("internal/modules/acl.(*ACL)." + name)
}

func isConnTableUpdate(in ssa.Instruction) bool {
	mu, ok := in.(*ssa.MapUpdate)
	if !ok {
		return false
	}
	u, ok := mu.Map.(*ssa.UnOp)
	if !ok {
		return false
	}
	fa, ok := u.X.(*ssa.FieldAddr)
	return ok && world.FieldName(fa) == "Connections"
}

func ruleU1(w *world.World, r *report.RuleResult) {
	fn := aclFunc(w, "AuthenticateConnection")
	if fn == nil {
		r.Err = fmt.Errorf("AuthenticateConnection not found")
		return
	}
	fname := world.FuncName(fn)
	const UPD world.Facts = 1
	gen := func(in ssa.Instruction) world.Facts {
		if isConnTableUpdate(in) {
			return UPD
		}
		return 0
	}
	may := world.May(fn, nil, gen, nil)
	n := 0
	for _, ret := range world.Returns(fn) {
		rv := world.RetVals(ret)
		if len(rv) != 1 {
			continue
		}
		f := world.FactsAt(may, ret, gen, nil)
		if world.IsNilConst(rv[0]) {
			continue
		}
		n++
		key := fmt.Sprintf("%s|error-return#%d", fname, n)
		if f&UPD == 0 {
			r.OK(key, w.InstrPos(ret), "no update of the connection table can precede this failure return")
		} else {
			r.Fail(key, w.InstrPos(ret), "a failed authentication attempt can reach this error return after the connection table was already updated: the failed AUTH changes the connection's identity / authenticated state")
		}
	}
	// every update is followed only by nil returns
	m := 0
	for _, b := range fn.Blocks {
		for i, in := range b.Instrs {
			if !isConnTableUpdate(in) {
				continue
			}
			m++
			key := fmt.Sprintf("%s|update#%d", fname, m)
			bad := false
			seen := map[*ssa.BasicBlock]bool{}
			var dfs func(bb *ssa.BasicBlock, from int)
			dfs = func(bb *ssa.BasicBlock, from int) {
				for j := from; j < len(bb.Instrs); j++ {
					if ret, ok := bb.Instrs[j].(*ssa.Return); ok {
						rv := world.RetVals(ret)
						if len(rv) == 1 && !world.IsNilConst(rv[0]) {
							bad = true
						}
						return
					}
				}
				for _, s := range bb.Succs {
					if !seen[s] {
						seen[s] = true
						dfs(s, 0)
					}
				}
			}
			dfs(b, i+1)
			// the stored connection must be Authenticated: true with the matched user
			if bad {
				r.Fail(key, w.InstrPos(in), "the connection table is updated on a path that can still end in an authentication error")
			} else {
				r.OK(key, w.InstrPos(in), "the update is followed only by the success return")
			}
		}
	}
	if m == 0 {
		r.Fail(fname+"|update", w.Pos(fn.Pos()), "AuthenticateConnection never records a successful authentication in the connection table")
	}
	// every success (update of the connection table) lies on the edge where the user is enabled
	const ENABLED world.Facts = 2
	isEnabledLoad := func(v ssa.Value) bool {
		u, ok := v.(*ssa.UnOp)
		if !ok {
			return false
		}
		fa, ok := u.X.(*ssa.FieldAddr)
		return ok && world.FieldName(fa) == "Enabled"
	}
	mustE := world.Must(fn, func(b *ssa.BasicBlock, si int) world.Facts {
		iff := world.IfOf(b)
		if iff == nil {
			return 0
		}
		c := world.CondValue(iff)
		neg := false
		if u, ok := c.(*ssa.UnOp); ok && u.Op.String() == "!" {
			c, neg = u.X, true
		}
		if isEnabledLoad(c) && (si == 0) != neg {
			return ENABLED
		}
		return 0
	}, nil, nil)
	k := 0
	for _, b := range fn.Blocks {
		for _, in := range b.Instrs {
			if !isConnTableUpdate(in) {
				continue
			}
			k++
			key := fmt.Sprintf("%s|update-only-if-enabled#%d", fname, k)
			if world.FactsAt(mustE, in, nil, nil)&ENABLED != 0 {
				r.OK(key, w.InstrPos(in), "the connection is authenticated only on the edge where user.Enabled is true")
			} else {
				r.Fail(key, w.InstrPos(in), "a connection can be marked authenticated on a path that has not established that the user is enabled: a disabled user (for example one that is also password-less) can still authenticate and act")
			}
		}
	}
}

func ruleU2(w *world.World, r *report.RuleResult) {
	fn := aclFunc(w, "AuthenticateConnection")
	if fn == nil {
		r.Err = fmt.Errorf("AuthenticateConnection not found")
		return
	}
	var fns []*ssa.Function
	closureTree(fn, &fns)
	controls := map[string]bool{}
	for _, f := range fns {
		for _, b := range f.Blocks {
			iff := world.IfOf(b)
			if iff == nil {
				continue
			}
			for _, field := range []string{"Enabled", "NoPassword", "PasswordType", "PasswordValue", "Username"} {
				fld := field
				if derivesFrom(world.CondValue(iff), func(v ssa.Value) bool {
					switch x := v.(type) {
					case *ssa.FieldAddr:
						return world.FieldName(x) == fld
					case *ssa.Field:
						st, ok := x.X.Type().Underlying().(*types.Struct)
						return ok && world.CanonField(st.Field(x.Field)) == fld
					}
					return false
				}, 0) {
					controls[field] = true
				}
			}
		}
	}
	for _, field := range []string{"Enabled", "NoPassword", "PasswordType", "PasswordValue", "Username"} {
		key := world.FuncName(fn) + "|field:" + field
		if controls[field] {
			r.OK(key, w.Pos(fn.Pos()), field+" controls a branch of AuthenticateConnection")
		} else {
			r.Fail(key, w.Pos(fn.Pos()), fmt.Sprintf("AuthenticateConnection never branches on %s: authentication succeeds or fails irrespective of that credential field (e.g. a disabled user, or any password, is accepted)", field))
		}
	}
}

func ruleU3(w *world.World, r *report.RuleResult) {
	p := w.Pkg("internal/modules/acl")
	if p == nil {
		r.Err = fmt.Errorf("acl package not found")
		return
	}
	for _, tn := range []string{"User", "Password"} {
		obj := p.Types.Scope().Lookup(tn)
		if obj == nil {
			r.Und("type:"+tn, "-", "type acl."+tn+" not found")
			continue
		}
		st, ok := obj.Type().Underlying().(*types.Struct)
		if !ok {
			continue
		}
		for i := 0; i < st.NumFields(); i++ {
			f := st.Field(i)
			key := fmt.Sprintf("acl.%s.%s|tags", tn, f.Name())
			tag := reflect.StructTag(st.Tag(i))
			j, jok := tag.Lookup("json")
			y, yok := tag.Lookup("yaml")
			switch {
			case !f.Exported():
				r.Fail(key, w.Pos(f.Pos()), "field is not exported: ACL SAVE does not write it and ACL LOAD / restart silently resets it")
			case !jok || !yok || j == "-" || y == "-":
				r.Fail(key, w.Pos(f.Pos()), "field lacks a json or yaml tag (or is excluded with \"-\"): it is not part of the saved ACL file in one of the two formats")
			case strings.Split(j, ",")[0] != strings.Split(y, ",")[0]:
				r.Fail(key, w.Pos(f.Pos()), fmt.Sprintf("json name %q and yaml name %q differ: a file saved in one format does not load in the other", j, y))
			default:
				r.OK(key, w.Pos(f.Pos()), "exported with json and yaml tags")
			}
		}
		if tn != "User" {
			continue
		}
		for _, m := range []string{"Merge", "Replace"} {
			fn := w.Func("internal/modules/acl.(*User)." + m)
			if fn == nil || len(fn.Params) < 2 {
				// the copier may legitimately be written differently; whether LOAD keeps records in
				// place is decided by UP, the field coverage of this copier only when it exists
				r.Skip("User."+m, "-", "method acl.User."+m+" not present: field coverage of the "+m+" copier not decided")
				continue
			}
			src := fn.Params[1]
			readF, writeF := map[string]bool{}, map[string]bool{}
			for _, b := range fn.Blocks {
				for _, in := range b.Instrs {
					switch x := in.(type) {
					case *ssa.FieldAddr:
						if x.X == ssa.Value(src) {
							readF[world.FieldName(x)] = true
						}
					case *ssa.Store:
						if fa, ok := x.Addr.(*ssa.FieldAddr); ok && fa.X == ssa.Value(fn.Params[0]) {
							writeF[world.FieldName(fa)] = true
						}
					}
				}
			}
			for i := 0; i < st.NumFields(); i++ {
				f := world.CanonField(st.Field(i))
				if f == "Username" {
					continue
				}
				key := fmt.Sprintf("acl.User.%s|%s", m, f)
				if readF[f] && writeF[f] {
					r.OK(key, w.Pos(fn.Pos()), m+" reads the field from the loaded user and assigns it")
				} else {
					r.Fail(key, w.Pos(fn.Pos()), fmt.Sprintf("User.%s does not carry field %s over from the loaded user (read: %v, assigned: %v): ACL LOAD %s leaves the in-memory rule unchanged", m, f, readF[f], writeF[f], strings.ToUpper(m)))
				}
			}
		}
	}
}

func ruleU4(w *world.World, r *report.RuleResult) {
	fn := aclFunc(w, "DeleteUser")
	if fn == nil {
		r.Err = fmt.Errorf("DeleteUser not found")
		return
	}
	fname := world.FuncName(fn)
	const NOTDEFAULT world.Facts = 1
	must := world.Must(fn, func(b *ssa.BasicBlock, si int) world.Facts {
		iff := world.IfOf(b)
		if iff == nil {
			return 0
		}
		bo, ok := world.CondValue(iff).(*ssa.BinOp)
		if !ok {
			return 0
		}
		for _, v := range []ssa.Value{bo.X, bo.Y} {
			if s, ok := world.ConstString(v); ok && s == "default" {
				// edge on which username != "default"
				if (bo.Op.String() == "==" && si == 1) || (bo.Op.String() == "!=" && si == 0) {
					return NOTDEFAULT
				}
			}
		}
		return 0
	}, nil, nil)
	n := 0
	for _, b := range fn.Blocks {
		for _, in := range b.Instrs {
			st, ok := in.(*ssa.Store)
			if !ok {
				continue
			}
			fa, ok := st.Addr.(*ssa.FieldAddr)
			if !ok || world.FieldName(fa) != "Users" {
				continue
			}
			n++
			key := fname + "|users-removal"
			if world.FactsAt(must, in, nil, nil)&NOTDEFAULT != 0 {
				r.OK(key, w.InstrPos(in), "the user list is modified only on the edge where the username is not \"default\"")
			} else {
				r.Fail(key, w.InstrPos(in), "DeleteUser can remove a user without having established that the name is not \"default\": the default user can be deleted, after which new connections cannot be registered")
			}
		}
	}
	if n == 0 {
		r.Fail(fname+"|users-removal", w.Pos(fn.Pos()), "DeleteUser never removes a user from the list: ACL DELUSER has no effect and the deleted user can still act")
	}
}

func ruleU5(w *world.World, r *report.RuleResult) {
	fn := aclFunc(w, "RegisterConnection")
	if fn == nil {
		r.Err = fmt.Errorf("RegisterConnection not found")
		return
	}
	fname := world.FuncName(fn)
	var upd *ssa.MapUpdate
	for _, b := range fn.Blocks {
		for _, in := range b.Instrs {
			if isConnTableUpdate(in) {
				upd = in.(*ssa.MapUpdate)
			}
		}
	}
	if upd == nil {
		r.Fail(fname+"|register", w.Pos(fn.Pos()), "RegisterConnection does not enter the connection into the connection table")
		return
	}
	// the stored Connection{Authenticated: X, User: U}: U is the user found by Username == "default"; X derives from U.NoPassword
	var authVal, userVal ssa.Value
	if u, ok := upd.Value.(*ssa.UnOp); ok {
		if al, ok := u.X.(*ssa.Alloc); ok {
			for _, ref := range *al.Referrers() {
				if fa, ok := ref.(*ssa.FieldAddr); ok {
					for _, r2 := range *fa.Referrers() {
						if st, ok := r2.(*ssa.Store); ok {
							switch world.FieldName(fa) {
							case "Authenticated":
								authVal = st.Val
							case "User":
								userVal = st.Val
							}
						}
					}
				}
			}
		}
	}
	usesDefault := false
	var fns []*ssa.Function
	closureTree(fn, &fns)
	for _, f := range fns {
		for _, b := range f.Blocks {
			for _, in := range b.Instrs {
				if bo, ok := in.(*ssa.BinOp); ok {
					for _, v := range []ssa.Value{bo.X, bo.Y} {
						if s, ok := world.ConstString(v); ok && s == "default" {
							usesDefault = true
						}
					}
				}
			}
		}
	}
	key := fname + "|bound-to-default"
	if userVal != nil && usesDefault {
		r.OK(key, w.InstrPos(upd), "the new connection is bound to the user selected by Username == \"default\"")
	} else {
		r.Fail(key, w.InstrPos(upd), "a new connection is not bound to the default user")
	}
	key = fname + "|authenticated-iff-nopassword"
	isNoPass := func(v ssa.Value) bool {
		fa, ok := v.(*ssa.FieldAddr)
		return ok && world.FieldName(fa) == "NoPassword"
	}
	neg := false
	if u, ok := authVal.(*ssa.UnOp); ok && u.Op.String() == "!" {
		neg = true
	}
	if authVal != nil && derivesFrom(authVal, isNoPass, 0) && !neg {
		r.OK(key, w.InstrPos(upd), "Authenticated is initialised from the default user's NoPassword")
	} else {
		r.Fail(key, w.InstrPos(upd), "a new connection's Authenticated flag is not the default user's NoPassword: connections start authenticated although a password is required (or the reverse)")
	}
}

// elementCheckBypass: within the loop that loads elements accepted by isElem, is there a path from
// an element load to the loop's back edge that passes no pattern test of an element (a call whose
// operands derive from the element: ContainsFunc with a closure capturing it, Match(elem), ...)?
// Returns the last instruction of the offending back-edge predecessor, or nil.
// isUserField: an access to a field of the ACL user record.
func isUserField(v ssa.Value) bool {
	var t types.Type
	switch x := v.(type) {
	case *ssa.FieldAddr:
		t = x.X.Type()
	case *ssa.Field:
		t = x.X.Type()
	default:
		return false
	}
	return world.TypeIs(t, "/acl", "User")
}

func elementCheckBypass(fn *ssa.Function, isElem func(ssa.Value) bool) ssa.Instruction {
	const TESTED world.Facts = 1
	// element loads
	var loads []ssa.Instruction
	for _, b := range fn.Blocks {
		for _, in := range b.Instrs {
			if v, ok := in.(ssa.Value); ok && isElem(v) {
				loads = append(loads, in)
			}
		}
	}
	if len(loads) == 0 {
		return nil
	}
	isTest := func(in ssa.Instruction) bool {
		c, ok := in.(*ssa.Call)
		if !ok {
			return false
		}
		if _, isBuiltin := c.Call.Value.(*ssa.Builtin); isBuiltin {
			return false
		}
		f := c.Call.StaticCallee()
		name := ""
		if f != nil {
			name = f.String()
		} else if c.Call.IsInvoke() {
			name = c.Call.Method.Name()
		}
		if !(strings.HasPrefix(name, "slices.ContainsFunc") || strings.HasPrefix(name, "slices.Contains[") || name == "Match" || strings.HasPrefix(name, "slices.IndexFunc")) {
			return false
		}
		// a search counts as the authorization test only when the collection searched is one of the
		// user's pattern lists (a membership test against some other list, e.g. "already seen", is not)
		if strings.HasPrefix(name, "slices.") {
			if len(c.Call.Args) == 0 || !derivesFrom(c.Call.Args[0], isUserField, 0) {
				return false
			}
		}
		for _, a := range c.Call.Args {
			if derivesFrom(a, isElem, 0) {
				return true
			}
		}
		return false
	}
	gen := func(in ssa.Instruction) world.Facts {
		if isTest(in) {
			return TESTED
		}
		return 0
	}
	kill := func(in ssa.Instruction) world.Facts {
		for _, l := range loads {
			if in == l {
				return TESTED
			}
		}
		return 0
	}
	must := world.Must(fn, nil, gen, kill)
	for _, l := range loads {
		// loop header: the block that dominates the load's block and has a back edge from a block it dominates
		body := l.Block()
		for _, h := range fn.Blocks {
			if !h.Dominates(body) {
				continue
			}
			for _, p := range h.Preds {
				if !h.Dominates(p) || !body.Dominates(p) && p != body {
					continue
				}
				// facts at the end of p
				f := must[p]
				for _, in := range p.Instrs {
					f &^= kill(in)
					f |= gen(in)
				}
				if f&TESTED == 0 && len(p.Instrs) > 0 {
					return p.Instrs[len(p.Instrs)-1]
				}
			}
		}
	}
	return nil
}

// ---- UP ----

// ruleUP: every authenticated connection keeps a *User pointer; authorization reads the rules through
// it. The design therefore relies on user records being modified in place. Replacing an element of
// ACL.Users (or the whole list) by other objects detaches the open connections from the list: they
// keep the old rules, and later SETUSER/DELUSER/LOAD no longer reach them. Such a replacement is
// accepted only in a function that also walks ACL.Connections and re-binds or terminates them.
func ruleUP(w *world.World, r *report.RuleResult) {
	isUsersAddr := func(v ssa.Value) bool {
		fa, ok := v.(*ssa.FieldAddr)
		return ok && world.FieldName(fa) == "Users" && world.TypeIs(fa.X.Type(), "internal/modules/acl", "ACL")
	}
	isUsersLoad := func(v ssa.Value) bool {
		u, ok := v.(*ssa.UnOp)
		return ok && u.Op == token.MUL && isUsersAddr(u.X)
	}
	handlesConnections := func(fn *ssa.Function) bool {
		walks, acts := false, false
		for _, b := range fn.Blocks {
			for _, in := range b.Instrs {
				switch x := in.(type) {
				case *ssa.Range:
					if u, ok := x.X.(*ssa.UnOp); ok {
						if fa, ok := u.X.(*ssa.FieldAddr); ok && world.FieldName(fa) == "Connections" {
							walks = true
						}
					}
				case *ssa.MapUpdate:
					if u, ok := x.Map.(*ssa.UnOp); ok {
						if fa, ok := u.X.(*ssa.FieldAddr); ok && world.FieldName(fa) == "Connections" {
							acts = true
						}
					}
				case ssa.CallInstruction:
					if x.Common().IsInvoke() {
						switch x.Common().Method.Name() {
						case "SetReadDeadline", "SetDeadline", "Close":
							acts = true
						}
					}
				}
			}
		}
		return walks && acts
	}
	n := 0
	for _, fn := range w.FuncsIn("internal/modules/acl") {
		if strings.Contains(w.Pos(fn.Pos()), "_test.go") {
			continue
		}
		top := world.Outermost(fn)
		if top.Signature.Recv() == nil && strings.HasPrefix(top.Name(), "New") {
			continue // constructor: no connection exists yet
		}
		name := world.FuncName(fn)
		k := 0
		for _, b := range fn.Blocks {
			for _, in := range b.Instrs {
				st, ok := in.(*ssa.Store)
				if !ok {
					continue
				}
				// (1) element overwrite: acl.Users[i] = x
				if ia, ok := st.Addr.(*ssa.IndexAddr); ok && isUsersLoad(ia.X) {
					n++
					k++
					key := fmt.Sprintf("%s|user-record-replaced#%d", name, k)
					if handlesConnections(top) {
						r.OK(key, w.InstrPos(in), "a user record is exchanged in a function that also walks the connection table and re-binds / terminates the connections")
					} else {
						r.Fail(key, w.InstrPos(in), name+" puts another *User object into a slot of the user list instead of editing the record in place: every connection that authenticated before keeps pointing at the old object, so it is still authorized by the old rules, and later ACL SETUSER / DELUSER / LOAD changes to that user never reach it")
					}
					continue
				}
				// (2) the list itself is assigned
				if !isUsersAddr(st.Addr) {
					continue
				}
				n++
				k++
				key := fmt.Sprintf("%s|user-list-assigned#%d", name, k)
				v := world.Unwrap(st.Val)
				kind := ""
				if c, ok := v.(*ssa.Call); ok {
					if bi, ok := c.Call.Value.(*ssa.Builtin); ok && bi.Name() == "append" && len(c.Call.Args) > 0 && isUsersLoad(c.Call.Args[0]) {
						kind = "append"
					} else if f := c.Call.StaticCallee(); f != nil && strings.HasPrefix(f.String(), "slices.Delete") && len(c.Call.Args) > 0 && isUsersLoad(c.Call.Args[0]) {
						kind = "delete"
					}
				}
				switch {
				case kind == "append":
					r.OK(key, w.InstrPos(in), "the user list only grows here (append to the list itself): existing records keep their identity")
				case kind == "delete" && handlesConnections(top):
					r.OK(key, w.InstrPos(in), "records are removed together with the termination of the connections bound to them")
				case handlesConnections(top):
					r.OK(key, w.InstrPos(in), "the list is rebuilt in a function that also re-binds / terminates the connections")
				default:
					r.Fail(key, w.InstrPos(in), name+" assigns the user list from something other than append(list, ...) without re-binding or terminating the open connections: connections keep pointers to records that are no longer in the list and are authorized by rules that later ACL commands cannot change")
				}
			}
		}
	}
	if n == 0 {
		r.Fail("UP|anchor", "", "no assignment to ACL.Users found in the acl package: the anchor of the rule is lost")
	}
}

// ---- GL ----

func init() {
	register("GL", 2, "compiled patterns follow the user table: AuthorizeConnection matches keys and channels against ACL.GlobPatterns, which CompileGlobs fills from the users' pattern lists; every function of the acl package that changes the user list or a user's rules reports success only after CompileGlobs ran (otherwise a pattern brought in by that change has no compiled form and the authorizer cannot apply it)", ruleGL)
}

func ruleGL(w *world.World, r *report.RuleResult) {
	isUsersAddr := func(v ssa.Value) bool {
		fa, ok := v.(*ssa.FieldAddr)
		return ok && world.FieldName(fa) == "Users" && world.TypeIs(fa.X.Type(), "internal/modules/acl", "ACL")
	}
	n := 0
	for _, fn := range w.FuncsIn("internal/modules/acl") {
		if strings.Contains(w.Pos(fn.Pos()), "_test.go") || fn.Parent() != nil {
			continue
		}
		const DIRTY world.Facts = 1
		mutates := false
		gen := func(in ssa.Instruction) world.Facts {
			switch x := in.(type) {
			case *ssa.Store:
				if isUsersAddr(x.Addr) {
					return DIRTY
				}
			case ssa.CallInstruction:
				if f := x.Common().StaticCallee(); f != nil && f.Signature.Recv() != nil && world.TypeIs(f.Signature.Recv().Type(), "internal/modules/acl", "User") {
					switch world.BaseName(f) {
					case "Merge", "Replace", "UpdateUser":
						return DIRTY
					}
				}
			}
			return 0
		}
		kill := func(in ssa.Instruction) world.Facts {
			if c, ok := in.(ssa.CallInstruction); ok {
				if _, isDefer := in.(*ssa.Defer); isDefer {
					return 0
				}
				if f := c.Common().StaticCallee(); f != nil && world.BaseName(f) == "CompileGlobs" {
					return DIRTY
				}
			}
			return 0
		}
		for _, b := range fn.Blocks {
			for _, in := range b.Instrs {
				if gen(in) != 0 {
					mutates = true
				}
			}
		}
		if !mutates || world.BaseName(fn) == "CompileGlobs" {
			continue
		}
		// deletions need no compilation (stale compiled patterns are harmless); a function that only
		// removes users is still required to be clean only if it also adds/edits
		may := world.May(fn, nil, gen, kill)
		name := world.FuncName(fn)
		k := 0
		for _, ret := range world.Returns(fn) {
			rv := world.RetVals(ret)
			if len(rv) > 0 && world.IsErrorType(rv[len(rv)-1].Type()) && !world.IsNilConst(rv[len(rv)-1]) {
				continue // failure return
			}
			if world.FactsAt(may, ret, gen, kill)&DIRTY == 0 {
				continue
			}
			if onlyRemoves(fn) {
				continue
			}
			k++
			n++
			r.Fail(fmt.Sprintf("%s|compiled-after-change#%d", name, k), w.InstrPos(ret), fmt.Sprintf("%s changes the user list or a user's rules and can report success without CompileGlobs having run afterwards: a key or channel pattern introduced by the change has no compiled form, so AuthorizeConnection cannot match it - allowed resources are refused (the lookup of the missing pattern fails) and, if that lookup is ever made tolerant, exclusions silently stop applying", name))
		}
		if k == 0 {
			n++
			r.OK(name+"|compiled-after-change", w.Pos(fn.Pos()), "every success return after a change of the user table is preceded by CompileGlobs")
		}
	}
	if n == 0 {
		r.Fail("GL|anchor", "", "no function of the acl package changes the user table: the anchor of the rule is lost")
	}
}

// onlyRemoves: every assignment to ACL.Users in fn shrinks the list (slices.Delete*).
func onlyRemoves(fn *ssa.Function) bool {
	any := false
	for _, b := range fn.Blocks {
		for _, in := range b.Instrs {
			st, ok := in.(*ssa.Store)
			if !ok {
				continue
			}
			fa, ok := st.Addr.(*ssa.FieldAddr)
			if !ok || world.FieldName(fa) != "Users" {
				continue
			}
			any = true
			c, ok := world.Unwrap(st.Val).(*ssa.Call)
			if !ok {
				return false
			}
			f := c.Call.StaticCallee()
			if f == nil || !strings.HasPrefix(f.String(), "slices.Delete") {
				return false
			}
		}
	}
	if !any {
		return false
	}
	for _, c := range world.Calls(fn) {
		if f := c.Common().StaticCallee(); f != nil && f.Signature.Recv() != nil {
			switch world.BaseName(f) {
			case "Merge", "Replace", "UpdateUser":
				return false
			}
		}
	}
	return true
}
