package rules

import (
	"fmt"
	"go/token"
	"go/types"
	"strings"

	"golang.org/x/tools/go/ssa"

	"svcheck/internal/report"
	"svcheck/internal/world"
)

func init() {
	register("RI", 4, "representation invariant of maps whose values carry a presence flag: membership tests read the flag (`m[k].Exists`) while enumeration and cardinality walk the raw map, so every value stored into such a map has the flag set (a constant true, or the entry was tested present on the path) - otherwise the entry is counted and listed although every lookup says it is absent", ruleRI)
}

// ruleRI: for every map-typed struct field whose element type is a struct with a bool field named
// Exists/exists/Present, each MapUpdate on that field stores a value whose flag is the constant true,
// or is dominated by the true edge of a test of that flag on the value being stored back.
func ruleRI(w *world.World, r *report.RuleResult) {
	flagIdx := func(t types.Type) (int, string) {
		st, ok := t.Underlying().(*types.Struct)
		if !ok {
			return -1, ""
		}
		for i := 0; i < st.NumFields(); i++ {
			f := st.Field(i)
			if b, ok := f.Type().Underlying().(*types.Basic); ok && b.Kind() == types.Bool {
				switch strings.ToLower(world.CanonField(f)) {
				case "exists", "present":
					return i, f.Name()
				}
			}
		}
		return -1, ""
	}
	n := 0
	for _, fn := range w.ModFns {
		if strings.Contains(w.Pos(fn.Pos()), "_test.go") {
			continue
		}
		k := 0
		for _, b := range fn.Blocks {
			for _, in := range b.Instrs {
				mu, ok := in.(*ssa.MapUpdate)
				if !ok {
					continue
				}
				mt, ok := mu.Map.Type().Underlying().(*types.Map)
				if !ok {
					continue
				}
				idx, fname := flagIdx(mt.Elem())
				if idx < 0 {
					continue
				}
				// only maps that are struct fields (the representation of a collection type)
				ld, ok := mu.Map.(*ssa.UnOp)
				if !ok {
					continue
				}
				if _, ok := ld.X.(*ssa.FieldAddr); !ok {
					continue
				}
				n++
				k++
				key := fmt.Sprintf("%s|stored-entry-is-present#%d", world.FuncName(fn), k)
				pos := w.InstrPos(in)
				if riFlagTrue(mu.Value, idx) {
					r.OK(key, pos, "the stored value's "+fname+" flag is the constant true")
					continue
				}
				if riDominatedByFlagTest(mu, idx) {
					r.OK(key, pos, "the value is written back only on the path where its "+fname+" flag was tested true")
					continue
				}
				r.Fail(key, pos, fmt.Sprintf("%s stores into %s a value whose %s flag is not known to be true on this path (for a key that is not in the map the value read back is the zero value, flag false): the entry is then counted and enumerated by the functions that walk the map (cardinality, ranges, pops) although every membership test reports it absent", world.FuncName(fn), exprString(ld.X), fname))
			}
		}
	}
	if n == 0 {
		r.Fail("RI|anchor", "", "no map of flagged entries is written anywhere in the module: the anchor of the rule is lost")
	}
}

// riFlagTrue: v is a struct value built in a local whose flag field is assigned the constant true
// (and nothing else).
func riFlagTrue(v ssa.Value, idx int) bool {
	u, ok := v.(*ssa.UnOp)
	if !ok || u.Op != token.MUL {
		return false
	}
	al, ok := u.X.(*ssa.Alloc)
	if !ok {
		return false
	}
	set, bad := false, false
	for _, ref := range *al.Referrers() {
		switch x := ref.(type) {
		case *ssa.FieldAddr:
			if x.Field != idx {
				continue
			}
			for _, r2 := range *x.Referrers() {
				if st, ok := r2.(*ssa.Store); ok && st.Addr == ssa.Value(x) {
					if b, isC := world.ConstBool(st.Val); isC && b {
						set = true
					} else {
						bad = true
					}
				}
			}
		case *ssa.Store:
			if x.Addr == ssa.Value(al) {
				bad = true // whole-struct copy from elsewhere: the flag comes with it
			}
		}
	}
	return set && !bad
}

// riDominatedByFlagTest: the update is dominated by the true edge of `x.Exists` where x is the local
// being stored back or an entry read from the same map.
func riDominatedByFlagTest(mu *ssa.MapUpdate, idx int) bool {
	isFlagOf := func(c ssa.Value) bool {
		switch x := c.(type) {
		case *ssa.Field:
			return x.Field == idx
		case *ssa.UnOp:
			if fa, ok := x.X.(*ssa.FieldAddr); ok && x.Op == token.MUL {
				return fa.Field == idx
			}
		}
		return false
	}
	b := mu.Block()
	for d := b; d != nil; d = d.Idom() {
		iff := world.IfOf(d)
		if iff == nil || d == b || len(d.Succs) != 2 {
			continue
		}
		c, neg := iff.Cond, false
		if u, ok := c.(*ssa.UnOp); ok && u.Op == token.NOT {
			c, neg = u.X, true
		}
		if !isFlagOf(c) {
			continue
		}
		t := d.Succs[0]
		if neg {
			t = d.Succs[1]
		}
		if len(t.Preds) == 1 && (t == b || t.Dominates(b)) {
			return true
		}
	}
	return false
}

var _ = report.Discharged
