package rules

import (
	"fmt"
	"go/token"
	"go/types"
	"strings"

	"golang.org/x/tools/go/ssa"

	"svcheck/internal/report"
	"svcheck/internal/world"
)

func init() {
	register("CM", 2, "the decoded command is not written to before it is executed: the key lists a key-extraction function returns are sub-slices of the command, so in the dispatcher and in the acl package no value that aliases the command (the command itself, its sub-slices, the ReadKeys/WriteKeys/Channels of an extraction result) is the first operand of append (which writes into spare capacity) or the target of an element store - otherwise the handler runs other tokens than the ones that were sent and authorised", ruleCM)
}

func ruleCM(w *world.World, r *report.RuleResult) {
	disp, _, err := w.Dispatcher()
	if err != nil {
		r.Err = err
		return
	}
	isStrSlice := func(t types.Type) bool {
		s, ok := t.Underlying().(*types.Slice)
		if !ok {
			return false
		}
		b, ok := s.Elem().Underlying().(*types.Basic)
		return ok && b.Kind() == types.String
	}
	var fns []*ssa.Function
	fns = append(fns, disp)
	for _, fn := range w.FuncsIn("internal/modules/acl") {
		if !strings.Contains(w.Pos(fn.Pos()), "_test.go") {
			fns = append(fns, fn)
		}
	}
	for _, fn := range fns {
		if fn.Blocks == nil {
			continue
		}
		// values that alias the command
		alias := map[ssa.Value]bool{}
		for _, p := range fn.Params {
			if isStrSlice(p.Type()) && (fn == disp || strings.EqualFold(p.Name(), "cmd") || strings.EqualFold(p.Name(), "command")) {
				alias[p] = true
			}
		}
		isResultField := func(v ssa.Value) bool {
			switch x := v.(type) {
			case *ssa.Field:
				return world.TypeIs(x.X.Type(), "/internal", "KeyExtractionFuncResult") && isStrSlice(x.Type())
			case *ssa.UnOp:
				if fa, ok := x.X.(*ssa.FieldAddr); ok && x.Op == token.MUL {
					return world.TypeIs(fa.X.Type(), "/internal", "KeyExtractionFuncResult") && isStrSlice(x.Type())
				}
			}
			return false
		}
		if fn == disp {
			// the decoded command: result of internal.Decode
			for _, c := range world.Calls(fn) {
				if f := c.Common().StaticCallee(); f != nil && world.BaseName(f) == "Decode" {
					if v := c.Value(); v != nil && v.Referrers() != nil {
						for _, ref := range *v.Referrers() {
							if ex, ok := ref.(*ssa.Extract); ok && isStrSlice(ex.Type()) {
								alias[ex] = true
							}
						}
					}
				}
			}
		}
		changed := true
		for changed {
			changed = false
			for _, b := range fn.Blocks {
				for _, in := range b.Instrs {
					v, ok := in.(ssa.Value)
					if !ok || alias[v] || !isStrSlice(v.Type()) {
						continue
					}
					add := false
					switch x := v.(type) {
					case *ssa.Slice:
						add = alias[x.X]
					case *ssa.Phi:
						for _, e := range x.Edges {
							if alias[e] {
								add = true
							}
						}
					case *ssa.ChangeType:
						add = alias[x.X]
					default:
						add = isResultField(v)
					}
					if add {
						alias[v] = true
						changed = true
					}
				}
			}
		}
		if len(alias) == 0 {
			continue
		}
		name := world.FuncName(fn)
		n := 0
		for _, b := range fn.Blocks {
			for _, in := range b.Instrs {
				switch x := in.(type) {
				case *ssa.Call:
					if bi, ok := x.Call.Value.(*ssa.Builtin); ok && bi.Name() == "append" && len(x.Call.Args) > 0 && alias[x.Call.Args[0]] {
						// a full slice expression x[:n:n] has no spare capacity
						if sl, ok := x.Call.Args[0].(*ssa.Slice); ok && sl.Max != nil {
							continue
						}
						n++
						r.Fail(fmt.Sprintf("%s|append-to-command-alias#%d", name, n), w.InstrPos(x), fmt.Sprintf("%s appends to %s, which is a sub-slice of the decoded command (key lists returned by the key-extraction functions alias it): when the sub-slice has spare capacity the append overwrites the command's next token(s) - e.g. GETEX k EX 100 is authorised and then executed as GETEX k k 100", name, exprString(x.Call.Args[0])))
					}
				case *ssa.Store:
					if ia, ok := x.Addr.(*ssa.IndexAddr); ok && alias[ia.X] {
						n++
						r.Fail(fmt.Sprintf("%s|store-into-command-alias#%d", name, n), w.InstrPos(x), fmt.Sprintf("%s assigns to an element of %s, which aliases the decoded command: the handler then runs other tokens than the ones that were sent and authorised", name, exprString(ia.X)))
					}
				}
			}
		}
		if n == 0 {
			r.OK(name+"|command-not-written", w.Pos(fn.Pos()), fmt.Sprintf("%d value(s) alias the command; none is appended to or assigned into", len(alias)))
		}
	}
}
