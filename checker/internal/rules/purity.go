package rules

import (
	"fmt"
	"sort"
	"strings"

	"golang.org/x/tools/go/ssa"

	"svcheck/internal/report"
	"svcheck/internal/taint"
	"svcheck/internal/world"
)

func init() {
	register("P1", 40, "read purity: no handler of a read-only command (read category, no write category) writes through a reference obtained from the store, on any call path", ruleP1)
	register("P2", 35, "store freshness: a value stored by SetValues under key k is not a store-derived reference unless it was read under the same key (in-place update) or its source key is deleted/overwritten by the same command (move): a STORE destination never shares structure with a source", ruleP2)
	register("P3", 10, "in-place mutator inventory: write handlers that mutate a stored object in place (cannot be accounted, are not atomic)", ruleP3)
	register("WT", 80, "wrong-type discipline: every type assertion on a value obtained from the store is comma-ok / type-switch, and its not-ok edge leads only to error returns, without mutating the keyspace first", ruleWT)
	inPlaceWriteEvents = func(w *world.World, h *ssa.Function) []string {
		res := engine(w).Analyze(h)
		var out []string
		for _, ev := range res.Events {
			out = append(out, ev.Kind+"@"+w.InstrPos(ev.In))
		}
		return out
	}
}

var taintEngine *taint.Engine

func engine(w *world.World) *taint.Engine {
	if taintEngine == nil || taintEngine.W != w {
		taintEngine = taint.New(w)
	}
	return taintEngine
}

// handlersOf returns distinct handlers with the (sorted) command names that use them.
func handlersOf(cmds []*world.CmdEntry, filter func(*world.CmdEntry) bool) (hs []*ssa.Function, names map[*ssa.Function][]string) {
	names = map[*ssa.Function][]string{}
	for _, c := range world.Leaves(cmds) {
		if c.Handler == nil || (filter != nil && !filter(c)) {
			continue
		}
		if _, ok := names[c.Handler]; !ok {
			hs = append(hs, c.Handler)
		}
		names[c.Handler] = append(names[c.Handler], c.Name)
	}
	sort.Slice(hs, func(i, j int) bool { return world.FuncName(hs[i]) < world.FuncName(hs[j]) })
	return
}

func eventDesc(w *world.World, ev taint.Event) string {
	what := map[string]string{"store": "store through a store-derived address", "mapupdate": "map update on a store-derived map",
		"delete": "delete on a store-derived map", "clear": "clear of a store-derived container", "append": "append to a store-derived slice (writes the shared backing array)",
		"copy": "copy into a store-derived slice"}[ev.Kind]
	if what == "" {
		what = "in-place " + strings.TrimPrefix(ev.Kind, "stdlib:") + " on a store-derived slice"
	}
	return fmt.Sprintf("%s at %s via %s", what, w.InstrPos(ev.In), strings.Join(ev.Chain, " -> "))
}

func ruleP1(w *world.World, r *report.RuleResult) {
	cmds, err := w.Commands()
	if err != nil {
		r.Err = err
		return
	}
	eng := engine(w)
	for _, c := range world.Leaves(cmds) {
		if !c.IsReadOnly() || c.Handler == nil {
			continue
		}
		res := eng.Analyze(c.Handler)
		key := "entry:" + c.Name + "|" + world.FuncName(c.Handler)
		if len(res.Events) == 0 {
			r.OK(key, w.Pos(c.Pos), "no write event through a store reference on any call path")
			continue
		}
		var ds []string
		for i, ev := range res.Events {
			if i >= 3 {
				ds = append(ds, fmt.Sprintf("… %d more", len(res.Events)-3))
				break
			}
			ds = append(ds, eventDesc(w, ev))
		}
		r.Fail(key, w.InstrPos(res.Events[0].In), fmt.Sprintf("read-only command %s mutates an object it obtained from the store: %s", strings.ToUpper(c.Name), strings.Join(ds, "; ")))
	}
}

// keyMatches: the key under which an entry is stored equals the origin key.
func keyMatches(key, origin ssa.Value) bool {
	if key == origin || world.SameExpr(key, origin) {
		return true
	}
	// origin recorded as the Next of a range over the GetValues result: key is its #1 extract
	if nx, ok := origin.(*ssa.Next); ok {
		if ex, ok := key.(*ssa.Extract); ok && ex.Tuple == ssa.Value(nx) && ex.Index == 1 {
			return true
		}
	}
	// same string variable loaded twice
	return false
}

func ruleP2(w *world.World, r *report.RuleResult) {
	cmds, err := w.Commands()
	if err != nil {
		r.Err = err
		return
	}
	eng := engine(w)
	hs, names := handlersOf(cmds, nil)
	seenSite := map[ssa.CallInstruction]bool{}
	for _, h := range hs {
		res := eng.Analyze(h)
		for _, site := range res.SetSites {
			if seenSite[site.Call] {
				continue
			}
			seenSite[site.Call] = true
			n := 0
			for _, ent := range site.Entries {
				n++
				key := fmt.Sprintf("%s|setvalues-in:%s|entry:%s", world.FuncName(h), world.FuncName(site.Fn), exprString(ent.Key))
				pos := w.InstrPos(ent.Update)
				if ent.Bits&(taint.S|taint.H) == 0 {
					r.OK(key, pos, "stored value is fresh (not derived from a store reference)")
					continue
				}
				var foreign []ssa.Value
				for _, o := range ent.Origins {
					if !keyMatches(ent.Key, o) {
						foreign = append(foreign, o)
					}
				}
				if len(foreign) == 0 && !ent.Unknown {
					r.OK(key, pos, "in-place update idiom: the stored reference was read under the same key")
					continue
				}
				// move idiom: every foreign origin key is deleted or overwritten with a fresh value by this command
				unresolved := []string{}
				for _, o := range foreign {
					moved := false
					for _, d := range res.Deletes {
						if len(d.Common().Args) >= 2 && keyMatches(d.Common().Args[1], o) {
							moved = true
						}
					}
					for _, other := range site.Entries {
						if other.Update != ent.Update && keyMatches(other.Key, o) {
							fresh := other.Bits&(taint.S|taint.H) == 0
							if !fresh {
								// overwritten with a value that does not come from the same key
								fresh = true
								for _, oo := range other.Origins {
									if keyMatches(other.Key, oo) {
										fresh = false
									}
								}
							}
							if fresh {
								moved = true
							}
						}
					}
					if !moved {
						unresolved = append(unresolved, exprString(o))
					}
				}
				switch {
				case len(unresolved) == 0 && !ent.Unknown:
					r.OK(key, pos, "move idiom: the source key of the stored reference is deleted or overwritten with a fresh value by the same command")
				case len(unresolved) > 0:
					r.Fail(key, pos, fmt.Sprintf("%s (%s) stores under key %s a reference that was read from the store under key %s, which stays in place: destination and source share structure, so a later write to one changes the other",
						strings.ToUpper(strings.Join(names[h], "/")), world.FuncName(h), exprString(ent.Key), strings.Join(unresolved, ", ")))
				default:
					r.Fail(key, pos, fmt.Sprintf("%s stores under key %s a store-derived reference whose source key cannot be traced (returned by a helper): destination may share structure with another key",
						strings.ToUpper(strings.Join(names[h], "/")), exprString(ent.Key)))
				}
			}
			if n == 0 {
				key := fmt.Sprintf("%s|setvalues-in:%s|entries", world.FuncName(h), world.FuncName(site.Fn))
				r.Skip(key, w.InstrPos(site.Call), "entries map is built dynamically (not a literal); stored values are covered by the write-event rules")
			}
		}
	}
}

func ruleP3(w *world.World, r *report.RuleResult) {
	cmds, err := w.Commands()
	if err != nil {
		r.Err = err
		return
	}
	eng := engine(w)
	hs, names := handlersOf(cmds, func(c *world.CmdEntry) bool { return !c.IsReadOnly() })
	for _, h := range hs {
		res := eng.Analyze(h)
		key := world.FuncName(h)
		if len(res.Events) == 0 {
			r.OK(key, w.Pos(h.Pos()), "never writes through a store-derived reference (builds fresh values and hands them to SetValues)")
			continue
		}
		writesBack := len(res.SetSites) > 0
		r.Fail(key, w.InstrPos(res.Events[0].In), fmt.Sprintf("%s mutates a stored object in place (%s; %d write event(s); SetValues afterwards: %v): the change bypasses the keyspace lock and the memory accounting",
			strings.ToUpper(strings.Join(names[h], "/")), eventDesc(w, res.Events[0]), len(res.Events), writesBack))
	}
}

// ---- WT ----

func ruleWT(w *world.World, r *report.RuleResult) {
	cmds, err := w.Commands()
	if err != nil {
		r.Err = err
		return
	}
	eng := engine(w)
	hs, _ := handlersOf(cmds, nil)
	roHandler := map[*ssa.Function]bool{}
	for _, c := range world.Leaves(cmds) {
		if c.Handler != nil && c.IsReadOnly() {
			roHandler[c.Handler] = true
		}
	}
	seen := map[*ssa.TypeAssert]bool{}
	for _, h := range hs {
		class := "rw"
		if roHandler[h] {
			class = "ro"
		}
		res := eng.Analyze(h)
		idx := map[string]int{}
		for _, a := range res.Asserts {
			if seen[a.TA] {
				continue
			}
			seen[a.TA] = true
			fnn := world.FuncName(a.Fn)
			tn := shortType(a.TA.AssertedType.String())
			idx[fnn+tn]++
			key := fmt.Sprintf("%s|%s|assert:%s#%d", fnn, class, tn, idx[fnn+tn])
			pos := w.InstrPos(a.TA)
			if !a.TA.CommaOk {
				r.Fail(key, pos, fmt.Sprintf("single-value type assertion .(%s) on a value read from the store: a key holding another type panics the handler (and with it the connection goroutine / process)", tn))
				continue
			}
			verdict, msg := notOkEdge(w, a.TA)
			switch verdict {
			case report.Discharged:
				r.OK(key, pos, msg)
			case report.Finding:
				r.Fail(key, pos, msg)
			case report.NotDecided:
				r.Skip(key, pos, msg)
			default:
				r.Und(key, pos, msg)
			}
		}
	}
}

func shortType(s string) string {
	s = strings.ReplaceAll(s, world.Mod+"/", "")
	return s
}

// notOkEdge: follow the not-ok edge of a comma-ok assertion: every reachable return must carry a
// non-nil error and no keyspace mutator / write may come first. A later assertion on the same
// operand (type switch) is followed only along its own not-ok edge.
func notOkEdge(w *world.World, ta *ssa.TypeAssert) (report.Status, string) {
	var okv ssa.Value
	if ta.Referrers() != nil {
		for _, ref := range *ta.Referrers() {
			if ex, ok := ref.(*ssa.Extract); ok && ex.Index == 1 {
				okv = ex
			}
		}
	}
	if okv == nil {
		return report.Discharged, "comma-ok assertion whose ok result is unused: never panics; the typed value is the zero value on mismatch"
	}
	fn := ta.Parent()
	// okTest: block ends in an If on an ok-value of an assertion on operand X; returns the not-ok successor index
	okTest := func(b *ssa.BasicBlock) (x ssa.Value, notOk int, is bool) {
		iff := world.IfOf(b)
		if iff == nil {
			return nil, 0, false
		}
		c := world.CondValue(iff)
		neg := false
		if u, ok := c.(*ssa.UnOp); ok && u.Op.String() == "!" {
			c, neg = u.X, true
		}
		ex, ok := c.(*ssa.Extract)
		if !ok || ex.Index != 1 {
			return nil, 0, false
		}
		t, ok := ex.Tuple.(*ssa.TypeAssert)
		if !ok {
			return nil, 0, false
		}
		if neg {
			return t.X, 0, true
		}
		return t.X, 1, true
	}
	var starts [][2]*ssa.BasicBlock
	used := false
	for _, b := range fn.Blocks {
		iff := world.IfOf(b)
		if iff == nil {
			continue
		}
		c := world.CondValue(iff)
		neg := false
		if u, ok := c.(*ssa.UnOp); ok && u.Op.String() == "!" {
			c, neg = u.X, true
		}
		if c == okv {
			used = true
			if neg {
				starts = append(starts, [2]*ssa.BasicBlock{b.Succs[0], b})
			} else {
				starts = append(starts, [2]*ssa.BasicBlock{b.Succs[1], b})
			}
		}
	}
	if !used {
		// ok flows elsewhere (phi of several ok values, returned, stored)
		return report.NotDecided, "the ok result is not tested by a branch directly (combined or returned); not decided"
	}
	seen := map[[2]*ssa.BasicBlock]bool{}
	var bad []string
	var mut []string
	var dfs func(b, from *ssa.BasicBlock)
	dfs = func(b, from *ssa.BasicBlock) {
		if seen[[2]*ssa.BasicBlock{b, from}] {
			return
		}
		seen[[2]*ssa.BasicBlock{b, from}] = true
		for _, in := range b.Instrs {
			switch x := in.(type) {
			case *ssa.Return:
				rv := world.RetVals(x)
				if n := len(rv); n > 0 && world.IsErrorType(rv[n-1].Type()) && world.IsNilConst(rv[n-1]) {
					bad = append(bad, w.InstrPos(x))
				}
			case ssa.CallInstruction:
				if a := world.AccessorCall(x); world.Mutators[a] {
					mut = append(mut, a+" at "+w.InstrPos(in))
				}
			}
		}
		if x, notOk, is := okTest(b); is && world.SameExpr(x, ta.X) {
			dfs(b.Succs[notOk], b)
			return
		}
		// a test of a value merged by a phi of this block is decided by the path taken into it
		for _, si := range world.SuccsFrom(from, b) {
			dfs(b.Succs[si], b)
		}
	}
	for _, s := range starts {
		dfs(s[0], s[1])
	}
	switch {
	case len(mut) > 0:
		return report.Finding, fmt.Sprintf("when the stored value is not a %s the handler still reaches a keyspace mutator (%s): a command on a key of another type changes data instead of failing", shortType(ta.AssertedType.String()), strings.Join(mut, ", "))
	case len(bad) > 0:
		return report.Finding, fmt.Sprintf("when the stored value is not a %s the handler can still return success (nil error at %s): the wrong-typed key is silently skipped or treated as empty instead of producing an error", shortType(ta.AssertedType.String()), strings.Join(bad, ", "))
	}
	return report.Discharged, "comma-ok; the not-ok edge reaches only error returns and no mutator"
}
