package rules

import (
	"fmt"
	"sort"
	"strings"

	"golang.org/x/tools/go/ssa"

	"svcheck/internal/report"
	"svcheck/internal/world"
)

func init() {
	register("BL", 1, "no connection write while a pub/sub table lock is held: socket writes have no deadline, so a subscriber that stops reading would hold the lock for ever and every other connection's SUBSCRIBE / PUBLISH / PUBSUB command would block behind it", ruleBL)
}

// isConnWrite: a write to a client connection (methods of tidwall/resp.Conn, net.Conn.Write, io.Writer on a net.Conn).
func isConnWrite(c ssa.CallInstruction) (string, bool) {
	com := c.Common()
	if f := com.StaticCallee(); f != nil {
		s := f.String()
		if strings.HasPrefix(s, "(*github.com/tidwall/resp.Conn).Write") || strings.HasPrefix(s, "(*github.com/tidwall/resp.Writer).Write") {
			return s, true
		}
		return "", false
	}
	if com.IsInvoke() && com.Method.Name() == "Write" {
		t := com.Value.Type().String()
		if t == "net.Conn" || t == "io.Writer" || t == "io.ReadWriter" {
			return t + ".Write", true
		}
	}
	return "", false
}

func ruleBL(w *world.World, r *report.RuleResult) {
	a := locksetOf(w)
	entry := a.EntryHeld()
	n := 0
	for _, fn := range w.FuncsIn("internal/modules/pubsub") {
		if strings.Contains(w.Pos(fn.Pos()), "_test.go") {
			continue
		}
		k := 0
		for _, c := range world.Calls(fn) {
			if _, isGo := c.(*ssa.Go); isGo {
				continue
			}
			what, ok := isConnWrite(c)
			if !ok {
				continue
			}
			n++
			k++
			key := fmt.Sprintf("%s|connection-write#%d", world.FuncName(fn), k)
			var held []string
			for l := range a.HeldAt(c) {
				if strings.HasPrefix(l, "pubsub.") {
					held = append(held, l)
				}
			}
			for l := range entry[fn] {
				if strings.HasPrefix(l, "pubsub.") {
					dup := false
					for _, h := range held {
						if h == l {
							dup = true
						}
					}
					if !dup {
						held = append(held, l+" (held by every caller)")
					}
				}
			}
			sort.Strings(held)
			if len(held) == 0 {
				r.OK(key, w.InstrPos(c), "written with no pub/sub table lock held")
			} else {
				r.Fail(key, w.InstrPos(c), fmt.Sprintf("%s writes to a client connection (%s) while holding %s: the write has no deadline, so a client that stops reading keeps the lock held and every other connection that needs it (SUBSCRIBE, UNSUBSCRIBE, PUBLISH, PUBSUB ...) blocks - one connection stops the others' commands from being answered", world.FuncName(fn), what, strings.Join(held, ", ")))
			}
		}
	}
	if n == 0 {
		r.Fail("BL|anchor", "", "no connection write found in the pubsub package: the anchor of the rule is lost")
	}
}

var _ = report.Discharged
