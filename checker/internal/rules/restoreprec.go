package rules

import (
	"fmt"
	"go/token"
	"go/types"
	"sort"
	"strings"

	"golang.org/x/tools/go/ssa"

	"svcheck/internal/report"
	"svcheck/internal/world"
)

func init() {
	register("RP", 2, "restore at start-up: in the constructor the append-only log is replayed whenever a standalone instance is configured with RestoreAOF, and the snapshot is restored whenever it is configured with RestoreSnapshot and not with RestoreAOF - the call is guarded by nothing else that reads the configuration (a second flag in front of it makes a restart serve an older dataset than the one acknowledged)", ruleRP)
}

// configReads: the configuration fields (canonical names) a condition is computed from, following
// module callees that take no argument other than the receiver (isInCluster).
func configReads(v ssa.Value, out map[string]bool, seen map[ssa.Value]bool, depth int) {
	if v == nil || seen[v] || depth > 8 {
		return
	}
	seen[v] = true
	switch x := v.(type) {
	case *ssa.UnOp:
		if x.Op == token.MUL {
			if fa, ok := x.X.(*ssa.FieldAddr); ok {
				if world.TypeIs(fa.X.Type(), "/internal/config", "Config") {
					out[world.FieldName(fa)] = true
					return
				}
			}
			if al, ok := x.X.(*ssa.Alloc); ok && al.Referrers() != nil {
				for _, ref := range *al.Referrers() {
					if st, ok := ref.(*ssa.Store); ok && st.Addr == ssa.Value(al) {
						configReads(st.Val, out, seen, depth+1)
					}
				}
			}
			return
		}
		configReads(x.X, out, seen, depth+1)
	case *ssa.Field:
		if world.TypeIs(x.X.Type(), "/internal/config", "Config") {
			if st, ok := x.X.Type().Underlying().(*types.Struct); ok {
				out[world.CanonField(st.Field(x.Field))] = true
			}
			return
		}
		configReads(x.X, out, seen, depth+1)
	case *ssa.BinOp:
		configReads(x.X, out, seen, depth+1)
		configReads(x.Y, out, seen, depth+1)
	case *ssa.Phi:
		for _, e := range x.Edges {
			configReads(e, out, seen, depth+1)
		}
		// the tests that choose between the edges
		for _, p := range x.Block().Preds {
			for q := p; q != nil; q = q.Idom() {
				if iff := world.IfOf(q); iff != nil {
					configReads(iff.Cond, out, seen, depth+1)
				}
				if q == x.Block().Idom() {
					break
				}
			}
		}
	case *ssa.Call:
		if f := x.Call.StaticCallee(); f != nil && world.InModule(f) && f.Blocks != nil {
			for _, ret := range world.Returns(f) {
				for _, rv := range world.RetVals(ret) {
					configReads(rv, out, seen, depth+1)
				}
			}
		}
		for _, a := range x.Call.Args {
			configReads(a, out, seen, depth+1)
		}
	case *ssa.ChangeType:
		configReads(x.X, out, seen, depth+1)
	case *ssa.Convert:
		configReads(x.X, out, seen, depth+1)
	}
}

// reachesAvoiding: to is reachable from from without entering avoid.
func reachesAvoiding(from, to, avoid *ssa.BasicBlock) bool {
	seen := map[*ssa.BasicBlock]bool{}
	var dfs func(b *ssa.BasicBlock) bool
	dfs = func(b *ssa.BasicBlock) bool {
		if b == to {
			return true
		}
		if b == avoid || seen[b] {
			return false
		}
		seen[b] = true
		for _, s := range b.Succs {
			if dfs(s) {
				return true
			}
		}
		return false
	}
	return dfs(from)
}

// failsConstruction: the block returns a non-nil error without doing anything else of interest.
func failsConstruction(b *ssa.BasicBlock) bool {
	for i := 0; i < 4 && b != nil; i++ {
		if ret, ok := b.Instrs[len(b.Instrs)-1].(*ssa.Return); ok {
			if len(ret.Results) == 0 {
				return false
			}
			last := world.RetVals(ret)[len(ret.Results)-1]
			if c, ok := last.(*ssa.Const); ok && c.IsNil() {
				return false
			}
			return last.Type().String() == "error"
		}
		if len(b.Succs) != 1 {
			return false
		}
		b = b.Succs[0]
	}
	return false
}

func ruleRP(w *world.World, r *report.RuleResult) {
	type target struct {
		callee  string
		label   string
		allowed map[string]bool // config field -> required polarity of the flag read alone
		what    string
	}
	// fields read by the cluster test
	cluster := map[string]bool{}
	for _, fn := range w.FuncsIn("sugardb") {
		if world.BaseName(fn) == "isInCluster" {
			for _, ret := range world.Returns(fn) {
				for _, rv := range world.RetVals(ret) {
					configReads(rv, cluster, map[ssa.Value]bool{}, 0)
				}
			}
		}
	}
	targets := []target{
		{"internal/aof.(*Engine).Restore", "aof-restore", map[string]bool{"RestoreAOF": true}, "the append-only log is replayed"},
		{"internal/snapshot.(*Engine).Restore", "snapshot-restore", map[string]bool{"RestoreSnapshot": true, "RestoreAOF": false}, "the snapshot is restored"},
	}
	for _, tg := range targets {
		found := false
		for _, fn := range w.FuncsIn("sugardb") {
			if strings.Contains(w.Pos(fn.Pos()), "_test.go") {
				continue
			}
			for _, c := range world.Calls(fn) {
				f := c.Common().StaticCallee()
				if f == nil || world.FuncName(f) != tg.callee {
					continue
				}
				// only the start-up path: the function also builds the engine or is the constructor
				if fn.Parent() != nil || fn.Signature.Recv() != nil {
					continue
				}
				found = true
				key := fmt.Sprintf("%s|%s", world.FuncName(fn), tg.label)
				B := c.Block()
				var bad []string
				sawFlag := map[string]bool{}
				for D := B.Idom(); D != nil; D = D.Idom() {
					iff := world.IfOf(D)
					if iff == nil || len(D.Succs) != 2 {
						continue
					}
					r0 := reachesAvoiding(D.Succs[0], B, D)
					r1 := reachesAvoiding(D.Succs[1], B, D)
					if r0 == r1 {
						continue
					}
					onTrue := r0
					other := D.Succs[0]
					if onTrue {
						other = D.Succs[1]
					}
					if failsConstruction(other) {
						continue
					}
					if reachesAvoiding(other, D, nil) {
						continue // a loop test: the other edge comes back to it
					}
					cond := world.CondValue(iff)
					neg := false
					for {
						u, ok := cond.(*ssa.UnOp)
						if !ok || u.Op != token.NOT {
							break
						}
						cond, neg = u.X, !neg
					}
					reads := map[string]bool{}
					configReads(cond, reads, map[ssa.Value]bool{}, 0)
					if len(reads) == 0 {
						continue
					}
					var names []string
					allCluster := true
					for f := range reads {
						names = append(names, f)
						if !cluster[f] {
							allCluster = false
						}
					}
					sort.Strings(names)
					if allCluster {
						continue
					}
					if len(names) == 1 {
						if want, ok := tg.allowed[names[0]]; ok {
							// a bare flag (or its negation): polarity must be the documented one
							if isFieldRead(cond) {
								if (onTrue != neg) == want {
									sawFlag[names[0]] = true
									continue
								}
								bad = append(bad, fmt.Sprintf("%s at %s (reached only when %s is %v)", names[0], w.InstrPos(iff), names[0], onTrue != neg))
								continue
							}
						}
					}
					bad = append(bad, fmt.Sprintf("%s at %s", strings.Join(names, ","), w.InstrPos(iff)))
				}
				if len(bad) > 0 {
					r.Fail(key, w.InstrPos(c), fmt.Sprintf("at start-up %s only behind a test of %s: an instance configured to restore this way and with that other setting starts with an older or empty dataset", tg.what, strings.Join(bad, "; ")))
				} else {
					r.OK(key, w.InstrPos(c), fmt.Sprintf("guarded only by the cluster test, construction failures and its own flags %v", keysOf(sawFlag)))
				}
			}
		}
		if !found {
			r.Fail("sugardb.NewSugarDB|"+tg.label, "", fmt.Sprintf("no start-up call of %s was found in a constructor of package sugardb: with the restore flag set nothing is restored", tg.callee))
		}
	}
}

func isFieldRead(v ssa.Value) bool {
	switch x := v.(type) {
	case *ssa.UnOp:
		if x.Op == token.MUL {
			_, ok := x.X.(*ssa.FieldAddr)
			return ok
		}
	case *ssa.Field:
		return true
	}
	return false
}

func keysOf(m map[string]bool) []string {
	var out []string
	for k := range m {
		out = append(out, k)
	}
	sort.Strings(out)
	return out
}
