package rules

import (
	"fmt"
	"go/token"

	"golang.org/x/tools/go/ssa"

	"svcheck/internal/report"
	"svcheck/internal/world"
)

func init() {
	register("CW", 2, "large replies are written whole: where the connection loop writes the reply in pieces (Write(res[i:j]) inside a loop), the loop is left only after the rest was written (a Write of res[i:]), on a failed or short write, or by a loop test of the form i < len(res) - a bound short of len(res) leaves the last bytes of some reply lengths unwritten, the client waits for the rest and every later reply on the connection is shifted", ruleCW)
}

// naturalLoop: the blocks of the loop with header h (nil when h is no loop header).
func naturalLoop(h *ssa.BasicBlock) map[*ssa.BasicBlock]bool {
	var latches []*ssa.BasicBlock
	for _, p := range h.Preds {
		if h.Dominates(p) {
			latches = append(latches, p)
		}
	}
	if len(latches) == 0 {
		return nil
	}
	in := map[*ssa.BasicBlock]bool{h: true}
	var work []*ssa.BasicBlock
	for _, l := range latches {
		if !in[l] {
			in[l] = true
			work = append(work, l)
		}
	}
	for len(work) > 0 {
		b := work[len(work)-1]
		work = work[:len(work)-1]
		for _, p := range b.Preds {
			if !in[p] {
				in[p] = true
				work = append(work, p)
			}
		}
	}
	return in
}

func ruleCW(w *world.World, r *report.RuleResult) {
	loop, cmdCall, err := connLoop(w)
	if err != nil {
		r.Err = err
		return
	}
	fname := world.FuncName(loop)
	fromCmd := func(v ssa.Value) bool {
		return derivesFrom(v, func(x ssa.Value) bool {
			c, ok := x.(ssa.Instruction)
			return ok && c == cmdCall
		}, 0)
	}
	isLenOf := func(v, x ssa.Value) (int64, bool) {
		k := int64(0)
		for {
			bo, ok := v.(*ssa.BinOp)
			if !ok || bo.Op != token.SUB {
				break
			}
			c, ok := world.ConstInt(bo.Y)
			if !ok {
				return 0, false
			}
			k += c
			v = bo.X
		}
		c, ok := v.(*ssa.Call)
		if !ok {
			return 0, false
		}
		bi, ok := c.Call.Value.(*ssa.Builtin)
		if !ok || bi.Name() != "len" || !world.SameExpr(c.Call.Args[0], x) {
			return 0, false
		}
		return k, true
	}
	type pieceWrite struct {
		call ssa.CallInstruction
		sl   *ssa.Slice
	}
	var pieces []pieceWrite
	whole := 0
	// writtenArgs: the arguments of c that are written to a writer - by c itself (x.Write(b)) or by a
	// local closure / module helper that hands its []byte parameter to a Write
	writtenArgs := func(c ssa.CallInstruction) []ssa.Value {
		cc := c.Common()
		if (cc.IsInvoke() && cc.Method.Name() == "Write") || (cc.StaticCallee() != nil && world.BaseName(cc.StaticCallee()) == "Write" && !world.InModule(cc.StaticCallee())) {
			return cc.Args
		}
		f := cc.StaticCallee()
		if f == nil || !world.InModule(f) || f.Blocks == nil {
			return nil
		}
		var out []ssa.Value
		for i, p := range f.Params {
			if i >= len(cc.Args) {
				break
			}
			for _, c2 := range world.Calls(f) {
				c2c := c2.Common()
				if !(c2c.IsInvoke() && c2c.Method.Name() == "Write") {
					continue
				}
				for _, a := range c2c.Args {
					if a == ssa.Value(p) {
						out = append(out, cc.Args[i])
					}
				}
			}
		}
		return out
	}
	for _, c := range world.Calls(loop) {
		for _, a := range writtenArgs(c) {
			if sl, ok := a.(*ssa.Slice); ok && fromCmd(sl.X) {
				pieces = append(pieces, pieceWrite{c, sl})
			} else if _, isSlice := a.(*ssa.Slice); !isSlice && fromCmd(a) {
				whole++
			}
		}
	}
	if whole > 0 {
		r.OK(fname+"|whole-reply-write", w.Pos(loop.Pos()), fmt.Sprintf("%d write(s) hand the whole reply to the connection", whole))
	}
	// group the piecewise writes by innermost loop
	seenLoop := map[*ssa.BasicBlock]bool{}
	n := 0
	for _, pw := range pieces {
		var hdr *ssa.BasicBlock
		var blocks map[*ssa.BasicBlock]bool
		for d := pw.call.Block(); d != nil; d = d.Idom() {
			if nl := naturalLoop(d); nl != nil && nl[pw.call.Block()] {
				// the connection's own read loop is not a chunk loop
				if nl[cmdCall.Block()] {
					break
				}
				hdr, blocks = d, nl
				break
			}
		}
		if hdr == nil || seenLoop[hdr] {
			continue
		}
		seenLoop[hdr] = true
		x := pw.sl.X
		// tail writes: Write(res[i:]) - must-fact per block
		const TAIL world.Facts = 1
		gen := func(in ssa.Instruction) world.Facts {
			c, ok := in.(ssa.CallInstruction)
			if !ok {
				return 0
			}
			for _, a := range writtenArgs(c) {
				if sl, ok := a.(*ssa.Slice); ok && sl.High == nil && world.SameExpr(sl.X, x) {
					return TAIL
				}
			}
			return 0
		}
		must := world.Must(loop, nil, gen, nil)
		for _, b := range loop.Blocks {
			if !blocks[b] {
				continue
			}
			for si, sc := range b.Succs {
				if blocks[sc] {
					continue
				}
				n++
				key := fmt.Sprintf("%s|chunk-loop-exit#%d", fname, n)
				last := b.Instrs[len(b.Instrs)-1]
				pos := w.InstrPos(last)
				f := must[b]
				for _, in := range b.Instrs {
					f |= gen(in)
				}
				if f&TAIL != 0 {
					r.OK(key, pos, "left after the rest of the reply was written (res[i:])")
					continue
				}
				iff := world.IfOf(b)
				if iff == nil {
					r.OK(key, pos, "unconditional exit (not a loop test)")
					continue
				}
				cond := world.CondValue(iff)
				bo, isB := cond.(*ssa.BinOp)
				if isB {
					// i < B: the exit is the false edge; i >= B / B <= i: the true edge
					var bound ssa.Value
					switch {
					case (bo.Op == token.LSS || bo.Op == token.LEQ) && si == 1:
						bound = bo.Y
					case (bo.Op == token.GEQ || bo.Op == token.GTR) && si == 0:
						bound = bo.Y
					}
					if bound != nil {
						if k, ok := isLenOf(bound, x); ok {
							short := k
							if bo.Op == token.LEQ || bo.Op == token.GTR {
								short = k - 1 // i <= len-1 is i < len
							}
							if short > 0 {
								r.Fail(key, pos, fmt.Sprintf("the loop that writes the reply in pieces is left as soon as the index reaches len(reply)-%d: for a reply whose length is a multiple of the piece size plus %d (or less) the last byte(s) are never written - the client blocks on the incomplete frame and every later reply on the connection is shifted", short, short))
							} else {
								r.OK(key, pos, "left when the index has reached the end of the reply")
							}
							continue
						}
					}
				}
				r.OK(key, pos, "left on a test that is not a bound on the reply index (short or failed write)")
			}
		}
	}
}
