package rules

import (
	"fmt"
	"go/token"
	"go/types"

	"golang.org/x/tools/go/ssa"

	"svcheck/internal/report"
	"svcheck/internal/world"
)

func init() {
	register("LC", 2, "cached cardinality: for every struct that keeps a map of members next to an int field its cardinality method returns, each change of that field on an object X is +/- a count of membership changes of X itself: the increment (decrement) is made, or counted, only where X was tested not to (to) contain the key and the key is inserted into (deleted from) X's map in the same step", ruleLC)
}

type cachedLen struct {
	t      *types.Named
	mapIdx int
	lenIdx int
}

// cachedLenTypes: struct types with a map field and an int field that a method returns unchanged.
func cachedLenTypes(w *world.World) []cachedLen {
	var out []cachedLen
	seen := map[*types.Named]bool{}
	for _, fn := range w.ModFns {
		recv := fn.Signature.Recv()
		if recv == nil || fn.Signature.Results().Len() != 1 || len(fn.Params) != 1 {
			continue
		}
		n := world.NamedOf(recv.Type())
		if n == nil || seen[n] {
			continue
		}
		st, ok := n.Underlying().(*types.Struct)
		if !ok {
			continue
		}
		for _, ret := range world.Returns(fn) {
			rv := world.RetVals(ret)
			u, ok := rv[0].(*ssa.UnOp)
			if !ok || u.Op != token.MUL {
				continue
			}
			fa, ok := u.X.(*ssa.FieldAddr)
			if !ok || fa.X != ssa.Value(fn.Params[0]) {
				continue
			}
			b, ok := st.Field(fa.Field).Type().Underlying().(*types.Basic)
			if !ok || b.Kind() != types.Int {
				continue
			}
			for i := 0; i < st.NumFields(); i++ {
				if _, isMap := st.Field(i).Type().Underlying().(*types.Map); isMap {
					out = append(out, cachedLen{n, i, fa.Field})
					seen[n] = true
					break
				}
			}
		}
	}
	return out
}

func ruleLC(w *world.World, r *report.RuleResult) {
	for _, cl := range cachedLenTypes(w) {
		tname := cl.t.Obj().Pkg().Name() + "." + cl.t.Obj().Name()
		isField := func(v ssa.Value, idx int) (obj ssa.Value, ok bool) {
			fa, isFA := v.(*ssa.FieldAddr)
			if !isFA || fa.Field != idx || world.NamedOf(fa.X.Type()) != cl.t {
				return nil, false
			}
			return fa.X, true
		}
		// mapOf: v is (a load of) X.members; returns X
		mapOf := func(v ssa.Value) (ssa.Value, bool) {
			if u, ok := v.(*ssa.UnOp); ok && u.Op == token.MUL {
				return isField(u.X, cl.mapIdx)
			}
			return nil, false
		}
		// value getters and membership predicates of the type, by summary
		getter := map[*ssa.Function]bool{} // returns recv.members[k]
		member := map[*ssa.Function]bool{} // returns (k in recv.members)
		for pass := 0; pass < 2; pass++ {
			for _, fn := range w.ModFns {
				if fn.Signature.Recv() == nil || world.NamedOf(fn.Signature.Recv().Type()) != cl.t || len(fn.Params) != 2 || fn.Signature.Results().Len() != 1 {
					continue
				}
				rets := world.Returns(fn)
				if len(rets) != 1 {
					continue
				}
				v := world.RetVals(rets[0])[0]
				isLookupOnRecv := func(x ssa.Value) bool {
					if mi, ok := x.(*ssa.MakeInterface); ok {
						x = mi.X
					}
					lk, ok := x.(*ssa.Lookup)
					if !ok {
						if c, ok := x.(*ssa.Call); ok {
							if g := c.Call.StaticCallee(); g != nil && getter[g] && len(c.Call.Args) == 2 && c.Call.Args[0] == ssa.Value(fn.Params[0]) && c.Call.Args[1] == ssa.Value(fn.Params[1]) {
								return true
							}
						}
						return false
					}
					o, ok := mapOf(lk.X)
					return ok && o == ssa.Value(fn.Params[0]) && lk.Index == ssa.Value(fn.Params[1])
				}
				switch x := v.(type) {
				case *ssa.Lookup, *ssa.MakeInterface:
					if isLookupOnRecv(x) {
						getter[fn] = true
					}
				case *ssa.BinOp:
					if x.Op == token.NEQ && world.IsNilConst(x.Y) && isLookupOnRecv(x.X) {
						member[fn] = true
					}
				case *ssa.Extract:
					if lk, ok := x.Tuple.(*ssa.Lookup); ok && x.Index == 1 && isLookupOnRecv(lk) {
						member[fn] = true
					}
				}
			}
		}
		// membershipTest: cond tests "key in obj.members"; trueIsIn tells which edge means present
		membershipTest := func(cond ssa.Value) (obj ssa.Value, trueIsIn bool, ok bool) {
			neg := false
			for {
				if u, isU := cond.(*ssa.UnOp); isU && u.Op == token.NOT {
					cond, neg = u.X, !neg
					continue
				}
				break
			}
			switch x := cond.(type) {
			case *ssa.Call:
				if g := x.Call.StaticCallee(); g != nil && member[g] {
					return x.Call.Args[0], !neg, true
				}
			case *ssa.BinOp:
				if (x.Op == token.NEQ || x.Op == token.EQL) && world.IsNilConst(x.Y) {
					v := x.X
					if c, isC := v.(*ssa.Call); isC {
						if g := c.Call.StaticCallee(); g != nil && getter[g] {
							return c.Call.Args[0], (x.Op == token.NEQ) != neg, true
						}
					}
					if lk, isL := v.(*ssa.Lookup); isL {
						if o, ok := mapOf(lk.X); ok {
							return o, (x.Op == token.NEQ) != neg, true
						}
					}
				}
			case *ssa.Extract:
				if lk, isL := x.Tuple.(*ssa.Lookup); isL && x.Index == 1 {
					if o, ok := mapOf(lk.X); ok {
						return o, !neg, true
					}
				}
			}
			return nil, false, false
		}
		for _, fn := range w.ModFns {
			if world.PkgOf(fn) == nil || world.PkgOf(fn) != cl.t.Obj().Pkg() {
				continue
			}
			n := 0
			for _, b := range fn.Blocks {
				for _, in := range b.Instrs {
					st, ok := in.(*ssa.Store)
					if !ok {
						continue
					}
					obj, ok := isField(st.Addr, cl.lenIdx)
					if !ok {
						continue
					}
					n++
					key := fmt.Sprintf("%s|%s-length-update#%d", world.FuncName(fn), tname, n)
					if _, isConst := st.Val.(*ssa.Const); isConst {
						r.OK(key, w.InstrPos(st), "constant initialisation")
						continue
					}
					bo, ok := st.Val.(*ssa.BinOp)
					if !ok || (bo.Op != token.ADD && bo.Op != token.SUB) {
						r.Skip(key, w.InstrPos(st), "the cached cardinality is assigned a value that is not of the form length +/- n")
						continue
					}
					// sites where the change is decided: the store itself (constant n) or the increments of the counter n
					adding := bo.Op == token.ADD
					var sites []ssa.Instruction
					if _, isConst := bo.Y.(*ssa.Const); isConst {
						sites = []ssa.Instruction{st}
					} else {
						seenV := map[ssa.Value]bool{}
						var walk func(v ssa.Value)
						walk = func(v ssa.Value) {
							if v == nil || seenV[v] {
								return
							}
							seenV[v] = true
							switch x := v.(type) {
							case *ssa.Phi:
								for _, e := range x.Edges {
									walk(e)
								}
							case *ssa.BinOp:
								if x.Op == token.ADD {
									if _, isConst := x.Y.(*ssa.Const); isConst {
										sites = append(sites, x)
										walk(x.X)
									}
								}
							case *ssa.UnOp:
								if al, ok := x.X.(*ssa.Alloc); ok && x.Op == token.MUL {
									for _, ref := range *al.Referrers() {
										if s2, ok := ref.(*ssa.Store); ok && s2.Addr == ssa.Value(al) {
											walk(s2.Val)
										}
									}
								}
							}
						}
						walk(bo.Y)
					}
					if len(sites) == 0 {
						r.Skip(key, w.InstrPos(st), "the amount added to the cached cardinality is not a constant or a counter of unit steps")
						continue
					}
					const IN, OUT world.Facts = 1, 2
					eg := func(b *ssa.BasicBlock, si int) world.Facts {
						iff := world.IfOf(b)
						if iff == nil {
							return 0
						}
						o, trueIsIn, ok := membershipTest(world.CondValue(iff))
						if !ok || !world.SameExpr(o, obj) {
							return 0
						}
						if (si == 0) == trueIsIn {
							return IN
						}
						return OUT
					}
					must := world.Must(fn, eg, nil, nil)
					bad := ""
					for _, s := range sites {
						f := world.FactsAt(must, s, nil, nil)
						want := IN
						if adding {
							want = OUT
						}
						if f&want == 0 {
							bad = fmt.Sprintf("the step at %s is not guarded by a test that the key is %s this set", w.InstrPos(s), map[bool]string{true: "absent from", false: "present in"}[adding])
							break
						}
						// the matching map operation on the same object in the same block
						found := false
						for _, x := range s.Block().Instrs {
							switch y := x.(type) {
							case *ssa.MapUpdate:
								if o, ok := mapOf(y.Map); ok && adding && world.SameExpr(o, obj) {
									found = true
								}
							case ssa.CallInstruction:
								if bi, ok := y.Common().Value.(*ssa.Builtin); ok && bi.Name() == "delete" && !adding {
									if o, ok := mapOf(y.Common().Args[0]); ok && world.SameExpr(o, obj) {
										found = true
									}
								}
							}
						}
						if !found {
							bad = fmt.Sprintf("the step at %s is not accompanied by the %s on this set's own map", w.InstrPos(s), map[bool]string{true: "insertion", false: "deletion"}[adding])
							break
						}
					}
					if bad == "" {
						r.OK(key, w.InstrPos(st), "every unit of the change is an insertion/deletion on this object's map, made where the key was tested absent/present in this object")
					} else {
						r.Fail(key, w.InstrPos(st), fmt.Sprintf("%s changes the cached cardinality of a %s, but %s: the cached figure (SCARD, and every size-dependent decision such as SRANDMEMBER/SPOP counts and SINTERCARD limits) drifts away from the number of members", world.FuncName(fn), tname, bad))
					}
				}
			}
		}
	}
}
