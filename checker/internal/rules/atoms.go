package rules

import (
	"go/token"
	"go/types"

	"golang.org/x/tools/go/ssa"

	"svcheck/internal/world"
)

// ---- I5: atoms over a finite abstract domain ----

// derivesFrom: v is computed from a value accepted by pred (backwards over operands, bounded).
func derivesFrom(v ssa.Value, pred func(ssa.Value) bool, d int) bool {
	if v == nil || d > 10 {
		return false
	}
	if pred(v) {
		return true
	}
	if derivStop != nil && derivStop(v) {
		return false
	}
	// field of a local parameter struct: exactly the value stored into that field
	if f := world.Forward(v); f != v {
		return derivesFrom(f, pred, d+1)
	}
	switch x := v.(type) {
	case *ssa.Phi:
		for _, e := range x.Edges {
			if e != v && derivesFrom(e, pred, d+1) {
				return true
			}
		}
		return false
	case *ssa.Parameter:
		// a helper's parameter stands for the arguments bound to it by the rule (derivParamBind)
		for _, a := range derivParamBind[x] {
			if derivesFrom(a, pred, d+1) {
				return true
			}
		}
		return false
	case *ssa.Const, *ssa.Global, *ssa.FreeVar, *ssa.Function, *ssa.Builtin:
		return false
	case *ssa.Alloc:
		return allocFedBy(x, pred, d+1, map[ssa.Value]bool{})
	case *ssa.UnOp:
		if x.Op == token.MUL {
			// load: from the address expression, or (local variable / field of a local composite)
			// from the values stored into it
			if pred(x.X) {
				return true
			}
			base := x.X
			for {
				switch bb := base.(type) {
				case *ssa.FieldAddr:
					base = bb.X
					continue
				case *ssa.IndexAddr:
					base = bb.X
					continue
				}
				break
			}
			if al, ok := base.(*ssa.Alloc); ok {
				return allocFedBy(al, pred, d+1, map[ssa.Value]bool{})
			}
		}
	}
	if in, ok := v.(ssa.Instruction); ok {
		var ops []*ssa.Value
		for _, o := range in.Operands(ops) {
			if *o != nil && *o != v && derivesFrom(*o, pred, d+1) {
				return true
			}
		}
	}
	return false
}

// allocFedBy: some value stored into the local al (or into one of its fields / elements)
// derives from pred.
func allocFedBy(addr ssa.Value, pred func(ssa.Value) bool, d int, seen map[ssa.Value]bool) bool {
	if seen[addr] || d > 10 {
		return false
	}
	seen[addr] = true
	refs := addr.Referrers()
	if refs == nil {
		return false
	}
	for _, ref := range *refs {
		switch x := ref.(type) {
		case *ssa.Store:
			if x.Addr == addr && derivesFrom(x.Val, pred, d+1) {
				return true
			}
		case *ssa.FieldAddr:
			if x.X == addr && allocFedBy(x, pred, d+1, seen) {
				return true
			}
		case *ssa.IndexAddr:
			if x.X == addr && allocFedBy(x, pred, d+1, seen) {
				return true
			}
		}
	}
	return false
}

// derivParamBind, when a rule follows a call into a helper, maps the helper's parameters to the
// call-site arguments, so that provenance questions asked inside the helper are answered in
// terms of the caller's values. Set and cleared by the rule that uses it.
var derivParamBind = map[*ssa.Parameter][]ssa.Value{}

// derivStop, when set, cuts the backward walk of derivesFrom at the accepted values.
var derivStop func(ssa.Value) bool

// withStop runs f with derivesFrom cut at values accepted by stop.
func withStop(stop func(ssa.Value) bool, f func() bool) bool {
	old := derivStop
	derivStop = stop
	defer func() { derivStop = old }()
	return f()
}

// isAppendCall: v is a call of the append builtin (a local container being filled).
func isAppendCall(v ssa.Value) bool {
	c, ok := v.(*ssa.Call)
	if !ok {
		return false
	}
	b, ok := c.Call.Value.(*ssa.Builtin)
	return ok && b.Name() == "append"
}

func isExpireAtField(v ssa.Value) bool {
	switch x := v.(type) {
	case *ssa.FieldAddr:
		return world.FieldName(x) == "ExpireAt"
	case *ssa.Field:
		st, ok := x.X.Type().Underlying().(*types.Struct)
		return ok && world.CanonField(st.Field(x.Field)) == "ExpireAt"
	}
	return false
}

func isTimeType(t types.Type) bool { return world.TypeIs(t, "time", "Time") }

// isNowCall: clock.Now() / time.Now().
func isNowCall(v ssa.Value) bool {
	c, ok := v.(*ssa.Call)
	if !ok {
		return false
	}
	if c.Call.IsInvoke() {
		return c.Call.Method.Name() == "Now"
	}
	f := c.Call.StaticCallee()
	return f != nil && (f.String() == "time.Now" || (world.BaseName(f) == "Now" && f.Signature.Recv() != nil))
}

// isNowValue: a clock reading, or a time.Time parameter standing for one (FilterExpiredKeys(now, ...)).
func isNowValue(v ssa.Value) bool {
	if p, ok := v.(*ssa.Parameter); ok && isTimeType(p.Type()) {
		return true
	}
	return isNowCall(v)
}

// expiryAtom classifies a boolean value as an expiry test.
// pol = +1: true means "deadline has passed"; -1: true means "still alive"; 0: not an expiry test.
// deadline is the value standing for the deadline (derives from an ExpireAt field or, inside a
// helper, from a parameter); isDeadline lets helpers treat a parameter as the deadline.
type expiryCtx struct {
	w        *world.World
	helpers  map[*ssa.Function]int // expiry predicate helpers -> polarity of their result
	computed bool
	existsFn *ssa.Function // the function bound to the KeysExist accessor
}

var expCtx *expiryCtx

func expiryOf(w *world.World) *expiryCtx {
	if expCtx == nil || expCtx.w != w {
		expCtx = &expiryCtx{w: w, helpers: map[*ssa.Function]int{}}
		expCtx.findHelpers()
		if b := w.Binding(); b != nil {
			expCtx.existsFn = b.Field["KeysExist"]
		}
	}
	return expCtx
}

// timeCmp: v is a.Before(b) / a.After(b); returns a, b, isBefore.
func timeCmp(v ssa.Value) (a, b ssa.Value, before, ok bool) {
	c, isC := v.(*ssa.Call)
	if !isC {
		return nil, nil, false, false
	}
	f := c.Call.StaticCallee()
	if f == nil || len(c.Call.Args) != 2 {
		return nil, nil, false, false
	}
	switch f.String() {
	case "(time.Time).Before":
		return c.Call.Args[0], c.Call.Args[1], true, true
	case "(time.Time).After":
		return c.Call.Args[0], c.Call.Args[1], false, true
	}
	return nil, nil, false, false
}

// polarity of a boolean value w.r.t. "expired", given predicates for deadline and now.
func (e *expiryCtx) polarity(v ssa.Value, isDeadline, isNow func(ssa.Value) bool, depth int) (pol int, deadline ssa.Value) {
	if depth > 8 || v == nil {
		return 0, nil
	}
	switch x := v.(type) {
	case *ssa.UnOp:
		if x.Op == token.NOT {
			p, d := e.polarity(x.X, isDeadline, isNow, depth+1)
			return -p, d
		}
	case *ssa.Phi:
		// short-circuit &&/||: constant edges are ignored, the others must agree
		pol := 0
		var dl ssa.Value
		for _, ed := range x.Edges {
			if _, isConst := ed.(*ssa.Const); isConst {
				continue
			}
			p, d := e.polarity(ed, isDeadline, isNow, depth+1)
			if p == 0 {
				continue
			}
			if pol != 0 && p != pol {
				return 0, nil
			}
			pol, dl = p, d
		}
		return pol, dl
	case *ssa.Call:
		if a, b, before, ok := timeCmp(x); ok {
			aD, bD := derivesFrom(a, isDeadline, 0), derivesFrom(b, isDeadline, 0)
			aN, bN := derivesFrom(a, isNow, 0), derivesFrom(b, isNow, 0)
			switch {
			case aD && bN && !aN:
				if before {
					return +1, a // deadline.Before(now): expired
				}
				return -1, a // deadline.After(now): alive
			case bD && aN && !bN:
				if before {
					return -1, b // now.Before(deadline): alive
				}
				return +1, b // now.After(deadline): expired
			}
			return 0, nil
		}
		if f := x.Call.StaticCallee(); f != nil {
			if p, ok := e.helpers[f]; ok && p != 0 {
				// the helper's deadline carrier: the first argument that is not the clock reading
				for _, arg := range x.Call.Args {
					if !derivesFrom(arg, isNow, 0) {
						return p, arg
					}
				}
			}
		}
	}
	return 0, nil
}

// viaHelper: the condition (possibly negated) is a call of an expiry predicate helper.
func (e *expiryCtx) viaHelper(cond ssa.Value) bool {
	for d := 0; d < 4; d++ {
		if u, ok := cond.(*ssa.UnOp); ok && u.Op == token.NOT {
			cond = u.X
			continue
		}
		break
	}
	c, ok := cond.(*ssa.Call)
	if !ok {
		return false
	}
	f := c.Call.StaticCallee()
	return f != nil && e.helpers[f] != 0
}

// findHelpers finds module functions `func(entry/deadline, now) bool` whose result is an expiry test
// on their parameters.
func (e *expiryCtx) findHelpers() {
	for _, fn := range e.w.ModFns {
		sig := fn.Signature
		if sig.Results().Len() != 1 || fn.Parent() != nil {
			continue
		}
		if b, ok := sig.Results().At(0).Type().Underlying().(*types.Basic); !ok || b.Kind() != types.Bool {
			continue
		}
		hasTime := false
		for _, p := range fn.Params {
			if isTimeType(p.Type()) {
				hasTime = true
			}
		}
		if !hasTime {
			continue
		}
		isDeadline := func(v ssa.Value) bool {
			if isExpireAtField(v) {
				return true
			}
			return false
		}
		isNow := func(v ssa.Value) bool {
			if p, ok := v.(*ssa.Parameter); ok && isTimeType(p.Type()) {
				return true
			}
			return isNowCall(v)
		}
		pol := 0
		consistent := true
		for _, ret := range world.Returns(fn) {
			rv := world.RetVals(ret)
			if _, isConst := rv[0].(*ssa.Const); isConst {
				continue
			}
			p, _ := e.polarity(rv[0], isDeadline, isNow, 0)
			if p == 0 {
				continue
			}
			if pol != 0 && p != pol {
				consistent = false
			}
			pol = p
		}
		if pol != 0 && consistent {
			e.helpers[fn] = pol
		}
	}
}

// expiryFacts computes, for function fn, must-facts ALIVE / EXPIRED generated on the edges of
// expiry tests (inline or through a helper). entryOK filters which deadline values count
// (nil = any value deriving from an ExpireAt field).
const (
	factAlive   world.Facts = 1 << 20
	factExpired world.Facts = 1 << 21
)

type expiryTest struct {
	If       *ssa.If
	Pol      int
	Deadline ssa.Value
}

func (e *expiryCtx) testsIn(fn *ssa.Function) []expiryTest {
	var out []expiryTest
	for _, b := range fn.Blocks {
		iff := world.IfOf(b)
		if iff == nil {
			continue
		}
		p, d := e.polarity(world.CondValue(iff), isExpireAtField, isNowValue, 0)
		if p != 0 {
			out = append(out, expiryTest{iff, p, d})
		}
	}
	return out
}

// zeroTimeTest: cond compares a time value with the zero time; returns the tested value and
// whether the TRUE edge means "is zero".
func zeroTimeTest(cond ssa.Value) (v ssa.Value, trueIsZero bool, ok bool) {
	neg := false
	if u, isU := cond.(*ssa.UnOp); isU && u.Op == token.NOT {
		cond, neg = u.X, true
	}
	switch x := cond.(type) {
	case *ssa.BinOp:
		if x.Op != token.EQL && x.Op != token.NEQ {
			return nil, false, false
		}
		isZero := func(v ssa.Value) bool {
			c, ok := v.(*ssa.Const)
			return ok && c.Value == nil && isTimeType(c.Type())
		}
		var other ssa.Value
		switch {
		case isZero(x.Y) && isTimeType(x.X.Type()):
			other = x.X
		case isZero(x.X) && isTimeType(x.Y.Type()):
			other = x.Y
		default:
			return nil, false, false
		}
		return other, (x.Op == token.EQL) != neg, true
	case *ssa.Call:
		if f := x.Call.StaticCallee(); f != nil && f.String() == "(time.Time).IsZero" {
			return x.Call.Args[0], !neg, true
		}
	}
	return nil, false, false
}

func (e *expiryCtx) edgeGen(fn *ssa.Function, deadlineOK func(ssa.Value) bool) world.EdgeGen {
	tests := map[*ssa.If]expiryTest{}
	for _, t := range e.testsIn(fn) {
		if deadlineOK == nil || deadlineOK(t.Deadline) {
			tests[t.If] = t
		}
	}
	return func(b *ssa.BasicBlock, si int) world.Facts {
		iff := world.IfOf(b)
		if iff == nil {
			return 0
		}
		if t, ok := tests[iff]; ok {
			// si==0: cond true
			expiredEdge := (si == 0) == (t.Pol > 0)
			if expiredEdge {
				return factExpired
			}
			return factAlive
		}
		// delegation: `if keysExist(ctx, keys)[key]` - the sibling read primitive (itself an X1 instance)
		// has tested the entry's deadline; its "exists" edge is ALIVE (same critical section or not, the
		// entry read afterwards is at worst fresher)
		{
			c, neg := world.CondValue(iff), false
			if u, ok := c.(*ssa.UnOp); ok && u.Op == token.NOT {
				c, neg = u.X, true
			}
			if e.viaExistsPrimitive(c) && (si == 0) != neg {
				return factAlive
			}
		}
		// a zero deadline never expires: the "is zero" edge of a zero test on a deadline is ALIVE
		if v, trueIsZero, ok := zeroTimeTest(world.CondValue(iff)); ok && derivesFrom(v, isExpireAtField, 0) && (deadlineOK == nil || deadlineOK(v)) {
			if (si == 0) == trueIsZero {
				return factAlive
			}
		}
		return 0
	}
}

// viaExistsPrimitive: v is (a lookup in) the result of a static call to the function bound to the
// KeysExist accessor.
func (e *expiryCtx) viaExistsPrimitive(v ssa.Value) bool {
	if e.existsFn == nil {
		return false
	}
	return derivesFrom(v, func(x ssa.Value) bool {
		c, ok := x.(*ssa.Call)
		return ok && c.Call.StaticCallee() == e.existsFn
	}, 0)
}

// ---- ordering evaluation: walk a CFG deciding recognised comparisons ----

// walkCFG explores fn from its entry. decide returns 0 (take true edge), 1 (false edge) or -1
// (unknown: explore both). visit is called for every instruction reached. Returns the Returns reached.
func walkCFG(fn *ssa.Function, decide func(cond ssa.Value) int, visit func(ssa.Instruction)) []*ssa.Return {
	var rets []*ssa.Return
	seen := map[*ssa.BasicBlock]bool{}
	var dfs func(b *ssa.BasicBlock)
	dfs = func(b *ssa.BasicBlock) {
		if seen[b] {
			return
		}
		seen[b] = true
		for _, in := range b.Instrs {
			if visit != nil {
				visit(in)
			}
			if r, ok := in.(*ssa.Return); ok {
				rets = append(rets, r)
			}
		}
		if iff := world.IfOf(b); iff != nil {
			switch decide(world.CondValue(iff)) {
			case 0:
				dfs(b.Succs[0])
			case 1:
				dfs(b.Succs[1])
			default:
				dfs(b.Succs[0])
				dfs(b.Succs[1])
			}
			return
		}
		for _, s := range b.Succs {
			dfs(s)
		}
	}
	if len(fn.Blocks) > 0 {
		dfs(fn.Blocks[0])
	}
	return rets
}

// cmpHolds: does `l op r` hold when l rel r (rel in "<", "=", ">")?
func cmpHolds(op token.Token, rel string) bool {
	switch op {
	case token.LSS:
		return rel == "<"
	case token.LEQ:
		return rel != ">"
	case token.GTR:
		return rel == ">"
	case token.GEQ:
		return rel != "<"
	case token.EQL:
		return rel == "="
	case token.NEQ:
		return rel != "="
	}
	return false
}

func flipRel(rel string) string {
	switch rel {
	case "<":
		return ">"
	case ">":
		return "<"
	}
	return rel
}

// decideCmp evaluates a BinOp comparison between two symbols identified by isA / isB under
// the ordering rel (A rel B). Returns 0/1 for true/false edge, -1 if not such a comparison.
func decideCmp(cond ssa.Value, isA, isB func(ssa.Value) bool, rel string) int {
	neg := false
	if u, ok := cond.(*ssa.UnOp); ok && u.Op == token.NOT {
		cond, neg = u.X, true
	}
	bo, ok := cond.(*ssa.BinOp)
	if !ok {
		return -1
	}
	var holds bool
	switch {
	case derivesFrom(bo.X, isA, 0) && derivesFrom(bo.Y, isB, 0) && !derivesFrom(bo.X, isB, 0) && !derivesFrom(bo.Y, isA, 0):
		holds = cmpHolds(bo.Op, rel)
	case derivesFrom(bo.X, isB, 0) && derivesFrom(bo.Y, isA, 0) && !derivesFrom(bo.X, isA, 0) && !derivesFrom(bo.Y, isB, 0):
		holds = cmpHolds(bo.Op, flipRel(rel))
	default:
		return -1
	}
	if holds != neg {
		return 0
	}
	return 1
}

// carriedAcross: does the derivation of v (through phis, local variables, append, slicing, ranging)
// include a phi in the loop header block `header` that receives a non-constant value over a back
// edge — i.e. does v carry data from an earlier iteration of that loop into the current one?
func carriedAcross(v ssa.Value, header *ssa.BasicBlock) *ssa.Phi {
	seen := map[ssa.Value]bool{}
	var found *ssa.Phi
	var walk func(v ssa.Value, d int)
	walk = func(v ssa.Value, d int) {
		if v == nil || seen[v] || d > 40 || found != nil {
			return
		}
		seen[v] = true
		switch x := v.(type) {
		case *ssa.Phi:
			if x.Block() == header {
				for i, e := range x.Edges {
					pred := x.Block().Preds[i]
					if header.Dominates(pred) {
						if _, isConst := e.(*ssa.Const); !isConst {
							found = x
							return
						}
					}
				}
			}
			for _, e := range x.Edges {
				walk(e, d+1)
			}
		case *ssa.UnOp:
			if al, ok := x.X.(*ssa.Alloc); ok {
				for _, ref := range *al.Referrers() {
					if st, ok := ref.(*ssa.Store); ok && st.Addr == ssa.Value(al) {
						walk(st.Val, d+1)
					}
				}
				return
			}
			walk(x.X, d+1)
		case *ssa.Call:
			if b, ok := x.Call.Value.(*ssa.Builtin); ok && b.Name() == "append" {
				walk(x.Call.Args[0], d+1)
			}
		case *ssa.Slice:
			walk(x.X, d+1)
		case *ssa.Range:
			walk(x.X, d+1)
		case *ssa.Next:
			walk(x.Iter, d+1)
		case *ssa.Extract:
			walk(x.Tuple, d+1)
		case *ssa.IndexAddr:
			walk(x.X, d+1)
		case *ssa.ChangeType:
			walk(x.X, d+1)
		case *ssa.Convert:
			walk(x.X, d+1)
		case *ssa.MakeInterface:
			walk(x.X, d+1)
		}
	}
	walk(v, 0)
	return found
}

// loopHeaderOf: the header block of the range loop whose iteration yields v (v derives from the
// Next / range-index phi of that loop); nil if v is not a loop variable.
func loopHeaderOf(v ssa.Value) *ssa.BasicBlock {
	var hdr *ssa.BasicBlock
	seen := map[ssa.Value]bool{}
	var walk func(v ssa.Value, d int)
	walk = func(v ssa.Value, d int) {
		if v == nil || seen[v] || d > 12 || hdr != nil {
			return
		}
		seen[v] = true
		switch x := v.(type) {
		case *ssa.Next:
			hdr = x.Block()
		case *ssa.Extract:
			walk(x.Tuple, d+1)
		case *ssa.UnOp:
			if al, ok := x.X.(*ssa.Alloc); ok {
				for _, ref := range *al.Referrers() {
					if st, ok := ref.(*ssa.Store); ok && st.Addr == ssa.Value(al) {
						walk(st.Val, d+1)
					}
				}
				return
			}
			walk(x.X, d+1)
		case *ssa.IndexAddr:
			// slice[i] with i the range-index phi
			if p, ok := x.Index.(*ssa.BinOp); ok {
				if ph, ok := p.X.(*ssa.Phi); ok && ph.Comment == "rangeindex" {
					hdr = ph.Block()
					return
				}
			}
			if ph, ok := x.Index.(*ssa.Phi); ok && ph.Comment == "rangeindex" {
				hdr = ph.Block()
			}
		case *ssa.Phi:
			for _, e := range x.Edges {
				walk(e, d+1)
			}
		}
	}
	walk(v, 0)
	return hdr
}
