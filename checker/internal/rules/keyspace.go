package rules

import (
	"fmt"
	"go/token"
	"go/types"
	"sort"
	"strings"

	"golang.org/x/tools/go/ssa"

	"svcheck/internal/lockset"
	"svcheck/internal/report"
	"svcheck/internal/world"
)

func init() {
	register("X1", 4, "expired keys are unobservable: in every read primitive of the keyspace (the functions bound to KeysExist, GetValues, GetExpiry, Randomkey) each site that reports an entry (result-map update, return value, append to the result) is reached only over the 'deadline not passed' edge of an expiry test of that entry, or its value is computed from such a test; the test has the right orientation (deadline.Before(now) = expired) and treats the zero deadline as alive", ruleX1)
	register("X3", 4, "expiry-driven removal: every deletion performed because of a deadline (background sampler, lazy deletion in getValues, FilterExpiredKeys) is reached only over the 'deadline has passed' edge of an expiry test of the key being deleted", ruleX3)
	register("X4", 1, "no inherited deadline: setValues copies the deadline of the previous entry only on the edge where that deadline has not passed", ruleX4)
	register("KB", 2, "keep bookkeeping: the write primitives (setValues, setExpiry) never take a key out of the eviction caches or the store; only deletion, expiry, eviction and flush do", ruleKB)
	register("A1", 3, "admission: in setValues every write to the store is preceded by the max-memory admission test, which returns an error exactly on (usage >= limit and limit != 0) and policy == noeviction", ruleA1)
	register("A2", 4, "eviction bounds: in adjustMemoryUsage every deletion is reached only when usage >= limit, and every cycle through a deletion re-tests the limit", ruleA2)
	register("A3", 2, "volatile candidates: a key enters the volatile-key index only with a non-zero deadline, and under a volatile-* policy a key enters the LFU/LRU cache only with a non-zero deadline", ruleA3)
	register("IA", 2, "index agreement: a random index drawn with rand.Intn(len(A)) is applied to A itself", ruleIA)
	register("PD", 12, "per-database structures: createDatabase initialises, deleteKey cleans and Flush empties every per-database structure of the server (store, volatile-key index, LFU cache, LRU cache); cache Flush leaves an empty heap", rulePD)
	register("M1", 2, "accounting ownership: the memory counter is written only by functions that add/replace/remove/clear store entries (or their private helpers)", ruleM1)
	register("M2", 3, "accounting pairing: every function that adds or replaces a store entry adds the new size and subtracts the old one; every removal subtracts; every clear subtracts all — unless the update keeps the stored value (size-neutral)", ruleM2)
	register("NM", 1, "no write into a missing inner map: m[k1][k2] = v on a map m made in the same function is dominated by m[k1] = make(...)", ruleNM)
}

// storePath: v's access path is (inside) the per-database store map.
func onPath(v ssa.Value, field string) bool {
	p := lockset.Path(v)
	return p == field || strings.HasPrefix(p, field+".")
}

const (
	pStore = "sugardb.SugarDB.store"
	pVol   = "sugardb.SugarDB.keysWithExpiry.keys"
	pLFU   = "sugardb.SugarDB.lfuCache.cache"
	pLRU   = "sugardb.SugarDB.lruCache.cache"
	pMem   = "sugardb.SugarDB.memUsed"
)

// storeRead: v is a read of a store entry: Lookup store[db][key] (or its extracts) or a
// Next over a range of store[db].
func isStoreEntryRead(v ssa.Value) bool {
	switch x := v.(type) {
	case *ssa.Lookup:
		if _, isMap := x.X.Type().Underlying().(*types.Map); isMap && onPath(x.X, pStore) {
			// inner lookup: map[string]KeyData
			if m, ok := x.X.Type().Underlying().(*types.Map); ok {
				if b, ok := m.Key().Underlying().(*types.Basic); ok && b.Kind() == types.String {
					return true
				}
			}
		}
	case *ssa.Next:
		if r, ok := x.Iter.(*ssa.Range); ok && onPath(r.X, pStore) {
			if m, ok := r.X.Type().Underlying().(*types.Map); ok {
				if b, ok := m.Key().Underlying().(*types.Basic); ok && b.Kind() == types.String {
					return true
				}
			}
		}
	}
	return false
}

func fromStoreEntry(v ssa.Value) bool { return derivesFrom(v, isStoreEntryRead, 0) }

func isZeroish(v ssa.Value) bool {
	c, ok := v.(*ssa.Const)
	if !ok {
		return false
	}
	if c.Value == nil {
		return true
	}
	if b, ok := world.ConstBool(c); ok && !b {
		return true
	}
	if s, ok := world.ConstString(c); ok && s == "" {
		return true
	}
	if i, ok := world.ConstInt(c); ok && i == 0 {
		return true
	}
	return false
}

func ruleX1(w *world.World, r *report.RuleResult) {
	bind := w.Binding()
	ec := expiryOf(w)
	var accs []string
	for a := range world.ReadAccessors {
		accs = append(accs, a)
	}
	sort.Strings(accs)
	for _, acc := range accs {
		fn := bind.Field[acc]
		if fn == nil {
			r.Und("binding:"+acc, "-", "read accessor "+acc+" is not bound in the HandlerFuncParams literal")
			continue
		}
		fname := world.FuncName(fn)
		gen := ec.edgeGen(fn, fromStoreEntry)
		must := world.Must(fn, gen, nil, nil)
		tests := ec.testsIn(fn)
		isTestValue := func(v ssa.Value) bool {
			for _, t := range tests {
				if v == t.If.Cond {
					return true
				}
			}
			// a helper call / time comparison not used directly as a branch condition
			p, d := ec.polarity(v, isExpireAtField, isNowValue, 0)
			return p != 0 && d != nil && fromStoreEntry(d)
		}
		n := 0
		report1 := func(in ssa.Instruction, val ssa.Value, what string) {
			// a value that reaches the result only through a local container filled by append was
			// admitted at the append site (which is itself a report site)
			if val == nil || isZeroish(val) || !withStop(isAppendCall, func() bool { return fromStoreEntry(val) }) {
				return
			}
			n++
			key := fmt.Sprintf("%s|report:%s", fname, what)
			f := world.FactsAt(must, in, nil, nil)
			switch {
			case f&factAlive != 0:
				r.OK(key, w.InstrPos(in), "entry reported only over the 'deadline not passed' edge of its expiry test")
			case derivesFrom(val, isTestValue, 0):
				r.OK(key, w.InstrPos(in), "reported value is computed from the expiry test of the entry")
			default:
				r.Fail(key, w.InstrPos(in), fmt.Sprintf("%s (bound to %s) reports a store entry here without testing its deadline against the clock: a key whose deadline has passed but which has not been collected yet is still observable through %s (reads, TTL/TYPE queries and existence-conditional writes see it)", fname, acc, acc))
			}
		}
		for _, b := range fn.Blocks {
			for _, in := range b.Instrs {
				switch x := in.(type) {
				case *ssa.MapUpdate:
					if !onPath(x.Map, pStore) {
						report1(in, x.Value, "map["+exprString(x.Key)+"]")
					}
				case *ssa.Return:
					for i, rv := range world.RetVals(x) {
						report1(in, rv, fmt.Sprintf("return#%d", i))
					}
				case *ssa.Call:
					if bi, ok := x.Call.Value.(*ssa.Builtin); ok && bi.Name() == "append" && len(x.Call.Args) == 2 {
						// append(result, elems...): elems is a slice of a fresh array holding the values
						var vals []ssa.Value
						collectVarargs(x.Call.Args[1], &vals)
						for _, v := range vals {
							report1(in, v, "append")
						}
					}
				}
			}
		}
		if n == 0 {
			r.Fail(fname+"|report", w.Pos(fn.Pos()), fmt.Sprintf("%s (bound to %s) contains no recognisable site reporting a store entry: the rule's anchor is lost", fname, acc))
		}
	}
	// orientation of the expiry predicate helpers
	for fn, pol := range ec.helpers {
		if world.ShortPkg(world.PkgOf(fn)) != "sugardb" && world.ShortPkg(world.PkgOf(fn)) != "internal" {
			continue
		}
		key := world.FuncName(fn) + "|helper-orientation"
		name := strings.ToLower(fn.Name())
		wantExpired := strings.Contains(name, "expired")
		wantAlive := strings.Contains(name, "alive") || strings.Contains(name, "valid") || strings.Contains(name, "live")
		switch {
		case wantExpired && pol < 0, wantAlive && !wantExpired && pol > 0:
			r.Fail(key, w.Pos(fn.Pos()), fmt.Sprintf("%s returns true when the deadline has NOT passed, contrary to its name: every caller's branch is inverted", world.FuncName(fn)))
		default:
			r.OK(key, w.Pos(fn.Pos()), fmt.Sprintf("expiry predicate; result true means %s", map[bool]string{true: "deadline passed", false: "alive"}[pol > 0]))
		}
		// zero deadline must be alive: some return path under the zero-deadline edge returns the alive constant
		zeroOK := false
		for _, b := range fn.Blocks {
			if iff := world.IfOf(b); iff != nil {
				if v, _, ok := zeroTimeTest(world.CondValue(iff)); ok && derivesFrom(v, isExpireAtField, 0) {
					zeroOK = true
				}
			}
		}
		if zeroOK {
			r.OK(world.FuncName(fn)+"|helper-zero-deadline", w.Pos(fn.Pos()), "the helper tests for the zero deadline (a key without expiry never expires)")
		} else {
			r.Fail(world.FuncName(fn)+"|helper-zero-deadline", w.Pos(fn.Pos()), "the expiry predicate does not exempt the zero deadline: every key without an expiry counts as expired (the zero time is before any clock reading)")
		}
	}
}

func collectVarargs(v ssa.Value, out *[]ssa.Value) {
	sl, ok := v.(*ssa.Slice)
	if !ok {
		*out = append(*out, v)
		return
	}
	al, ok := sl.X.(*ssa.Alloc)
	if !ok {
		*out = append(*out, v)
		return
	}
	for _, ref := range *al.Referrers() {
		if ia, ok := ref.(*ssa.IndexAddr); ok {
			for _, r2 := range *ia.Referrers() {
				if st, ok := r2.(*ssa.Store); ok {
					*out = append(*out, st.Val)
				}
			}
		}
	}
}

// isDeleter: call removes a key from the keyspace (locally or through raft / gossip).
func isDeleter(w *world.World, c ssa.CallInstruction) (string, bool) {
	f := c.Common().StaticCallee()
	if f == nil {
		return "", false
	}
	switch world.FuncName(f) {
	case "sugardb.(*SugarDB).deleteKey", "sugardb.(*SugarDB).raftApplyDeleteKey", "internal/memberlist.(*MemberList).ForwardDeleteKey":
		return f.Name(), true
	}
	return "", false
}

func ruleX3(w *world.World, r *report.RuleResult) {
	ec := expiryOf(w)
	type inst struct {
		fn   string
		must bool // the function must contain deletions
	}
	for _, it := range []inst{{"sugardb.(*SugarDB).evictKeysWithExpiredTTL", true}, {"sugardb.(*SugarDB).getValues", true}, {"internal.FilterExpiredKeys", true}} {
		top := w.Func(it.fn)
		if top == nil {
			r.Und(it.fn+"|anchor", "-", "function "+it.fn+" not found: the expiry-driven deletion sites cannot be located")
			continue
		}
		// the function that holds the deletion sites: the anchor itself, or - when the critical section
		// was moved into a helper that takes the lock itself - the same-package helper it calls
		fns := []*ssa.Function{top}
		hasDeleter := func(f *ssa.Function) bool {
			for _, c := range world.Calls(f) {
				if _, ok := isDeleter(w, c); ok {
					return true
				}
			}
			return false
		}
		if it.must && !hasDeleter(top) {
			seenH := map[*ssa.Function]bool{top: true}
			var find func(f *ssa.Function, d int)
			find = func(f *ssa.Function, d int) {
				for _, c := range world.Calls(f) {
					g := c.Common().StaticCallee()
					if g == nil || seenH[g] || !world.InModule(g) || g.Blocks == nil || world.PkgOf(g) != world.PkgOf(top) {
						continue
					}
					seenH[g] = true
					if hasDeleter(g) {
						fns = append(fns, g)
					} else if d < 2 {
						find(g, d+1)
					}
				}
			}
			find(top, 0)
		}
		total := 0
		for _, fn := range fns {
			egen := ec.edgeGen(fn, nil)
			// a deadline is also known to be set (non-zero) on the non-zero edge of a zero test, and on the
			// expired edge of the expiry helper (whose own zero handling is X1's helper-zero-deadline)
			const factNonZero world.Facts = 1 << 22
			gen := func(b *ssa.BasicBlock, si int) world.Facts {
				f := egen(b, si)
				iff := world.IfOf(b)
				if iff == nil {
					return f
				}
				if v, trueIsZero, ok := zeroTimeTest(world.CondValue(iff)); ok && derivesFrom(v, isExpireAtField, 0) && (si == 0) != trueIsZero {
					f |= factNonZero
				}
				if f&factExpired != 0 && ec.viaHelper(world.CondValue(iff)) {
					f |= factNonZero
				}
				return f
			}
			// what was learnt about an entry holds only while the lock under which it was read is held:
			// releasing a mutex forgets the expiry facts (decision and removal must be one critical section)
			kill := func(in ssa.Instruction) world.Facts {
				if c, ok := in.(*ssa.Call); ok {
					if f := c.Call.StaticCallee(); f != nil {
						switch f.String() {
						case "(*sync.RWMutex).Unlock", "(*sync.RWMutex).RUnlock", "(*sync.Mutex).Unlock":
							return factExpired | factAlive | factNonZero
						}
					}
				}
				return 0
			}
			must := world.Must(fn, gen, nil, kill)
			n := 0
			check := func(in ssa.Instruction, what string) {
				n++
				key := fmt.Sprintf("%s|delete:%s", it.fn, what)
				f := world.FactsAt(must, in, nil, kill)
				if f&factExpired != 0 && f&factNonZero == 0 {
					r.Fail(key, w.InstrPos(in), fmt.Sprintf("%s removes (or marks for removal) a key here on a path that tested 'deadline before now' but not that a deadline is set: the zero time is before every clock reading, so an entry without expiry (e.g. a value written over an expired, not yet collected key) is deleted by expiry", it.fn))
					return
				}
				if f&factExpired != 0 {
					r.OK(key, w.InstrPos(in), "removal reached only over the 'deadline is set and has passed' edges")
				} else {
					r.Fail(key, w.InstrPos(in), fmt.Sprintf("%s removes (or marks for removal) a key here on a path that did not establish that the key's deadline has passed: keys that have not expired, or have no expiry at all, are deleted", it.fn))
				}
			}
			for _, b := range fn.Blocks {
				for _, in := range b.Instrs {
					switch x := in.(type) {
					case ssa.CallInstruction:
						if name, ok := isDeleter(w, x); ok {
							check(in, name)
						}
						if bi, ok := x.Common().Value.(*ssa.Builtin); ok && bi.Name() == "append" && it.fn == "internal.FilterExpiredKeys" {
							check(in, "mark")
						}
					}
				}
			}
			total += n
			if fn != fns[len(fns)-1] {
				continue
			}
			if total == 0 && it.must {
				r.Fail(it.fn+"|delete", w.Pos(fn.Pos()), it.fn+" no longer removes expired keys at all")
			}
			// per-database isolation of the marked keys: delete(state[db], key) must only see keys marked
			// during the current iteration of the loop over databases
			for _, c := range world.Calls(fn) {
				bi, ok := c.Common().Value.(*ssa.Builtin)
				if !ok || bi.Name() != "delete" || len(c.Common().Args) != 2 {
					continue
				}
				lk, ok := c.Common().Args[0].(*ssa.Lookup)
				if !ok {
					continue
				}
				dbHdr := loopHeaderOf(lk.Index)
				if dbHdr == nil {
					continue
				}
				key := it.fn + "|delete-list-per-database"
				if ph := carriedAcross(c.Common().Args[1], dbHdr); ph != nil {
					r.Fail(key, w.InstrPos(c), it.fn+" deletes from one database keys that were marked while scanning another: the list of keys to delete lives across iterations of the loop over databases, so a live key is dropped from a later database when a key of the same name has expired in an earlier one")
				} else {
					r.OK(key, w.InstrPos(c), "the keys deleted from a database were all marked during that database's own iteration")
				}
			}
		}
	}
}

func ruleX4(w *world.World, r *report.RuleResult) {
	fn := w.Binding().Field["SetValues"]
	if fn == nil {
		r.Err = fmt.Errorf("SetValues binding not found")
		return
	}
	ec := expiryOf(w)
	fname := world.FuncName(fn)
	gen := ec.edgeGen(fn, fromStoreEntry)
	must := world.Must(fn, gen, nil, nil)
	isOldDeadline := func(v ssa.Value) bool { return isExpireAtField(v) && fromStoreEntry(v) }
	n := 0
	// the deadline written into the new entry: Store to KeyData.ExpireAt of a local composite, or MapUpdate value
	for _, b := range fn.Blocks {
		for _, in := range b.Instrs {
			st, ok := in.(*ssa.Store)
			if !ok {
				continue
			}
			fa, ok := st.Addr.(*ssa.FieldAddr)
			if !ok || world.FieldName(fa) != "ExpireAt" {
				continue
			}
			// value: phi/alloc of (zero, old.ExpireAt)
			inherits := derivesFrom(st.Val, isOldDeadline, 0)
			if !inherits {
				continue
			}
			n++
			key := fname + "|inherit-deadline"
			// every place where the old deadline flows into the variable must be under ALIVE
			bad := inheritSitesWithoutAlive(fn, st.Val, isOldDeadline, must)
			// the deadline must be this key's own: not carried over from a key processed earlier in the same call
			if hdr := entriesLoopHeader(fn); hdr != nil {
				if ph := carriedAcross(st.Val, hdr); ph != nil {
					r.Fail(fname+"|deadline-is-per-key", w.InstrPos(st), "the deadline written into the new entry is held in a variable that lives across iterations of the loop over the entries: in a multi-key write (MSET) a key can receive the deadline of another key processed earlier in the same call")
				} else {
					r.OK(fname+"|deadline-is-per-key", w.InstrPos(st), "the deadline variable is reset for every key of a multi-key write")
				}
			}
			if len(bad) == 0 {
				r.OK(key, w.InstrPos(st), "the previous entry's deadline is carried over only on the edge where it has not passed")
			} else {
				r.Fail(key, w.InstrPos(bad[0]), "setValues copies the previous entry's deadline into the new entry without testing whether that deadline has already passed: a value written over an expired, not yet collected key is born expired")
			}
		}
	}
	if n == 0 {
		r.OK(fname+"|inherit-deadline", w.Pos(fn.Pos()), "setValues does not carry a previous deadline over (new entries start without expiry)")
	}
}

// entriesLoopHeader: header block of the range loop over the entries map parameter of setValues.
func entriesLoopHeader(fn *ssa.Function) *ssa.BasicBlock {
	for _, b := range fn.Blocks {
		for _, in := range b.Instrs {
			if nx, ok := in.(*ssa.Next); ok {
				if rg, ok := nx.Iter.(*ssa.Range); ok {
					if p, ok := rg.X.(*ssa.Parameter); ok {
						if _, isMap := p.Type().Underlying().(*types.Map); isMap {
							return nx.Block()
						}
					}
				}
			}
		}
	}
	return nil
}

// inheritSitesWithoutAlive: instructions where a value accepted by src enters v (phi edges / stores
// into the local variable) on a path without the ALIVE fact.
func inheritSitesWithoutAlive(fn *ssa.Function, v ssa.Value, src func(ssa.Value) bool, must map[*ssa.BasicBlock]world.Facts) []ssa.Instruction {
	var bad []ssa.Instruction
	seen := map[ssa.Value]bool{}
	var walk func(v ssa.Value)
	walk = func(v ssa.Value) {
		if v == nil || seen[v] {
			return
		}
		seen[v] = true
		switch x := v.(type) {
		case *ssa.Phi:
			for i, e := range x.Edges {
				if derivesFrom(e, src, 0) {
					if _, isPhi := e.(*ssa.Phi); isPhi {
						walk(e)
						continue
					}
					pred := x.Block().Preds[i]
					// facts at the end of pred, plus the edge pred->phi block
					f := must[pred]
					// find the defining instruction of e to anchor
					if ein, ok := e.(ssa.Instruction); ok {
						f = world.FactsAt(must, ein, nil, nil)
						if f&factAlive == 0 {
							bad = append(bad, ein)
						}
					} else if f&factAlive == 0 {
						bad = append(bad, x)
					}
				}
			}
		case *ssa.UnOp:
			if al, ok := x.X.(*ssa.Alloc); ok && x.Op == token.MUL {
				for _, ref := range *al.Referrers() {
					if st, ok := ref.(*ssa.Store); ok && st.Addr == ssa.Value(al) && derivesFrom(st.Val, src, 0) {
						if world.FactsAt(must, st, nil, nil)&factAlive == 0 {
							bad = append(bad, st)
						}
					}
				}
				return
			}
			if src(x.X) || derivesFrom(x, src, 0) {
				if world.FactsAt(must, x, nil, nil)&factAlive == 0 {
					bad = append(bad, x)
				}
			}
		default:
			if in, ok := v.(ssa.Instruction); ok && derivesFrom(v, src, 0) {
				if world.FactsAt(must, in, nil, nil)&factAlive == 0 {
					bad = append(bad, in)
				}
			}
		}
	}
	walk(v)
	return bad
}

// ---- A1 ----

func memLimitCmp(cond ssa.Value) (bo *ssa.BinOp, ok bool) {
	neg := false
	_ = neg
	if u, isU := cond.(*ssa.UnOp); isU && u.Op == token.NOT {
		cond = u.X
	}
	b, isB := cond.(*ssa.BinOp)
	if !isB {
		return nil, false
	}
	isMem := func(v ssa.Value) bool { fa, ok := v.(*ssa.FieldAddr); return ok && world.FieldName(fa) == "memUsed" }
	isMax := func(v ssa.Value) bool { fa, ok := v.(*ssa.FieldAddr); return ok && world.FieldName(fa) == "MaxMemory" }
	if (derivesFrom(b.X, isMem, 0) && derivesFrom(b.Y, isMax, 0)) || (derivesFrom(b.Y, isMem, 0) && derivesFrom(b.X, isMax, 0)) {
		return b, true
	}
	return nil, false
}

func ruleA1(w *world.World, r *report.RuleResult) {
	fn := w.Binding().Field["SetValues"]
	if fn == nil {
		r.Err = fmt.Errorf("SetValues binding not found")
		return
	}
	fname := world.FuncName(fn)
	// the admission predicate: a call to a bool function of (memUsed, MaxMemory)
	var adm *ssa.Call
	for _, c := range world.Calls(fn) {
		call, ok := c.(*ssa.Call)
		if !ok || len(call.Call.Args) != 2 {
			continue
		}
		isMem := func(v ssa.Value) bool { fa, ok := v.(*ssa.FieldAddr); return ok && world.FieldName(fa) == "memUsed" }
		isMax := func(v ssa.Value) bool { fa, ok := v.(*ssa.FieldAddr); return ok && world.FieldName(fa) == "MaxMemory" }
		if derivesFrom(call.Call.Args[0], isMem, 0) && derivesFrom(call.Call.Args[1], isMax, 0) {
			adm = call
		}
	}
	if adm == nil {
		r.Fail(fname+"|admission-test", w.Pos(fn.Pos()), "setValues no longer tests the memory counter against the configured limit before writing: under noeviction writes are never refused")
		return
	}
	const (
		ADMIT world.Facts = 1 << iota
		OVER
		NOEV
	)
	isNoEvTest := func(cond ssa.Value) (trueIsNoEv bool, ok bool) {
		b, isB := cond.(*ssa.BinOp)
		if !isB || (b.Op != token.EQL && b.Op != token.NEQ) {
			return false, false
		}
		for _, pr := range [][2]ssa.Value{{b.X, b.Y}, {b.Y, b.X}} {
			if s, isS := world.ConstString(pr[1]); isS && s == "noeviction" && loadOfField(pr[0], "EvictionPolicy") {
				return b.Op == token.EQL, true
			}
		}
		return false, false
	}
	eg := func(b *ssa.BasicBlock, si int) world.Facts {
		iff := world.IfOf(b)
		if iff == nil {
			return 0
		}
		if world.CondValue(iff) == ssa.Value(adm) {
			if si == 1 {
				return ADMIT
			}
			return OVER
		}
		if t, ok := isNoEvTest(world.CondValue(iff)); ok {
			if (si == 0) == t {
				return NOEV
			}
			return ADMIT
		}
		return 0
	}
	must := world.Must(fn, eg, nil, nil)
	n := 0
	for _, b := range fn.Blocks {
		for _, in := range b.Instrs {
			mu, ok := in.(*ssa.MapUpdate)
			if !ok || !onPath(mu.Map, pStore) {
				continue
			}
			// only entry writes (inner map), not createDatabase
			n++
			key := fmt.Sprintf("%s|store-write-after-admission", fname)
			if world.FactsAt(must, in, nil, nil)&ADMIT != 0 {
				r.OK(key, w.InstrPos(in), "store write reached only when usage is under the limit or the policy is not noeviction")
			} else {
				r.Fail(key, w.InstrPos(in), "a store write in setValues is reachable without passing the admission test (usage >= limit and policy == noeviction must refuse the write)")
			}
		}
	}
	if n == 0 {
		r.Fail(fname+"|store-write-after-admission", w.Pos(fn.Pos()), "setValues contains no store write")
	}
	// the refusing return: under OVER and NOEV a non-nil error is returned
	found := false
	for _, ret := range world.Returns(fn) {
		f := world.FactsAt(must, ret, nil, nil)
		if f&OVER != 0 && f&NOEV != 0 {
			found = true
			rv := world.RetVals(ret)
			key := fname + "|refuse-with-error"
			if len(rv) == 1 && !world.IsNilConst(rv[0]) {
				r.OK(key, w.InstrPos(ret), "over the limit under noeviction: returns a non-nil error before touching the store")
			} else {
				r.Fail(key, w.InstrPos(ret), "over the limit under noeviction setValues returns nil: the write is silently dropped but acknowledged")
			}
		}
	}
	if !found {
		r.Fail(fname+"|refuse-with-error", w.Pos(fn.Pos()), "no return is reached exactly when usage >= limit and policy == noeviction: the refusal path is missing or its condition changed")
	}
	// all or nothing: the refusal is decided before the first entry of the call is written (a multi-key
	// write that is refused half-way leaves a part of it stored - which part depends on map iteration
	// order, so replicas applying the same command diverge)
	{
		const WROTE world.Facts = 1
		genW := func(in ssa.Instruction) world.Facts {
			if mu, ok := in.(*ssa.MapUpdate); ok && onPath(mu.Map, pStore) {
				if _, inner := mu.Map.(*ssa.Lookup); inner {
					return WROTE
				}
			}
			return 0
		}
		may := world.May(fn, nil, genW, nil)
		key := fname + "|refusal-before-first-write"
		bad := false
		for _, ret := range world.Returns(fn) {
			f := world.FactsAt(must, ret, nil, nil)
			if f&OVER != 0 && f&NOEV != 0 && world.FactsAt(may, ret, genW, nil)&WROTE != 0 {
				bad = true
				r.Fail(key, w.InstrPos(ret), "the max-memory refusal can be reached after entries of the same call have already been written: a refused multi-key write (MSET, restore of several keys) is applied in part, and which part depends on map iteration order - the command reports an error although it changed the dataset, and raft replicas applying the same entry end up with different keys")
			}
		}
		if !bad && found {
			r.OK(key, w.Pos(fn.Pos()), "the refusal return is unreachable once an entry has been written")
		}
	}
	// the predicate itself: true exactly for (limit != 0 and usage >= limit)
	pf := adm.Call.StaticCallee()
	if pf == nil || pf.Blocks == nil || len(pf.Params) != 2 {
		r.Und(fname+"|admission-predicate", w.InstrPos(adm), "admission predicate is not a static two-parameter function")
		return
	}
	isA := func(v ssa.Value) bool { return v == ssa.Value(pf.Params[0]) }
	isB := func(v ssa.Value) bool { return v == ssa.Value(pf.Params[1]) }
	for _, zero := range []bool{true, false} {
		for _, rel := range []string{"<", "=", ">"} {
			if zero && rel != ">" {
				// limit == 0 and usage >= 0: only "usage > limit" / "=" are meaningful; cover "=" and ">"
				if rel == "<" {
					continue
				}
			}
			decide := func(cond ssa.Value) int {
				// limit == 0 test
				if b, ok := cond.(*ssa.BinOp); ok && (b.Op == token.EQL || b.Op == token.NEQ) {
					if (isB(b.X) && isZeroish(b.Y)) || (isB(b.Y) && isZeroish(b.X)) {
						holds := (b.Op == token.EQL) == zero
						if holds {
							return 0
						}
						return 1
					}
				}
				return decideCmp(cond, isA, isB, rel)
			}
			rets := walkCFG(pf, decide, nil)
			want := !zero && rel != "<"
			key := fmt.Sprintf("%s|limit-zero=%v|usage%slimit", world.FuncName(pf), zero, rel)
			okAll := len(rets) > 0
			var got []string
			for _, ret := range rets {
				rv := world.RetVals(ret)
				if b, isConst := world.ConstBool(rv[0]); isConst {
					got = append(got, fmt.Sprint(b))
					if b != want {
						okAll = false
					}
				} else {
					// non-constant return: evaluate the comparison it returns
					d := decide(rv[0])
					if d == -1 {
						okAll = false
						got = append(got, "?")
					} else {
						got = append(got, fmt.Sprint(d == 0))
						if (d == 0) != want {
							okAll = false
						}
					}
				}
			}
			if okAll {
				r.OK(key, w.Pos(pf.Pos()), fmt.Sprintf("predicate evaluates to %v", want))
			} else {
				r.Fail(key, w.Pos(pf.Pos()), fmt.Sprintf("the admission predicate %s evaluates to %v for limit==0:%v, usage %s limit; it must be %v (exceeded exactly when a limit is configured and usage is at or above it)", world.FuncName(pf), got, zero, rel, want))
			}
		}
	}
}

// ---- A2 ----

func ruleA2(w *world.World, r *report.RuleResult) {
	fn := w.Func("sugardb.(*SugarDB).adjustMemoryUsage")
	if fn == nil {
		r.Err = fmt.Errorf("adjustMemoryUsage not found")
		return
	}
	fname := world.FuncName(fn)
	const OVER world.Facts = 1
	// edge where usage >= limit: false edge of (mem < max), true edge of (mem >= max) ...
	overEdge := func(b *ssa.BasicBlock, si int) bool {
		iff := world.IfOf(b)
		if iff == nil {
			return false
		}
		bo, ok := memLimitCmp(world.CondValue(iff))
		if !ok {
			return false
		}
		isMem := func(v ssa.Value) bool { fa, ok := v.(*ssa.FieldAddr); return ok && world.FieldName(fa) == "memUsed" }
		isMax := func(v ssa.Value) bool { fa, ok := v.(*ssa.FieldAddr); return ok && world.FieldName(fa) == "MaxMemory" }
		for _, rel := range []string{"<"} {
			d := decideCmp(world.CondValue(iff), isMem, isMax, rel)
			_ = bo
			// under usage<limit the edge taken is d; the OTHER edge is the usage>=limit edge
			if d != -1 && si != d {
				// make sure "=" and ">" both take this edge
				if decideCmp(world.CondValue(iff), isMem, isMax, "=") == si && decideCmp(world.CondValue(iff), isMem, isMax, ">") == si {
					return true
				}
			}
		}
		return false
	}
	overGen := func(b *ssa.BasicBlock, si int) world.Facts {
		if overEdge(b, si) {
			return OVER
		}
		return 0
	}
	// what was established about usage holds until something that can change the counter runs
	writesMem := map[*ssa.Function]bool{}
	mayWriteMem := func(f *ssa.Function) bool {
		if v, ok := writesMem[f]; ok {
			return v
		}
		writesMem[f] = false
		res := false
		for _, g := range w.ReachCalls(f).Fns {
			for _, b := range g.Blocks {
				for _, in := range b.Instrs {
					if st, ok := in.(*ssa.Store); ok {
						if fa, ok := st.Addr.(*ssa.FieldAddr); ok && world.FieldName(fa) == "memUsed" {
							res = true
						}
					}
				}
			}
		}
		writesMem[f] = res
		return res
	}
	kill := func(in ssa.Instruction) world.Facts {
		c, ok := in.(ssa.CallInstruction)
		if !ok {
			return 0
		}
		if _, isB := c.Common().Value.(*ssa.Builtin); isB {
			return 0
		}
		for _, g := range w.Callees(c) {
			if world.InModule(g) && mayWriteMem(g) {
				return OVER
			}
		}
		return 0
	}
	// the guard may live in the callers (hoisted out of this function): the fact holds on entry when
	// every static call site establishes it
	entry := world.Facts(0)
	nSites := 0
	for _, cf := range w.ModFns {
		for _, c := range world.Calls(cf) {
			if c.Common().StaticCallee() != fn {
				continue
			}
			cm := world.Must(cf, overGen, nil, kill)
			f := world.FactsAt(cm, c, nil, kill)
			if nSites == 0 {
				entry = f
			} else {
				entry &= f
			}
			nSites++
		}
	}
	must := world.MustFrom(fn, entry&OVER, overGen, nil, kill)
	isGuard := func(b *ssa.BasicBlock) bool {
		iff := world.IfOf(b)
		if iff == nil {
			return false
		}
		_, ok := memLimitCmp(world.CondValue(iff))
		return ok
	}
	n := 0
	for _, b := range fn.Blocks {
		for _, in := range b.Instrs {
			c, ok := in.(ssa.CallInstruction)
			if !ok {
				continue
			}
			name, isDel := isDeleter(w, c)
			if !isDel {
				continue
			}
			n++
			key := fmt.Sprintf("%s|evict:%s", fname, name)
			if world.FactsAt(must, in, nil, kill)&OVER == 0 {
				r.Fail(key, w.InstrPos(in), "an eviction is reachable although usage has not been established to be at or above the limit: keys are removed while the server is under its memory limit")
				continue
			}
			// cycle through this deletion without a limit re-test
			seen := map[*ssa.BasicBlock]bool{}
			var reach func(x *ssa.BasicBlock) bool
			reach = func(x *ssa.BasicBlock) bool {
				for _, s := range x.Succs {
					if s == b {
						return true
					}
					if seen[s] || isGuard(s) {
						continue
					}
					seen[s] = true
					if reach(s) {
						return true
					}
				}
				return false
			}
			if isGuard(b) || !reach(b) {
				r.OK(key, w.InstrPos(in), "eviction only at/above the limit; every loop iteration re-tests the limit before the next eviction")
			} else {
				r.Fail(key, w.InstrPos(in), "the eviction loop can run again without re-testing usage against the limit: eviction continues after usage is back under the limit")
			}
		}
	}
	if n == 0 {
		r.Fail(fname+"|evict", w.Pos(fn.Pos()), "adjustMemoryUsage no longer evicts anything")
	}
}

// ---- A3 ----

func ruleA3(w *world.World, r *report.RuleResult) {
	const NONZERO world.Facts = 1
	isDeadlineValue := func(v ssa.Value) bool {
		if p, ok := v.(*ssa.Parameter); ok && isTimeType(p.Type()) {
			return true
		}
		return isExpireAtField(v)
	}
	// a bool parameter that every call site binds to "the deadline is non-zero" (the test was made
	// by the caller and handed to a helper): true = has a deadline
	flagMemo := map[*ssa.Parameter]int{} // 1 = non-zero flag, 2 = zero flag, -1 = neither
	deadlineFlag := func(p *ssa.Parameter) int {
		if v, ok := flagMemo[p]; ok {
			return v
		}
		flagMemo[p] = -1
		fn := p.Parent()
		if fn == nil || !types.Identical(p.Type().Underlying(), types.Typ[types.Bool]) {
			return -1
		}
		pi := -1
		for i, q := range fn.Params {
			if q == p {
				pi = i
			}
		}
		kind, sites := 0, 0
		for _, caller := range w.ModFns {
			if strings.Contains(w.Pos(caller.Pos()), "_test.go") {
				continue
			}
			for _, c := range world.Calls(caller) {
				if c.Common().StaticCallee() != fn || pi >= len(c.Common().Args) {
					continue
				}
				sites++
				arg := c.Common().Args[pi]
				neg := false
				for {
					u, ok := arg.(*ssa.UnOp)
					if !ok || u.Op != token.NOT {
						break
					}
					arg, neg = u.X, !neg
				}
				v, trueIsZero, ok := zeroTimeTest(arg)
				if !ok || !derivesFrom(v, isDeadlineValue, 0) {
					return -1
				}
				k := 1
				if trueIsZero != neg {
					k = 2
				}
				if kind != 0 && kind != k {
					return -1
				}
				kind = k
			}
		}
		if sites == 0 || kind == 0 {
			return -1
		}
		flagMemo[p] = kind
		return kind
	}
	nonzeroGen := func(param func(ssa.Value) bool) world.EdgeGen {
		return func(b *ssa.BasicBlock, si int) world.Facts {
			iff := world.IfOf(b)
			if iff == nil {
				return 0
			}
			cv := world.CondValue(iff)
			if v, trueIsZero, ok := zeroTimeTest(cv); ok && derivesFrom(v, param, 0) {
				if (si == 0) != trueIsZero {
					return NONZERO
				}
			}
			neg := false
			for {
				u, ok := cv.(*ssa.UnOp)
				if !ok || u.Op != token.NOT {
					break
				}
				cv, neg = u.X, !neg
			}
			if p, ok := cv.(*ssa.Parameter); ok {
				switch deadlineFlag(p) {
				case 1:
					if (si == 0) != neg {
						return NONZERO
					}
				case 2:
					if (si == 0) == neg {
						return NONZERO
					}
				}
			}
			return 0
		}
	}
	// (1) every append to the volatile index
	n := 0
	for _, fn := range w.FuncsIn("sugardb") {
		for _, b := range fn.Blocks {
			for _, in := range b.Instrs {
				var val ssa.Value
				switch x := in.(type) {
				case *ssa.Store:
					if onPath(x.Addr, pVol) {
						val = x.Val
					}
				case *ssa.MapUpdate:
					if onPath(x.Map, pVol) {
						val = x.Value
					}
				}
				if val == nil {
					continue
				}
				c, ok := val.(*ssa.Call)
				if !ok {
					continue
				}
				if bi, ok := c.Call.Value.(*ssa.Builtin); !ok || bi.Name() != "append" {
					continue
				}
				n++
				key := world.FuncName(fn) + "|volatile-index-append"
				isDeadline := func(v ssa.Value) bool {
					if p, ok := v.(*ssa.Parameter); ok && isTimeType(p.Type()) {
						return true
					}
					return isExpireAtField(v)
				}
				must := world.Must(fn, nonzeroGen(isDeadline), nil, nil)
				if world.FactsAt(must, in, nil, nil)&NONZERO != 0 {
					r.OK(key, w.InstrPos(in), "key appended to the volatile-key index only on the non-zero-deadline edge")
				} else {
					r.Fail(key, w.InstrPos(in), "a key is appended to the volatile-key index without testing that its deadline is non-zero: keys without expiry (PERSIST, restore of non-volatile keys) become candidates of the volatile-* policies and are evicted")
				}
			}
		}
	}
	if n == 0 {
		r.Fail("volatile-index-append", "-", "no function appends to the volatile-key index: volatile policies have no candidates")
	}
	// (2) cache Update under a volatile policy
	fn := w.Func("sugardb.(*SugarDB).updateKeysInCache")
	if fn == nil {
		r.Und("updateKeysInCache|anchor", "-", "updateKeysInCache not found")
		return
	}
	const VOL world.Facts = 2
	gen := func(b *ssa.BasicBlock, si int) world.Facts {
		var f world.Facts
		f |= nonzeroGen(func(v ssa.Value) bool { return isExpireAtField(v) })(b, si)
		if iff := world.IfOf(b); iff != nil {
			if bo, ok := world.CondValue(iff).(*ssa.BinOp); ok && bo.Op == token.EQL && si == 0 {
				for _, v := range []ssa.Value{bo.X, bo.Y} {
					if s, ok := world.ConstString(v); ok && strings.HasPrefix(s, "volatile-") {
						f |= VOL
					}
				}
			}
		}
		return f
	}
	must := world.Must(fn, gen, nil, nil)
	m := 0
	for _, c := range world.Calls(fn) {
		f := c.Common().StaticCallee()
		if f == nil || world.BaseName(f) != "Update" || world.ShortPkg(world.PkgOf(f)) != "internal/eviction" {
			continue
		}
		facts := world.FactsAt(must, c, nil, nil)
		if facts&VOL == 0 {
			continue
		}
		m++
		key := world.FuncName(fn) + "|volatile-cache-update:" + world.FuncName(f)
		if facts&NONZERO != 0 {
			r.OK(key, w.InstrPos(c), "under a volatile-* policy the key enters the cache only with a non-zero deadline")
		} else {
			r.Fail(key, w.InstrPos(c), "under a volatile-* policy a key is put into the eviction cache without testing that it has a deadline: keys without expiry can be evicted")
		}
	}
	if m == 0 {
		r.Fail(world.FuncName(fn)+"|volatile-cache-update", w.Pos(fn.Pos()), "no cache update is reached under a volatile-* policy case")
	}
}

// ---- IA ----

func ruleIA(w *world.World, r *report.RuleResult) {
	for _, fn := range w.ModFns {
		for _, c := range world.Calls(fn) {
			call, ok := c.(*ssa.Call)
			if !ok {
				continue
			}
			f := call.Call.StaticCallee()
			if f == nil || (f.String() != "math/rand.Intn" && f.String() != "math/rand/v2.IntN") {
				continue
			}
			lc, ok := call.Call.Args[0].(*ssa.Call)
			if !ok {
				continue
			}
			if bi, ok := lc.Call.Value.(*ssa.Builtin); !ok || bi.Name() != "len" {
				continue
			}
			src := lc.Call.Args[0]
			var uses []ssa.Value
			var follow func(v ssa.Value, d int)
			follow = func(v ssa.Value, d int) {
				if d > 4 || v.Referrers() == nil {
					return
				}
				for _, ref := range *v.Referrers() {
					switch x := ref.(type) {
					case *ssa.IndexAddr:
						if x.Index == v {
							uses = append(uses, x.X)
						}
					case *ssa.Index:
						if x.Index == v {
							uses = append(uses, x.X)
						}
					case *ssa.Phi:
						follow(x, d+1)
					case *ssa.Store:
						if al, ok := x.Addr.(*ssa.Alloc); ok && x.Val == v {
							for _, r2 := range *al.Referrers() {
								if u, ok := r2.(*ssa.UnOp); ok {
									follow(u, d+1)
								}
							}
						}
					}
				}
			}
			follow(call, 0)
			for i, u := range uses {
				key := fmt.Sprintf("%s|intn-index#%d", world.FuncName(fn), i+1)
				if world.SameExpr(u, src) || (lockset.Path(u) != "" && lockset.Path(u) == lockset.Path(src) && sameIndexDepth(u, src)) {
					r.OK(key, w.InstrPos(call), "random index applied to the collection whose length bounded it")
				} else {
					r.Fail(key, w.InstrPos(call), fmt.Sprintf("rand.Intn(len(%s)) is used to index %s: the bound comes from a different collection (index out of range, or only a prefix is ever drawn; Intn(0) panics when the bounding collection is empty)", exprString(src), exprString(u)))
				}
			}
		}
	}
}

func sameIndexDepth(a, b ssa.Value) bool {
	depth := func(v ssa.Value) int {
		n := 0
		for i := 0; i < 20; i++ {
			switch x := v.(type) {
			case *ssa.Lookup:
				n++
				v = x.X
			case *ssa.IndexAddr:
				n++
				v = x.X
			case *ssa.UnOp:
				v = x.X
			default:
				return n
			}
		}
		return n
	}
	return depth(a) == depth(b)
}

// ---- PD ----

func rulePD(w *world.World, r *report.RuleResult) {
	structs := []string{pStore, pVol, pLFU, pLRU}
	// the set of per-database structures is derived from the SugarDB type: fields of type map[int]...
	derived := perDatabaseFields(w)
	sort.Strings(derived)
	want := append([]string{}, structs...)
	sort.Strings(want)
	if strings.Join(derived, ",") != strings.Join(want, ",") {
		r.Und("per-database-structures", "-", fmt.Sprintf("the SugarDB type now has per-database (map[int]...) structures %v; the rule knows %v: re-confirm the maintenance functions", derived, want))
	}
	touch := func(fn *ssa.Function, depth int, seen map[*ssa.Function]bool, out map[string]bool) {}
	var walk func(fn *ssa.Function, depth int, seen map[*ssa.Function]bool, out map[string]bool, writeOnly bool)
	walk = func(fn *ssa.Function, depth int, seen map[*ssa.Function]bool, out map[string]bool, writeOnly bool) {
		if fn == nil || seen[fn] || depth > 2 || fn.Blocks == nil {
			return
		}
		seen[fn] = true
		for _, b := range fn.Blocks {
			for _, in := range b.Instrs {
				mark := func(v ssa.Value) {
					p := lockset.Path(v)
					for _, s := range structs {
						if p == s || strings.HasPrefix(p, s+".") {
							out[s] = true
						}
					}
				}
				switch x := in.(type) {
				case *ssa.MapUpdate:
					mark(x.Map)
				case *ssa.Store:
					mark(x.Addr)
				case ssa.CallInstruction:
					com := x.Common()
					if bi, ok := com.Value.(*ssa.Builtin); ok && (bi.Name() == "delete" || bi.Name() == "clear") {
						mark(com.Args[0])
					}
					if f := com.StaticCallee(); f != nil {
						// method on a per-database element: cache[db].Delete / Flush
						if len(com.Args) > 0 && f.Signature.Recv() != nil && world.ShortPkg(world.PkgOf(f)) == "internal/eviction" {
							switch world.BaseName(f) {
							case "Delete", "Flush":
								mark(com.Args[0])
							}
						}
						if world.ShortPkg(world.PkgOf(f)) == "sugardb" && world.InModule(f) {
							walk(f, depth+1, seen, out, writeOnly)
						}
					}
				}
			}
		}
	}
	_ = touch
	for _, it := range []struct{ fn, verb string }{
		{"sugardb.(*SugarDB).createDatabase", "initialises"},
		{"sugardb.(*SugarDB).deleteKey", "removes the key from"},
		{"sugardb.(*SugarDB).Flush", "empties"},
	} {
		fn := w.Func(it.fn)
		if fn == nil {
			r.Und(it.fn+"|anchor", "-", it.fn+" not found")
			continue
		}
		out := map[string]bool{}
		walk(fn, 0, map[*ssa.Function]bool{}, out, true)
		for _, s := range structs {
			key := it.fn + "|" + s
			if out[s] {
				r.OK(key, w.Pos(fn.Pos()), fmt.Sprintf("%s %s %s", fn.Name(), it.verb, s))
			} else {
				r.Fail(key, w.Pos(fn.Pos()), fmt.Sprintf("%s no longer %s %s: an evicted/deleted/flushed key leaves bookkeeping behind, or a new database lacks a structure (nil map / nil cache dereference)", fn.Name(), it.verb, s))
			}
		}
	}
	// cache Flush leaves an empty heap: `entries` is assigned a zero-length slice
	for _, name := range []string{"internal/eviction.(*CacheLFU).Flush", "internal/eviction.(*CacheLRU).Flush"} {
		fn := w.Func(name)
		if fn == nil {
			r.Und(name+"|anchor", "-", name+" not found")
			continue
		}
		okEmpty := false
		for _, b := range fn.Blocks {
			for _, in := range b.Instrs {
				st, ok := in.(*ssa.Store)
				if !ok {
					continue
				}
				fa, ok := st.Addr.(*ssa.FieldAddr)
				if !ok || world.FieldName(fa) != "entries" {
					continue
				}
				switch v := st.Val.(type) {
				case *ssa.Slice:
					if v.High != nil {
						if n, ok := world.ConstInt(v.High); ok && n == 0 {
							okEmpty = true
						}
					}
				case *ssa.MakeSlice:
					if n, ok := world.ConstInt(v.Len); ok && n == 0 {
						okEmpty = true
					}
				case *ssa.Const:
					if v.IsNil() {
						okEmpty = true
					}
				}
			}
		}
		key := name + "|heap-emptied"
		if okEmpty {
			r.OK(key, w.Pos(fn.Pos()), "Flush resets the heap slice to length 0")
		} else {
			r.Fail(key, w.Pos(fn.Pos()), "cache Flush does not reset the heap slice to length 0 (clear() on a slice only zeroes its elements and keeps its length): after FLUSHDB/FLUSHALL the heap holds nil entries and the next heap operation (Less/Swap during Update or eviction) dereferences nil")
		}
	}
}

func perDatabaseFields(w *world.World) []string {
	p := w.Pkg("sugardb")
	if p == nil {
		return nil
	}
	obj := p.Types.Scope().Lookup("SugarDB")
	if obj == nil {
		return nil
	}
	st, ok := obj.Type().Underlying().(*types.Struct)
	if !ok {
		return nil
	}
	var out []string
	var walk func(prefix string, st *types.Struct, d int)
	walk = func(prefix string, st *types.Struct, d int) {
		for i := 0; i < st.NumFields(); i++ {
			f := st.Field(i)
			switch t := f.Type().Underlying().(type) {
			case *types.Map:
				if b, ok := t.Key().Underlying().(*types.Basic); ok && b.Kind() == types.Int {
					out = append(out, prefix+"."+world.CanonField(f))
				}
			case *types.Struct:
				// nested struct values: anonymous, or a named type of this package (an anonymous
				// struct that was given a name)
				nt, named := f.Type().(*types.Named)
				if d < 3 && (!named || (nt.Obj().Pkg() == p.Types)) {
					walk(prefix+"."+world.CanonField(f), t, d+1)
				}
			}
		}
	}
	walk("sugardb.SugarDB", st, 0)
	return out
}

// ---- M1 / M2 ----

type memFn struct {
	fn                  *ssa.Function
	adds, subs          []ssa.Instruction
	updates, dels, clrs []ssa.Instruction
	neutral             int
}

func memEvents(w *world.World) map[*ssa.Function]*memFn {
	out := map[*ssa.Function]*memFn{}
	get := func(fn *ssa.Function) *memFn {
		m := out[fn]
		if m == nil {
			m = &memFn{fn: fn}
			out[fn] = m
		}
		return m
	}
	for _, fn := range w.FuncsIn("sugardb") {
		pos := w.Pos(fn.Pos())
		if strings.Contains(pos, "_test.go") {
			continue
		}
		for _, b := range fn.Blocks {
			for _, in := range b.Instrs {
				switch x := in.(type) {
				case *ssa.Store:
					if fa, ok := x.Addr.(*ssa.FieldAddr); ok && lockset.Path(fa) == pMem {
						if bo, ok := x.Val.(*ssa.BinOp); ok {
							switch bo.Op {
							case token.ADD:
								get(fn).adds = append(get(fn).adds, in)
							case token.SUB:
								get(fn).subs = append(get(fn).subs, in)
							}
						} else if _, isConst := x.Val.(*ssa.Const); isConst {
							// reset to a constant
							get(fn).subs = append(get(fn).subs, in)
						} else {
							get(fn).adds = append(get(fn).adds, in)
						}
					}
				case *ssa.MapUpdate:
					if onPath(x.Map, pStore) {
						if _, inner := x.Map.(*ssa.Lookup); inner {
							// entry write; size-neutral if the new entry's Value is the old entry's Value
							if keepsValue(x) {
								get(fn).neutral++
							} else {
								get(fn).updates = append(get(fn).updates, in)
							}
						}
					}
				case ssa.CallInstruction:
					if bi, ok := x.Common().Value.(*ssa.Builtin); ok && len(x.Common().Args) > 0 && onPath(x.Common().Args[0], pStore) {
						if _, inner := x.Common().Args[0].(*ssa.Lookup); inner {
							switch bi.Name() {
							case "delete":
								get(fn).dels = append(get(fn).dels, in)
							case "clear":
								get(fn).clrs = append(get(fn).clrs, in)
							}
						}
					}
				}
			}
		}
	}
	return out
}

// keepsValue: the KeyData written has its Value field loaded from the entry stored under the same key.
func keepsValue(mu *ssa.MapUpdate) bool {
	// value is a load of a local KeyData composite; find the store to its Value field
	u, ok := mu.Value.(*ssa.UnOp)
	if !ok {
		return false
	}
	al, ok := u.X.(*ssa.Alloc)
	if !ok {
		return false
	}
	// entry := store[db][key]; entry.ExpireAt = x; store[db][key] = entry - the local is a copy of the
	// stored entry and its Value field is never assigned
	{
		whole, valueAssigned := false, false
		for _, ref := range *al.Referrers() {
			switch x := ref.(type) {
			case *ssa.Store:
				if x.Addr == ssa.Value(al) {
					if fromStoreEntry(x.Val) {
						whole = true
					} else {
						valueAssigned = true
					}
				}
			case *ssa.FieldAddr:
				if world.FieldName(x) == "Value" && x.Referrers() != nil {
					for _, r2 := range *x.Referrers() {
						if _, ok := r2.(*ssa.Store); ok {
							valueAssigned = true
						}
					}
				}
			}
		}
		if whole && !valueAssigned {
			return true
		}
	}
	for _, ref := range *al.Referrers() {
		fa, ok := ref.(*ssa.FieldAddr)
		if !ok || world.FieldName(fa) != "Value" {
			continue
		}
		for _, r2 := range *fa.Referrers() {
			if st, ok := r2.(*ssa.Store); ok {
				return derivesFrom(st.Val, func(v ssa.Value) bool {
					f, ok := v.(*ssa.Field)
					if !ok {
						return false
					}
					stt, ok := f.X.Type().Underlying().(*types.Struct)
					return ok && world.CanonField(stt.Field(f.Field)) == "Value" && fromStoreEntry(f.X)
				}, 0)
			}
		}
	}
	return false
}

func ruleM1(w *world.World, r *report.RuleResult) {
	evs := memEvents(w)
	// helpers: functions all of whose callers are store-mutating functions
	for fn, m := range evs {
		if len(m.adds)+len(m.subs) == 0 {
			continue
		}
		if constructorPhase(fn) != "" {
			continue // initialisation of the counter in the constructor literal
		}
		key := world.FuncName(fn)
		mutates := len(m.updates)+len(m.dels)+len(m.clrs) > 0
		if mutates {
			r.OK(key, w.Pos(fn.Pos()), "writes the memory counter and mutates store entries in the same function")
			continue
		}
		// private helper called only from mutating functions
		okHelper := true
		callers := 0
		for _, g := range w.FuncsIn("sugardb") {
			for _, c := range world.Calls(g) {
				if c.Common().StaticCallee() == fn {
					callers++
					gm := evs[g]
					if gm == nil || len(gm.updates)+len(gm.dels)+len(gm.clrs) == 0 {
						okHelper = false
					}
				}
			}
		}
		if okHelper && callers > 0 {
			r.OK(key, w.Pos(fn.Pos()), "helper of the accounting: called only from functions that mutate store entries")
		} else {
			r.Fail(key, w.InstrPos(append(m.adds, m.subs...)[0]), fmt.Sprintf("%s changes the memory counter but does not add, replace, remove or clear a store entry: the reported usage no longer is a function of the dataset", key))
		}
	}
}

func ruleM2(w *world.World, r *report.RuleResult) {
	evs := memEvents(w)
	// transitive (depth 1) adds/subs through private helpers
	hasVia := func(fn *ssa.Function, sub bool) bool {
		m := evs[fn]
		if m != nil && ((sub && len(m.subs) > 0) || (!sub && len(m.adds) > 0)) {
			return true
		}
		for _, c := range world.Calls(fn) {
			if f := c.Common().StaticCallee(); f != nil {
				if cm := evs[f]; cm != nil && ((sub && len(cm.subs) > 0) || (!sub && len(cm.adds) > 0)) {
					return true
				}
			}
		}
		return false
	}
	var fns []*ssa.Function
	for fn := range evs {
		fns = append(fns, fn)
	}
	sort.Slice(fns, func(i, j int) bool { return world.FuncName(fns[i]) < world.FuncName(fns[j]) })
	for _, fn := range fns {
		m := evs[fn]
		name := world.FuncName(fn)
		if len(m.updates) > 0 {
			// path form: on every path to the entry write on which the key already existed, the old
			// entry's size has been subtracted
			if bad := replaceWithoutSubtract(fn, m, evs); bad != nil {
				r.Fail(name+"|replace-subtracts-on-every-path", w.InstrPos(bad), name+" can overwrite an existing entry on a path that did not subtract the size of the entry being replaced (the subtraction is conditional on something other than the entry's existence, e.g. on its deadline): the counter keeps the old entry's size for ever")
			} else {
				r.OK(name+"|replace-subtracts-on-every-path", w.InstrPos(m.updates[0]), "whenever the key already exists, the replaced entry's size is subtracted before the new entry is written")
			}
			// path form, other direction: once the old entry's size has been subtracted, the entry is
			// replaced (or removed) on every path to a return
			if len(m.subs) > 0 {
				if bad := subtractWithoutReplace(fn, m); bad != nil {
					r.Fail(name+"|subtract-then-replace", w.InstrPos(bad), name+" can return after it subtracted the size of the entry under a key but before that entry was replaced or removed: the entry stays in the store while the counter no longer includes it, so the reported usage falls below the dataset's size (and goes negative when the entry is deleted later)")
				} else {
					r.OK(name+"|subtract-then-replace", w.InstrPos(m.subs[0]), "every path from the subtraction of the old entry's size to a return replaces or removes that entry")
				}
			}
			key := name + "|add-or-replace"
			switch {
			case !hasVia(fn, false):
				r.Fail(key, w.InstrPos(m.updates[0]), name+" writes a store entry without adding its size to the memory counter")
			case !hasVia(fn, true):
				r.Fail(key, w.InstrPos(m.updates[0]), name+" can replace an existing store entry but never subtracts the size of the entry it replaces: every overwrite inflates the reported usage, which then depends on the history, not on the dataset")
			default:
				r.OK(key, w.InstrPos(m.updates[0]), "entry write paired with += new size and -= replaced size")
			}
		}
		if len(m.dels) > 0 {
			key := name + "|remove"
			if hasVia(fn, true) {
				r.OK(key, w.InstrPos(m.dels[0]), "entry removal paired with -= size")
			} else {
				r.Fail(key, w.InstrPos(m.dels[0]), name+" removes a store entry without subtracting its size from the memory counter")
			}
		}
		if len(m.dels) > 0 && len(m.subs) > 0 && len(m.updates) == 0 && len(m.clrs) == 0 {
			// path form: the counter is reduced only for an entry that is there
			key := name + "|remove-subtracts-only-existing"
			if bad := subtractWithoutEntry(fn, m); bad != nil {
				r.Fail(key, w.InstrPos(bad), name+" subtracts an entry's size (and its key's) from the memory counter without having established that the key is in the store: removing a key that is already gone (deleted by a concurrent command, or lazily expired between the caller's existence test and this call) reduces the counter again, so the reported usage falls below the dataset's size and depends on the history")
			} else {
				r.OK(key, w.InstrPos(m.subs[0]), "the counter is reduced only on the 'key is in the store' edge of the entry lookup")
			}
		}
		if len(m.clrs) > 0 {
			key := name + "|clear"
			if hasVia(fn, true) {
				r.OK(key, w.InstrPos(m.clrs[0]), "clearing a database paired with subtracting its entries' sizes")
			} else {
				r.Fail(key, w.InstrPos(m.clrs[0]), name+" clears a database without subtracting the sizes of its entries: after FLUSHDB/FLUSHALL the reported usage is not zero for an empty dataset")
			}
			// the subtraction is for the database that is cleared: when the sizes are released by a helper
			// taking the database index, that argument is the index of the store entry being cleared
			for i, clr := range m.clrs {
				lk, ok := clr.(ssa.CallInstruction).Common().Args[0].(*ssa.Lookup)
				if !ok {
					continue
				}
				var rel ssa.CallInstruction
				for _, c := range world.Calls(fn) {
					if f := c.Common().StaticCallee(); f != nil && f != fn {
						if cm := evs[f]; cm != nil && len(cm.subs) > 0 && len(cm.updates) == 0 && c.Block() == clr.Block() {
							rel = c
						}
					}
				}
				if rel == nil {
					continue
				}
				key := fmt.Sprintf("%s|clear-subtracts-same-database#%d", name, i+1)
				same := false
				for _, a := range rel.Common().Args {
					if b, ok := a.Type().Underlying().(*types.Basic); ok && b.Kind() == types.Int && (a == lk.Index || world.SameExpr(a, lk.Index)) {
						same = true
					}
				}
				if same {
					r.OK(key, w.InstrPos(rel), "the sizes released are those of the database whose store is cleared (same index value)")
				} else {
					r.Fail(key, w.InstrPos(rel), fmt.Sprintf("%s clears store[%s] but releases the accounted sizes of database %s: when the two differ (FLUSHALL passes -1 and loops over the databases) nothing is subtracted, the counter keeps the flushed keys' sizes for ever, and the max-memory tests then refuse writes or evict keys on a nearly empty server", name, exprString(lk.Index), func() string {
						for _, a := range rel.Common().Args {
							if b, ok := a.Type().Underlying().(*types.Basic); ok && b.Kind() == types.Int {
								return exprString(a)
							}
						}
						return "?"
					}()))
				}
			}
		}
		if m.neutral > 0 {
			// the rewrite keeps Value and may change every other field of the entry: it is size-neutral
			// only while the size function reads nothing but Value
			var other []string
			for _, f := range sizeFnReads(w) {
				if f != "Value" {
					other = append(other, f)
				}
			}
			if len(other) == 0 {
				r.OK(name+"|size-neutral-update", w.Pos(fn.Pos()), "entry rewritten with the same stored value (deadline change only) and the size function reads only Value: size-neutral")
			} else {
				r.Fail(name+"|size-neutral-update", w.Pos(fn.Pos()), fmt.Sprintf("%s rewrites a stored entry keeping its Value and does not adjust the memory counter, but the size function internal.(*KeyData).GetMem also depends on the entry's %s: an entry added with one size is later subtracted with another, so the counter drifts with the history and does not return to zero", name, strings.Join(other, ", ")))
			}
		}
	}
}

// sizeFnReads: the fields of the stored entry whose value the size function reads (on its receiver,
// directly or in module functions the receiver is handed to). unsafe.Sizeof(k.F) is a constant and
// reads nothing.
func sizeFnReads(w *world.World) []string {
	gm := w.Func("internal.(*KeyData).GetMem")
	if gm == nil || len(gm.Params) == 0 {
		return []string{"?"}
	}
	set := map[string]bool{}
	seen := map[ssa.Value]bool{}
	var visit func(v ssa.Value, depth int)
	visit = func(v ssa.Value, depth int) {
		if v == nil || seen[v] || depth > 4 || v.Referrers() == nil {
			return
		}
		seen[v] = true
		for _, ref := range *v.Referrers() {
			switch x := ref.(type) {
			case *ssa.FieldAddr:
				if x.X == v && x.Referrers() != nil {
					for _, r2 := range *x.Referrers() {
						if st, ok := r2.(*ssa.Store); ok && st.Addr == ssa.Value(x) {
							continue
						}
						set[world.FieldName(x)] = true
					}
				}
			case *ssa.Field:
				if st, ok := x.X.Type().Underlying().(*types.Struct); ok && x.X == v {
					set[world.CanonField(st.Field(x.Field))] = true
				}
			case *ssa.UnOp:
				if x.Op == token.MUL && x.X == v {
					visit(x, depth) // whole-struct copy
				}
			case *ssa.Phi:
				visit(x, depth)
			case ssa.CallInstruction:
				if f := x.Common().StaticCallee(); f != nil && world.InModule(f) && f.Blocks != nil {
					args := x.Common().Args
					for i, a := range args {
						if a == v && i < len(f.Params) {
							visit(f.Params[i], depth+1)
						}
					}
				}
			}
		}
	}
	visit(gm.Params[0], 0)
	var out []string
	for f := range set {
		out = append(out, f)
	}
	sort.Strings(out)
	return out
}

// ---- NM ----

func ruleNM(w *world.World, r *report.RuleResult) {
	for _, fn := range w.ModFns {
		if strings.Contains(w.Pos(fn.Pos()), "_test.go") {
			continue
		}
		n := 0
		for _, b := range fn.Blocks {
			for _, in := range b.Instrs {
				mu, ok := in.(*ssa.MapUpdate)
				if !ok {
					continue
				}
				lk, ok := mu.Map.(*ssa.Lookup)
				if !ok {
					continue
				}
				mk, ok := lk.X.(*ssa.MakeMap)
				if !ok {
					continue
				}
				n++
				init := false
				for _, ref := range *mk.Referrers() {
					if mu2, ok := ref.(*ssa.MapUpdate); ok && mu2.Map == ssa.Value(mk) && world.Dominates(mu2, mu) {
						init = true
					}
				}
				key := fmt.Sprintf("%s|inner-map-write#%d", world.FuncName(fn), n)
				if init {
					r.OK(key, w.InstrPos(mu), "inner map created before it is written")
				} else {
					r.Fail(key, w.InstrPos(mu), "m[k1][k2] = v on a map made in this function with no dominating m[k1] = make(...): assignment to entry in nil map (panic) as soon as there is one element")
				}
			}
		}
	}
}

// subtractWithoutReplace: a return reachable after a subtraction with no entry write / removal in
// between. Returns the offending return or nil.
func subtractWithoutReplace(fn *ssa.Function, m *memFn) ssa.Instruction {
	const PENDING world.Facts = 1
	subs := map[ssa.Instruction]bool{}
	for _, s := range m.subs {
		subs[s] = true
	}
	done := map[ssa.Instruction]bool{}
	for _, l := range [][]ssa.Instruction{m.updates, m.dels, m.clrs} {
		for _, u := range l {
			done[u] = true
		}
	}
	gen := func(in ssa.Instruction) world.Facts {
		if subs[in] {
			return PENDING
		}
		return 0
	}
	kill := func(in ssa.Instruction) world.Facts {
		if done[in] {
			return PENDING
		}
		return 0
	}
	may := world.May(fn, nil, gen, kill)
	for _, ret := range world.Returns(fn) {
		if world.FactsAt(may, ret, gen, kill)&PENDING != 0 {
			return ret
		}
	}
	return nil
}

// subtractWithoutEntry: a subtraction from the memory counter reachable without passing the
// "key exists" edge of a comma-ok store lookup. Returns the offending subtraction or nil.
func subtractWithoutEntry(fn *ssa.Function, m *memFn) ssa.Instruction {
	const EX world.Facts = 1
	eg := func(b *ssa.BasicBlock, si int) world.Facts {
		iff := world.IfOf(b)
		if iff == nil {
			return 0
		}
		c := world.CondValue(iff)
		neg := false
		if u, ok := c.(*ssa.UnOp); ok && u.Op.String() == "!" {
			c, neg = u.X, true
		}
		if ex, ok := c.(*ssa.Extract); ok && ex.Index == 1 && isStoreEntryRead(ex.Tuple) {
			if (si == 0) != neg {
				return EX
			}
		}
		return 0
	}
	must := world.Must(fn, eg, nil, nil)
	for _, sub := range m.subs {
		if world.FactsAt(must, sub, nil, nil)&EX == 0 {
			return sub
		}
	}
	return nil
}

// replaceWithoutSubtract: an entry write reachable over the "key exists" edge of a store lookup
// without passing a subtraction from the memory counter. Returns the offending write or nil.
func replaceWithoutSubtract(fn *ssa.Function, m *memFn, evs map[*ssa.Function]*memFn) ssa.Instruction {
	const ACC world.Facts = 1 // accounted: key absent, or old size subtracted
	subs := map[ssa.Instruction]bool{}
	for _, s := range m.subs {
		subs[s] = true
	}
	// a call of a function that removes an entry and subtracts its size (deleteKey) accounts for the old entry
	for _, c := range world.Calls(fn) {
		if f := c.Common().StaticCallee(); f != nil && f != fn {
			if cm := evs[f]; cm != nil && len(cm.subs) > 0 && len(cm.dels) > 0 {
				subs[c] = true
			}
		}
	}
	isExistsTest := func(cond ssa.Value) bool {
		ex, ok := cond.(*ssa.Extract)
		if !ok || ex.Index != 1 {
			return false
		}
		return isStoreEntryRead(ex.Tuple)
	}
	hasTest := false
	eg := func(b *ssa.BasicBlock, si int) world.Facts {
		iff := world.IfOf(b)
		if iff == nil {
			return 0
		}
		c := world.CondValue(iff)
		neg := false
		if u, ok := c.(*ssa.UnOp); ok && u.Op.String() == "!" {
			c, neg = u.X, true
		}
		if isExistsTest(c) {
			hasTest = true
			if (si == 1) != neg { // key absent edge
				return ACC
			}
		}
		// the size of the old entry could not be computed (GetMem error): it was never accounted
		if world.ErrNilEdge(b, func(v ssa.Value) bool {
			call, ok := v.(*ssa.Call)
			if !ok {
				return false
			}
			f := call.Call.StaticCallee()
			return f != nil && world.BaseName(f) == "GetMem" && len(call.Call.Args) > 0 && fromStoreEntry(call.Call.Args[0])
		}) == 1-si {
			return ACC
		}
		return 0
	}
	gen := func(in ssa.Instruction) world.Facts {
		if subs[in] {
			return ACC
		}
		return 0
	}
	// the fact must not survive into the next loop iteration: kill at the exists test's lookup
	kill := func(in ssa.Instruction) world.Facts {
		if v, ok := in.(ssa.Value); ok && isStoreEntryRead(v) {
			return ACC
		}
		return 0
	}
	must := world.Must(fn, eg, gen, kill)
	if !hasTest {
		return nil
	}
	for _, u := range m.updates {
		if world.FactsAt(must, u, gen, kill)&ACC == 0 {
			return u
		}
	}
	return nil
}

// ---- KB ----

// ruleKB: an overwrite keeps the key's eviction bookkeeping (access count / recency). The write
// primitives must not, on their own (synchronous, non-goroutine) path, call a function that removes
// store entries or removes a key from an eviction cache.
func ruleKB(w *world.World, r *report.RuleResult) {
	evs := memEvents(w)
	removes := func(f *ssa.Function) string {
		if f == nil {
			return ""
		}
		if m := evs[f]; m != nil && len(m.dels) > 0 {
			return "removes store entries"
		}
		if f.Signature.Recv() != nil && world.BaseName(f) == "Delete" && strings.Contains(f.Signature.Recv().Type().String(), "internal/eviction.Cache") {
			return "removes the key from an eviction cache"
		}
		if s := f.String(); s == "container/heap.Remove" || s == "container/heap.Pop" {
			return "removes an entry from a cache heap"
		}
		return ""
	}
	for _, field := range []string{"SetValues", "SetExpiry"} {
		fn := w.Binding().Field[field]
		if fn == nil {
			r.Fail("binding|"+field, "", "keyspace primitive "+field+" not found in the HandlerFuncParams binding")
			continue
		}
		name := world.FuncName(fn)
		key := name + "|keeps-bookkeeping"
		var bad []string
		seen := map[*ssa.Function]bool{}
		var walk func(f *ssa.Function, depth int, chain string)
		walk = func(f *ssa.Function, depth int, chain string) {
			if seen[f] || depth > 2 {
				return
			}
			seen[f] = true
			for _, c := range world.Calls(f) {
				if _, isGo := c.(*ssa.Go); isGo {
					continue // the asynchronous cache update / eviction pass is a different concern (A2)
				}
				g := c.Common().StaticCallee()
				if g == nil {
					continue
				}
				if why := removes(g); why != "" {
					// removing an entry whose deadline has passed is expiry, not an overwrite of a live key
					if expiredAt(w, f, c) {
						continue
					}
					bad = append(bad, fmt.Sprintf("%s%s at %s (%s)", chain, world.FuncName(g), w.InstrPos(c), why))
					continue
				}
				if world.InModule(g) && g.Blocks != nil && world.ShortPkg(world.PkgOf(g)) == "sugardb" {
					walk(g, depth+1, chain+world.FuncName(g)+" -> ")
				}
			}
		}
		walk(fn, 0, "")
		if len(bad) > 0 {
			r.Fail(key, w.Pos(fn.Pos()), fmt.Sprintf("%s calls %s: overwriting (or re-dating) a key that stays in the dataset drops its access count / recency and its volatile-index entry, so LFU/LRU evict it as if it were new and the policy's order is lost", name, strings.Join(bad, "; ")))
		} else {
			r.OK(key, w.Pos(fn.Pos()), "no synchronous call from the write primitive removes store entries or cache entries")
		}
	}
}


// expiredAt: the instruction is reached only over the "deadline has passed" edge of an expiry test.
func expiredAt(w *world.World, fn *ssa.Function, in ssa.Instruction) bool {
	ec := expiryOf(w)
	must := world.Must(fn, ec.edgeGen(fn, nil), nil, nil)
	return world.FactsAt(must, in, nil, nil)&factExpired != 0
}
