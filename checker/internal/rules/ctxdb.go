package rules

import (
	"fmt"
	"go/token"
	"go/types"
	"sort"
	"strings"

	"golang.org/x/tools/go/ssa"

	"svcheck/internal/lockset"
	"svcheck/internal/report"
	"svcheck/internal/world"
)

func init() {
	register("N1", 12, "request context keys: every read of ctx.Value(\"Database\") / ctx.Value(\"Protocol\") in module code is reached only with contexts that definitely carry that key (must-analysis of context.WithValue chains over all call sites, through HandlerFuncParams.Context and the option callbacks); a comma-ok read whose ok is discarded counts as a hard read", ruleN1)
	register("N2", 30, "database indexing: every index into a per-database structure (store, volatile-key index, LFU/LRU cache maps) is the request's database (ctx.Value(\"Database\")), the range variable of a loop over a per-database map, or an int parameter", ruleN2)
	register("N3", 4, "database identity across layers: the replicated apply request carries the context's database; the raft FSM and the AOF replay rebuild the handler context from the request's / marker's database", ruleN3)
	register("DT", 50, "determinism of replicated commands: no Sync handler reaches a random source or a clock reading (each replica would compute its own value)", ruleDT)
}

type keyset map[string]bool // nil = TOP (unreached: all keys)

func ksInter(a, b keyset) keyset {
	if a == nil {
		return b
	}
	if b == nil {
		return a
	}
	c := keyset{}
	for k := range a {
		if b[k] {
			c[k] = true
		}
	}
	return c
}

func ksEq(a, b keyset) bool {
	if (a == nil) != (b == nil) || len(a) != len(b) {
		return false
	}
	for k := range a {
		if !b[k] {
			return false
		}
	}
	return true
}

func isCtxType(t types.Type) bool { return world.TypeIs(t, "context", "Context") }

type ctxAnalysis struct {
	w        *world.World
	param    map[*ssa.Parameter]keyset
	fv       map[*ssa.FreeVar]keyset
	fieldCtx keyset
	fieldSet bool
	// path refinement for the dispatcher: on the edges taken only when replay == true the incoming
	// context is the one passed by the callers that pass replay = true (the AOF replay callback)
	disp       *dispCtx
	replayKeys keyset
	replayMust map[*ssa.BasicBlock]world.Facts
	// helpers of the dispatcher that receive its replay flag / its incoming context unchanged
	replayP      map[*ssa.Parameter]bool
	ctxP         map[*ssa.Parameter]bool
	replayMustFn map[*ssa.Function]map[*ssa.BasicBlock]world.Facts
}

func (a *ctxAnalysis) isReplayP(v ssa.Value) bool {
	p, ok := v.(*ssa.Parameter)
	return ok && a.replayP[p]
}

func (a *ctxAnalysis) isCtxP(v ssa.Value) bool {
	p, ok := v.(*ssa.Parameter)
	return ok && a.ctxP[p]
}

func (a *ctxAnalysis) mustOf(fn *ssa.Function) map[*ssa.BasicBlock]world.Facts {
	if a.disp != nil && fn == a.disp.fn {
		return a.replayMust
	}
	if m, ok := a.replayMustFn[fn]; ok {
		return m
	}
	var m map[*ssa.BasicBlock]world.Facts
	for _, p := range fn.Params {
		if a.replayP[p] {
			m = world.Must(fn, a.replayEdgeGen, nil, nil)
			break
		}
	}
	a.replayMustFn[fn] = m
	return m
}

// bindHelperParams finds the parameters of module functions that every call site binds to the
// dispatcher's replay flag, respectively to its incoming context (a helper the dispatcher's
// context preparation was moved into).
func (a *ctxAnalysis) bindHelperParams() {
	a.replayP = map[*ssa.Parameter]bool{}
	a.ctxP = map[*ssa.Parameter]bool{}
	a.replayMustFn = map[*ssa.Function]map[*ssa.BasicBlock]world.Facts{}
	if a.disp == nil {
		return
	}
	a.replayP[a.disp.replay] = true
	a.ctxP[a.disp.ctxParam] = true
	sites := map[*ssa.Function][]ssa.CallInstruction{}
	for _, fn := range a.w.ModFns {
		for _, c := range world.Calls(fn) {
			if f := c.Common().StaticCallee(); f != nil && world.InModule(f) && f != a.disp.fn {
				sites[f] = append(sites[f], c)
			}
		}
	}
	for iter := 0; iter < 4; iter++ {
		changed := false
		for f, cs := range sites {
			for i, p := range f.Params {
				isBool := types.Identical(p.Type().Underlying(), types.Typ[types.Bool])
				if !isBool && !isCtxType(p.Type()) {
					continue
				}
				if a.replayP[p] || a.ctxP[p] {
					continue
				}
				all := true
				for _, c := range cs {
					args := c.Common().Args
					if i >= len(args) || (isBool && !a.isReplayP(args[i])) || (!isBool && !a.isCtxP(args[i])) {
						all = false
						break
					}
				}
				if all {
					if isBool {
						a.replayP[p] = true
					} else {
						a.ctxP[p] = true
					}
					changed = true
				}
			}
		}
		if !changed {
			break
		}
	}
}

// returnKeys: the keys every context returned by a module function definitely carries.
func (a *ctxAnalysis) returnKeys(f *ssa.Function, idx int, depth int) keyset {
	var ks keyset
	first := true
	must := a.mustOf(f)
	for _, ret := range world.Returns(f) {
		{
			b := ret.Block()
			if idx >= len(ret.Results) || b == f.Recover {
				continue
			}
			rv := world.RetVals(ret)[idx]
			k := a.keysOf(rv, depth+1)
			if a.isCtxP(rv) && must != nil && must[b]&factReplay != 0 {
				k = a.replayKeys
			}
			if first {
				ks, first = k, false
			} else {
				ks = ksInter(ks, k)
			}
		}
	}
	if first {
		return keyset{}
	}
	return ks
}

const factReplay world.Facts = 1 << 30

func (a *ctxAnalysis) replayEdgeGen(b *ssa.BasicBlock, si int) world.Facts {
	if a.disp == nil {
		return 0
	}
	iff := world.IfOf(b)
	if iff == nil {
		return 0
	}
	c := world.CondValue(iff)
	neg := false
	if u, ok := c.(*ssa.UnOp); ok && u.Op.String() == "!" {
		c, neg = u.X, true
	}
	if a.isReplayP(c) && (si == 0) != neg {
		return factReplay
	}
	return 0
}

// onReplayEdge: the phi edge i is taken only when replay == true.
func (a *ctxAnalysis) onReplayEdge(phi *ssa.Phi, i int) bool {
	if a.disp == nil {
		return false
	}
	must := a.mustOf(phi.Parent())
	if must == nil {
		return false
	}
	p := phi.Block().Preds[i]
	f := must[p]
	for si, sc := range p.Succs {
		if sc == phi.Block() {
			f |= a.replayEdgeGen(p, si)
		}
	}
	return f&factReplay != 0
}

var ctxMemo *ctxAnalysis

func (a *ctxAnalysis) keysOf(v ssa.Value, depth int) keyset {
	if depth > 30 {
		return keyset{}
	}
	switch x := v.(type) {
	case *ssa.Parameter:
		if ks, ok := a.param[x]; ok {
			return ks
		}
		return nil
	case *ssa.FreeVar:
		if ks, ok := a.fv[x]; ok {
			return ks
		}
		return keyset{}
	case *ssa.Call:
		if f := x.Call.StaticCallee(); f != nil {
			switch f.String() {
			case "context.WithValue":
				ks := a.keysOf(x.Call.Args[0], depth+1)
				if ks == nil {
					return nil
				}
				out := keyset{}
				for k := range ks {
					out[k] = true
				}
				if s, ok := world.ConstString(world.Unwrap(x.Call.Args[1])); ok {
					out[s] = true
				}
				return out
			case "context.Background", "context.TODO":
				return keyset{}
			case "context.WithCancel", "context.WithTimeout", "context.WithDeadline":
				return a.keysOf(x.Call.Args[0], depth+1)
			}
			if world.InModule(f) && f.Blocks != nil {
				res := f.Signature.Results()
				if res.Len() == 1 && isCtxType(res.At(0).Type()) {
					return a.returnKeys(f, 0, depth)
				}
			}
		}
		return keyset{}
	case *ssa.Extract:
		if c, ok := x.Tuple.(*ssa.Call); ok {
			if f := c.Call.StaticCallee(); f != nil && world.InModule(f) && f.Blocks != nil && isCtxType(x.Type()) {
				return a.returnKeys(f, x.Index, depth)
			}
		}
		return a.keysOf(x.Tuple, depth+1)
	case *ssa.Phi:
		var ks keyset
		first := true
		for i, e := range x.Edges {
			if e == v {
				continue
			}
			k := a.keysOf(e, depth+1)
			if a.disp != nil && a.isCtxP(e) && a.onReplayEdge(x, i) {
				k = a.replayKeys
			}
			if first {
				ks, first = k, false
			} else {
				ks = ksInter(ks, k)
			}
		}
		return ks
	case *ssa.UnOp:
		if x.Op == token.MUL {
			switch p := x.X.(type) {
			case *ssa.FieldAddr:
				if world.FieldName(p) == "Context" && world.TypeIs(p.X.Type(), "/internal", "HandlerFuncParams") {
					return a.fieldCtx
				}
				if world.FieldName(p) == "context" {
					return keyset{} // the server's base context
				}
			case *ssa.Alloc:
				var ks keyset
				first := true
				for _, ref := range *p.Referrers() {
					if st, ok := ref.(*ssa.Store); ok && st.Addr == ssa.Value(p) {
						k := a.keysOf(st.Val, depth+1)
						if first {
							ks, first = k, false
						} else {
							ks = ksInter(ks, k)
						}
					}
				}
				if first {
					return keyset{}
				}
				return ks
			case *ssa.FreeVar:
				return a.keysOf(p, depth+1)
			}
		}
		return keyset{}
	case *ssa.Field:
		if st, ok := x.X.Type().Underlying().(*types.Struct); ok && world.CanonField(st.Field(x.Field)) == "Context" && world.TypeIs(x.X.Type(), "/internal", "HandlerFuncParams") {
			return a.fieldCtx
		}
	}
	return keyset{}
}

func ctxOf(w *world.World) *ctxAnalysis {
	if ctxMemo != nil && ctxMemo.w == w {
		return ctxMemo
	}
	a := &ctxAnalysis{w: w, param: map[*ssa.Parameter]keyset{}, fv: map[*ssa.FreeVar]keyset{}}
	if d, err := getDisp(w); err == nil {
		a.disp = d
		a.bindHelperParams()
		a.replayMust = world.Must(d.fn, a.replayEdgeGen, nil, nil)
	}
	cg := w.VTA()
	skip := func(fn *ssa.Function) bool {
		p := w.Pos(fn.Pos())
		return strings.Contains(p, "_test.go") || strings.Contains(p, "test_helpers")
	}
	for iter := 0; iter < 25; iter++ {
		changed := false
		var nf keyset
		firstF := true
		for _, fn := range w.ModFns {
			if skip(fn) {
				continue
			}
			for _, b := range fn.Blocks {
				for _, in := range b.Instrs {
					switch x := in.(type) {
					case *ssa.Store:
						if fa, ok := x.Addr.(*ssa.FieldAddr); ok && world.FieldName(fa) == "Context" && world.TypeIs(fa.X.Type(), "/internal", "HandlerFuncParams") {
							k := a.keysOf(x.Val, 0)
							if firstF {
								nf, firstF = k, false
							} else {
								nf = ksInter(nf, k)
							}
						}
					case *ssa.MakeClosure:
						cf := x.Fn.(*ssa.Function)
						for i, bnd := range x.Bindings {
							if i < len(cf.FreeVars) {
								t := cf.FreeVars[i].Type()
								if isCtxType(t) {
									k := a.keysOf(bnd, 0)
									if old, ok := a.fv[cf.FreeVars[i]]; !ok || !ksEq(old, k) {
										a.fv[cf.FreeVars[i]] = k
										changed = true
									}
								} else if pt, ok := t.(*types.Pointer); ok && isCtxType(pt.Elem()) {
									// captured by reference: the variable's stores
									k := a.keysOf(&ssa.UnOp{Op: token.MUL, X: bnd}, 0)
									if old, ok := a.fv[cf.FreeVars[i]]; !ok || !ksEq(old, k) {
										a.fv[cf.FreeVars[i]] = k
										changed = true
									}
								}
							}
						}
					}
				}
			}
		}
		if !firstF && !ksEq(nf, a.fieldCtx) {
			a.fieldCtx = nf
			a.fieldSet = true
			changed = true
		}
		for fn, node := range cg.Nodes {
			if fn == nil || fn.Blocks == nil {
				continue
			}
			if !world.InModule(fn) && !strings.Contains(fn.String(), world.Mod) {
				continue
			}
			for i, p := range fn.Params {
				if !isCtxType(p.Type()) {
					continue
				}
				var ks keyset
				first := true
				for _, e := range node.In {
					if e.Site == nil {
						continue
					}
					caller := e.Caller.Func
					if caller == nil {
						continue
					}
					callerInMod := world.InModule(caller) || strings.Contains(caller.String(), world.Mod)
					if !callerInMod {
						ks, first = ksInter(ks, keyset{}), false
						if ks == nil {
							ks = keyset{}
						}
						continue
					}
					if skip(caller) {
						continue
					}
					args := e.Site.Common().Args
					idx := i
					if e.Site.Common().IsInvoke() {
						idx = i - 1
					}
					if idx < 0 || idx >= len(args) {
						continue
					}
					k := a.keysOf(args[idx], 0)
					if first {
						ks, first = k, false
					} else {
						ks = ksInter(ks, k)
					}
				}
				if first {
					continue
				}
				if old, ok := a.param[p]; !ok || !ksEq(old, ks) {
					a.param[p] = ks
					changed = true
				}
			}
		}
		// contexts passed by the callers that pass replay = true
		if a.disp != nil {
			var rk keyset
			first := true
			ridx, cidx := -1, -1
			for i, p := range a.disp.fn.Params {
				if p == a.disp.replay {
					ridx = i
				}
				if p == a.disp.ctxParam {
					cidx = i
				}
			}
			for _, fn := range w.ModFns {
				if skip(fn) {
					continue
				}
				for _, c := range world.Calls(fn) {
					if c.Common().StaticCallee() != a.disp.fn || ridx < 0 || cidx < 0 {
						continue
					}
					if v, ok := world.ConstBool(c.Common().Args[ridx]); ok && v {
						k := a.keysOf(c.Common().Args[cidx], 0)
						if first {
							rk, first = k, false
						} else {
							rk = ksInter(rk, k)
						}
					}
				}
			}
			if first {
				rk = keyset{}
			}
			if !ksEq(rk, a.replayKeys) {
				a.replayKeys = rk
				changed = true
			}
		}
		if !changed {
			break
		}
	}
	ctxMemo = a
	return a
}

func ruleN1(w *world.World, r *report.RuleResult) {
	a := ctxOf(w)
	for _, fn := range w.ModFns {
		pos := w.Pos(fn.Pos())
		if strings.Contains(pos, "_test.go") || strings.Contains(pos, "test_helpers") || strings.Contains(pos, "volumes/") {
			continue
		}
		for _, c := range world.Calls(fn) {
			call, ok := c.(*ssa.Call)
			if !ok || !call.Call.IsInvoke() || call.Call.Method.Name() != "Value" || !isCtxType(call.Call.Value.Type()) {
				continue
			}
			key, ok := world.ConstString(world.Unwrap(call.Call.Args[0]))
			if !ok || (key != "Database" && key != "Protocol") {
				continue
			}
			ks := a.keysOf(call.Call.Value, 0)
			has := ks == nil || ks[key]
			okUsed := false
			if refs := call.Referrers(); refs != nil {
				for _, ref := range *refs {
					if ta, ok := ref.(*ssa.TypeAssert); ok && ta.CommaOk && ta.Referrers() != nil {
						for _, r2 := range *ta.Referrers() {
							if ex, ok := r2.(*ssa.Extract); ok && ex.Index == 1 && ex.Referrers() != nil && len(*ex.Referrers()) > 0 {
								okUsed = true
							}
						}
					}
				}
			}
			obKey := fmt.Sprintf("%s|ctx.Value(%s)", world.FuncName(fn), key)
			var kk []string
			for k := range ks {
				kk = append(kk, k)
			}
			sort.Strings(kk)
			switch {
			case has:
				r.OK(obKey, w.InstrPos(call), fmt.Sprintf("every context reaching this read carries %q (must-keys %v)", key, kk))
			case okUsed:
				r.OK(obKey, w.InstrPos(call), "comma-ok read whose ok result is tested")
			default:
				r.Fail(obKey, w.InstrPos(call), fmt.Sprintf("ctx.Value(%q) is read here, but some call chain reaches this function with a context that never had %q put into it (must-keys on entry: %v): the single-value assertion panics, or the discarded comma-ok yields 0 — the command runs against database 0 / protocol 0 instead of the request's", key, key, kk))
			}
		}
	}
}

// ---- N6 ----

func init() {
	register("N6", 2, "a handler chooses the database it flushes from the request: the database argument of HandlerFuncParams.Flush is the value stored under \"Database\" in the request's context, or the constant -1 (all databases) - not the connection table (a replayed, embedded or replicated command has no connection entry and would hit database 0)", ruleN6)
}

func ruleN6(w *world.World, r *report.RuleResult) {
	cmds, err := w.Commands()
	if err != nil {
		r.Err = err
		return
	}
	hs, _ := handlersOf(cmds, nil)
	isDBRead := func(v ssa.Value) bool {
		_, ok := isCtxValueRead(v, "Database")
		return ok
	}
	n := 0
	for _, h := range hs {
		k := 0
		for _, f := range w.ReachFrom(h, false).Fns {
			if !world.InModule(f) || f.Blocks == nil {
				continue
			}
			for _, c := range world.Calls(f) {
				if world.AccessorCall(c) != "Flush" || len(c.Common().Args) != 1 {
					continue
				}
				n++
				k++
				key := fmt.Sprintf("%s|Flush-database#%d", world.FuncName(h), k)
				arg := c.Common().Args[0]
				if v, ok := world.ConstInt(arg); ok && v == -1 {
					r.OK(key, w.InstrPos(c), "flushes every database (constant -1)")
					continue
				}
				if derivesFromNoArith(arg, isDBRead) {
					r.OK(key, w.InstrPos(c), "flushes the database of the request's context")
					continue
				}
				r.Fail(key, w.InstrPos(c), fmt.Sprintf("%s flushes database %s, which is not the request context's \"Database\": for a command that has no connection entry (AOF replay, embedded caller, raft apply) a value taken from the connection table is the zero value, so FLUSHDB issued in database n empties database 0 after a restart and leaves database n's keys in place", world.FuncName(f), exprString(arg)))
			}
		}
	}
	if n == 0 {
		r.Fail("N6|anchor", "", "no handler calls HandlerFuncParams.Flush: the anchor of the rule is lost")
	}
}

// ---- N2 ----

// localSlice: the slice value is built in this function (make, literal, append, phi of those), not
// loaded from a field or a global.
func localSlice(v ssa.Value, d int) bool { return localSlice2(v, map[ssa.Value]bool{}) }

func localSlice2(v ssa.Value, seen map[ssa.Value]bool) bool {
	if seen[v] {
		return true // a cycle through loop phis adds no new origin
	}
	seen[v] = true
	switch x := v.(type) {
	case *ssa.MakeSlice:
		return true
	case *ssa.Slice:
		if _, ok := x.X.(*ssa.Alloc); ok {
			return true
		}
		return localSlice2(x.X, seen)
	case *ssa.Phi:
		for _, e := range x.Edges {
			if !localSlice2(e, seen) {
				return false
			}
		}
		return true
	case *ssa.Call:
		if bi, ok := x.Call.Value.(*ssa.Builtin); ok && bi.Name() == "append" && len(x.Call.Args) > 0 {
			return localSlice2(x.Call.Args[0], seen)
		}
	}
	return false
}

var perDBPaths = []string{pStore, pVol, pLFU, pLRU}

func isPerDBOuter(v ssa.Value) bool {
	m, ok := v.Type().Underlying().(*types.Map)
	if !ok {
		return false
	}
	b, ok := m.Key().Underlying().(*types.Basic)
	if !ok || b.Kind() != types.Int {
		return false
	}
	p := lockset.Path(v)
	for _, s := range perDBPaths {
		if p == s {
			return true
		}
	}
	return false
}

func ruleN2(w *world.World, r *report.RuleResult) {
	isDBRead := func(v ssa.Value) bool {
		_, ok := isCtxValueRead(v, "Database")
		return ok
	}
	isRangeKey := func(v ssa.Value) bool {
		ex, ok := v.(*ssa.Extract)
		if !ok || ex.Index != 1 {
			return false
		}
		nx, ok := ex.Tuple.(*ssa.Next)
		if !ok {
			return false
		}
		rg, ok := nx.Iter.(*ssa.Range)
		return ok && isPerDBOuter(rg.X)
	}
	classify := func(idx ssa.Value) (string, bool) {
		switch {
		case derivesFromNoArith(idx, isDBRead):
			return "the request's database (ctx.Value(\"Database\"))", true
		case derivesFromNoArith(idx, isRangeKey):
			return "range variable over a per-database map", true
		case derivesFromNoArith(idx, func(v ssa.Value) bool {
			p, ok := v.(*ssa.Parameter)
			if !ok {
				return false
			}
			b, ok := p.Type().Underlying().(*types.Basic)
			return ok && b.Kind() == types.Int
		}):
			return "int parameter (database chosen by the caller)", true
		case derivesFromNoArith(idx, func(v ssa.Value) bool {
			// element of a literal []int{database1, database2} built from parameters (SwapDBs)
			ex, ok := v.(*ssa.Extract)
			if !ok {
				return false
			}
			_, isNext := ex.Tuple.(*ssa.Next)
			return isNext
		}):
			return "element of a local list of databases", true
		case derivesFromNoArith(idx, func(v ssa.Value) bool {
			// for _, db := range databases - element of a local []int (built from the parameter and/or
			// the keys of a per-database map)
			u, ok := v.(*ssa.UnOp)
			if !ok || u.Op != token.MUL {
				return false
			}
			ia, ok := u.X.(*ssa.IndexAddr)
			if !ok {
				return false
			}
			sl, ok := ia.X.Type().Underlying().(*types.Slice)
			if !ok {
				return false
			}
			b, ok := sl.Elem().Underlying().(*types.Basic)
			if !ok || b.Kind() != types.Int {
				return false
			}
			return localSlice(ia.X, 0)
		}):
			return "element of a local list of databases", true
		}
		return "", false
	}
	for _, fn := range w.FuncsIn("sugardb") {
		pos := w.Pos(fn.Pos())
		if strings.Contains(pos, "_test.go") {
			continue
		}
		n := 0
		for _, b := range fn.Blocks {
			for _, in := range b.Instrs {
				var idx, base ssa.Value
				switch x := in.(type) {
				case *ssa.Lookup:
					idx, base = x.Index, x.X
				case *ssa.MapUpdate:
					idx, base = x.Key, x.Map
				case ssa.CallInstruction:
					if bi, ok := x.Common().Value.(*ssa.Builtin); ok && bi.Name() == "delete" && len(x.Common().Args) == 2 {
						idx, base = x.Common().Args[1], x.Common().Args[0]
					}
				}
				if base == nil || !isPerDBOuter(base) {
					continue
				}
				n++
				key := fmt.Sprintf("%s|%s[db]", world.FuncName(fn), strings.TrimPrefix(lockset.Path(base), "sugardb.SugarDB."))
				if how, ok := classify(idx); ok {
					r.OK(key, w.InstrPos(in), "indexed by "+how)
				} else {
					r.Fail(key, w.InstrPos(in), fmt.Sprintf("%s is indexed with %s, which is neither the request's database, a loop variable over the databases nor a parameter: the command reads or changes another logical database", lockset.Path(base), exprString(idx)))
				}
			}
		}
	}
}

// derivesFromNoArith: like derivesFrom but only through value-preserving operations
// (loads of locals, phis, type assertions, conversions) — arithmetic on a database index breaks identity.
func derivesFromNoArith(v ssa.Value, pred func(ssa.Value) bool) bool {
	seen := map[ssa.Value]bool{}
	var walk func(v ssa.Value, d int) bool
	walk = func(v ssa.Value, d int) bool {
		if v == nil || d > 12 || seen[v] {
			return false
		}
		seen[v] = true
		if pred(v) {
			return true
		}
		if f := world.Forward(v); f != v {
			return walk(f, d+1)
		}
		switch x := v.(type) {
		case *ssa.Phi:
			for _, e := range x.Edges {
				if !walk(e, d+1) {
					return false
				}
			}
			return len(x.Edges) > 0
		case *ssa.TypeAssert:
			return walk(x.X, d+1)
		case *ssa.Extract:
			if _, ok := x.Tuple.(*ssa.TypeAssert); ok {
				return walk(x.Tuple, d+1)
			}
		case *ssa.ChangeType:
			return walk(x.X, d+1)
		case *ssa.Convert:
			return walk(x.X, d+1)
		case *ssa.UnOp:
			if x.Op == token.MUL {
				// element of a local array literal ([]int{database1, database2}): every element stored must qualify
				if ia, ok := x.X.(*ssa.IndexAddr); ok {
					base := ia.X
					if sl, ok := base.(*ssa.Slice); ok {
						base = sl.X
					}
					if al, ok := base.(*ssa.Alloc); ok {
						any := false
						for _, ref := range *al.Referrers() {
							if ia2, ok := ref.(*ssa.IndexAddr); ok {
								for _, r2 := range *ia2.Referrers() {
									if st, ok := r2.(*ssa.Store); ok {
										if !walk(st.Val, d+1) {
											return false
										}
										any = true
									}
								}
							}
						}
						return any
					}
				}
				if al, ok := x.X.(*ssa.Alloc); ok {
					any := false
					for _, ref := range *al.Referrers() {
						if st, ok := ref.(*ssa.Store); ok && st.Addr == ssa.Value(al) {
							if !walk(st.Val, d+1) {
								return false
							}
							any = true
						}
					}
					return any
				}
				if fv, ok := x.X.(*ssa.FreeVar); ok {
					// a variable of the enclosing function captured by reference: every value stored
					// into it (in any function) must qualify
					al, ok := freeVarBinding(fv).(*ssa.Alloc)
					if !ok {
						return false
					}
					any := false
					for _, st := range storesThroughClosures(al) {
						if !walk(st.Val, d+1) {
							return false
						}
						any = true
					}
					return any
				}
			}
		case *ssa.FreeVar:
			// captured by value: the enclosing function's value at the closure's creation
			if bnd := freeVarBinding(x); bnd != nil {
				return walk(bnd, d+1)
			}
		}
		return false
	}
	return walk(v, 0)
}

// freeVarBinding: the value the enclosing function binds to a closure's free variable (nil when
// the closure is created at more than one place with different bindings).
func freeVarBinding(fv *ssa.FreeVar) ssa.Value {
	cf := fv.Parent()
	if cf == nil || cf.Parent() == nil {
		return nil
	}
	idx := -1
	for i, f := range cf.FreeVars {
		if f == fv {
			idx = i
		}
	}
	var out ssa.Value
	for _, b := range cf.Parent().Blocks {
		for _, in := range b.Instrs {
			mc, ok := in.(*ssa.MakeClosure)
			if !ok || mc.Fn != ssa.Value(cf) || idx < 0 || idx >= len(mc.Bindings) {
				continue
			}
			if out != nil && out != mc.Bindings[idx] {
				return nil
			}
			out = mc.Bindings[idx]
		}
	}
	return out
}

// storesThroughClosures: the stores into a local variable, in its function and in the closures
// that capture it by reference.
func storesThroughClosures(al *ssa.Alloc) []*ssa.Store {
	var out []*ssa.Store
	seen := map[ssa.Value]bool{}
	var visit func(addr ssa.Value)
	visit = func(addr ssa.Value) {
		if seen[addr] || addr.Referrers() == nil {
			return
		}
		seen[addr] = true
		for _, ref := range *addr.Referrers() {
			switch x := ref.(type) {
			case *ssa.Store:
				if x.Addr == addr {
					out = append(out, x)
				}
			case *ssa.MakeClosure:
				cf := x.Fn.(*ssa.Function)
				for i, bnd := range x.Bindings {
					if bnd == addr && i < len(cf.FreeVars) {
						visit(cf.FreeVars[i])
					}
				}
			}
		}
	}
	visit(al)
	return out
}

// ---- N3 ----

func ruleN3(w *world.World, r *report.RuleResult) {
	// (1) ApplyRequest literals in package sugardb: Database field from ctx.Value("Database")
	n := 0
	for _, fn := range w.FuncsIn("sugardb") {
		for _, b := range fn.Blocks {
			for _, in := range b.Instrs {
				st, ok := in.(*ssa.Store)
				if !ok {
					continue
				}
				fa, ok := st.Addr.(*ssa.FieldAddr)
				if !ok || world.FieldName(fa) != "Database" || !world.TypeIs(fa.X.Type(), "/internal", "ApplyRequest") {
					continue
				}
				n++
				key := world.FuncName(fn) + "|ApplyRequest.Database"
				if derivesFromNoArith(st.Val, func(v ssa.Value) bool { _, ok := isCtxValueRead(v, "Database"); return ok }) {
					r.OK(key, w.InstrPos(st), "replicated request carries ctx.Value(\"Database\")")
				} else {
					r.Fail(key, w.InstrPos(st), "the replicated apply request's Database is not taken from the request context: replicas apply the command to another database")
				}
			}
		}
	}
	if n == 0 {
		r.Fail("ApplyRequest.Database", "-", "no replicated request sets its Database field: every replicated command is applied to database 0")
	}
	// (1b) the dispatcher re-binds "Database"/"Protocol" from its connection tables only when the
	// request is not a replay: a replayed command carries its database in the caller's context
	if d, err := getDisp(w); err == nil {
		const NR world.Facts = 1
		must := world.Must(d.fn, func(b *ssa.BasicBlock, si int) world.Facts {
			iff := world.IfOf(b)
			if iff == nil {
				return 0
			}
			c := world.CondValue(iff)
			neg := false
			if u, ok := c.(*ssa.UnOp); ok && u.Op.String() == "!" {
				c, neg = u.X, true
			}
			if world.Forward(c) == ssa.Value(d.replay) && (si == 1) != neg {
				return NR
			}
			return 0
		}, nil, nil)
		k := 0
		for _, c := range world.Calls(d.fn) {
			f := c.Common().StaticCallee()
			if f == nil || f.String() != "context.WithValue" {
				continue
			}
			ks, ok := world.ConstString(world.Unwrap(c.Common().Args[1]))
			if !ok || ks != "Database" {
				continue
			}
			k++
			key := fmt.Sprintf("%s|rebinds-database-only-when-not-replaying#%d", world.FuncName(d.fn), k)
			if world.FactsAt(must, c, nil, nil)&NR != 0 {
				r.OK(key, w.InstrPos(c), "the request's database is (re)bound from the connection tables only on the replay==false edge")
			} else {
				r.Fail(key, w.InstrPos(c), "the dispatcher overwrites the context's \"Database\" with the connection table's value on a path that is also taken during AOF replay (conn == nil, replay == true): the database chosen by the log's SELECT marker is replaced by tcpClients[nil].Database = 0, so every replayed command lands in database 0")
			}
		}
	}
	// (2) FSM.Apply: context built with WithValue("Database", request.Database)
	fsm := w.Func("internal/raft.(*FSM).Apply")
	if fsm == nil {
		r.Und("fsm|anchor", "-", "raft FSM.Apply not found")
	} else {
		ok := false
		for _, c := range world.Calls(fsm) {
			if f := c.Common().StaticCallee(); f != nil && f.String() == "context.WithValue" {
				if k, isK := world.ConstString(world.Unwrap(c.Common().Args[1])); isK && k == "Database" {
					if derivesFrom(c.Common().Args[2], func(v ssa.Value) bool {
						fa, ok := v.(*ssa.FieldAddr)
						return ok && world.FieldName(fa) == "Database" && world.TypeIs(fa.X.Type(), "/internal", "ApplyRequest")
					}, 0) {
						ok = true
					}
				}
			}
		}
		key := world.FuncName(fsm) + "|context-database"
		if ok {
			r.OK(key, w.Pos(fsm.Pos()), "the FSM runs the handler with a context carrying request.Database")
		} else {
			r.Fail(key, w.Pos(fsm.Pos()), "the raft FSM does not put the request's Database into the handler's context: replicated commands run against the wrong database (or panic on the missing key)")
		}
	}
	// (3) AOF replay closure and restore closures: ctx "Database" = the callback's database parameter
	ctor := w.Func("sugardb.NewSugarDB")
	if ctor == nil {
		r.Und("NewSugarDB|anchor", "-", "NewSugarDB not found")
		return
	}
	for _, fn := range ctor.AnonFuncs {
		sig := fn.Signature
		if sig.Params().Len() == 2 && sig.Results().Len() == 0 {
			if b, ok := sig.Params().At(0).Type().Underlying().(*types.Basic); ok && b.Kind() == types.Int {
				if _, isSlice := sig.Params().At(1).Type().Underlying().(*types.Slice); isSlice {
					key := world.FuncName(fn) + "|replay-context-database"
					dbp := fn.Params[0]
					ok := false
					for _, c := range world.Calls(fn) {
						if f := c.Common().StaticCallee(); f != nil && f.String() == "context.WithValue" {
							if k, isK := world.ConstString(world.Unwrap(c.Common().Args[1])); isK && k == "Database" && derivesFromNoArith(world.Unwrap(c.Common().Args[2]), func(v ssa.Value) bool { return v == ssa.Value(dbp) }) {
								ok = true
							}
						}
					}
					if ok {
						r.OK(key, w.Pos(fn.Pos()), "AOF replay runs each command with the database of the last SELECT marker")
					} else {
						r.Fail(key, w.Pos(fn.Pos()), "the AOF replay callback does not run the command in the database passed by the log reader: every replayed command lands in one database")
					}
				}
			}
		}
	}
}

// ---- DT ----

func ruleDT(w *world.World, r *report.RuleResult) {
	cmds, err := w.Commands()
	if err != nil {
		r.Err = err
		return
	}
	for _, c := range world.Leaves(cmds) {
		if !c.Sync || c.Handler == nil {
			continue
		}
		reach := w.ReachFrom(c.Handler, false)
		var srcs []string
		var first ssa.Instruction
		for name, sites := range reach.External {
			nd := false
			switch {
			case strings.HasPrefix(name, "math/rand.") || strings.HasPrefix(name, "(*math/rand.") || strings.HasPrefix(name, "math/rand/v2.") || strings.HasPrefix(name, "crypto/rand."):
				nd = true
			case name == "time.Now":
				nd = true
			case strings.HasPrefix(name, "invoke ") && strings.HasSuffix(name, "Clock).Now"):
				nd = true
			case strings.HasSuffix(name, "clock.RealClock).Now") || strings.HasSuffix(name, "clock.MockClock).Now"):
				nd = false // counted through the interface invoke
			}
			if !nd {
				continue
			}
			for _, s := range sites {
				if name == "time.Now" && onlyFeedsConnDeadline(s) {
					continue
				}
				if world.ShortPkg(world.PkgOf(s.Parent())) == "internal/clock" {
					continue // the clock implementation itself; the handler's read is the Clock.Now invoke
				}
				srcs = append(srcs, fmt.Sprintf("%s at %s", strings.TrimPrefix(name, "invoke "), w.InstrPos(s)))
				if first == nil {
					first = s
				}
			}
		}
		sort.Strings(srcs)
		key := "entry:" + c.Name
		if len(srcs) == 0 {
			r.OK(key, w.Pos(c.Pos), "no path from the handler to a random source or a clock reading")
			continue
		}
		if len(srcs) > 3 {
			srcs = append(srcs[:3], fmt.Sprintf("… %d more", len(srcs)-3))
		}
		r.Fail(key, w.InstrPos(first), fmt.Sprintf("%s is replicated (Sync) and applied on every node by re-running the handler, but the handler reaches a nondeterministic source (%s): each replica computes its own value, so the nodes diverge (different members popped, different absolute deadlines)", strings.ToUpper(c.Name), strings.Join(srcs, "; ")))
	}
}

// onlyFeedsConnDeadline: the time.Now() result flows only into net.Conn.SetReadDeadline
// (connection state, not replicated data).
func onlyFeedsConnDeadline(c ssa.CallInstruction) bool {
	v, ok := c.(ssa.Value)
	if !ok || v.Referrers() == nil {
		return false
	}
	okAll := true
	var follow func(v ssa.Value, d int)
	follow = func(v ssa.Value, d int) {
		if d > 4 || v.Referrers() == nil {
			okAll = false
			return
		}
		for _, ref := range *v.Referrers() {
			switch x := ref.(type) {
			case *ssa.Call:
				if x.Call.IsInvoke() && (x.Call.Method.Name() == "SetReadDeadline" || x.Call.Method.Name() == "SetDeadline" || x.Call.Method.Name() == "SetWriteDeadline") {
					continue
				}
				if f := x.Call.StaticCallee(); f != nil && f.String() == "(time.Time).Add" {
					follow(x, d+1)
					continue
				}
				okAll = false
			default:
				okAll = false
			}
		}
	}
	follow(v, 0)
	return okAll
}
