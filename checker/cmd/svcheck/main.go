// svcheck decides the structural necessary conditions of properties C01..C20 on the
// current source of /repo (static analysis only: go/packages + go/types + go/ssa + VTA).
package main

import (
	"encoding/json"
	"flag"
	"fmt"
	"os"
	"path/filepath"
	"strconv"
	"strings"
	"time"

	"svcheck/internal/normalize"
	"svcheck/internal/report"
	"svcheck/internal/rules"
	"svcheck/internal/world"
)

func verifDir() string {
	if d := os.Getenv("SVCHECK_VERIF"); d != "" {
		return d
	}
	exe, err := os.Executable()
	if err == nil {
		d := filepath.Dir(filepath.Dir(exe))
		if _, err := os.Stat(filepath.Join(d, "properties.jsonl")); err == nil {
			return d
		}
	}
	return "/verif"
}

func main() {
	prop := flag.String("prop", "", "property id (C01..C20)")
	tier := flag.String("tier", "quick", "quick | thorough")
	all := flag.Bool("all", false, "run every property in one process")
	rule := flag.String("rule", "", "debug: run one rule and print all its obligations")
	explain := flag.String("explain", "", "re-derive the finding recorded in the given violation file on the current tree")
	list := flag.Bool("list", false, "list properties and rules")
	manifest := flag.Bool("manifest", false, "print MANIFEST.json for the claimed properties")
	jsonOut := flag.Bool("json", false, "with -rule: print the obligations as JSON")
	emitKnown := flag.Bool("emit-known", false, "triage aid: print a known_findings.jsonl candidate line for every unlisted violation")
	noKnown := flag.Bool("no-known", false, "debug: ignore known_findings.jsonl")
	emitFuncs := flag.Bool("emit-known-funcs", false, "print the function list for internal/normalize/known_funcs.txt from the current tree")
	emitFields := flag.Bool("emit-known-fields", false, "print internal/world/known_fields.txt from the current tree")
	showNorm := flag.Bool("show-normalized", false, "debug: print what the source-level pre-pass did (and the transformed files)")
	flag.Parse()

	if *emitFuncs {
		s, err := normalize.EmitKnown(world.RepoDir())
		if err != nil {
			fmt.Fprintln(os.Stderr, err)
			os.Exit(2)
		}
		fmt.Print(s)
		return
	}
	if *showNorm {
		env := append(os.Environ(), "GOFLAGS=-mod=mod", "GOPROXY=off", "GOSUMDB=off", "GOTOOLCHAIN=local", "GOWORK=off")
		abs, _ := filepath.Abs(world.RepoDir())
		r, err := normalize.Run(abs, env)
		if err != nil {
			fmt.Println("error:", err)
		}
		fmt.Println("renamed:", r.Renamed)
		fmt.Println("unknown:", strings.Join(r.Unknown, "\n  "))
		fmt.Println("inlined:\n  " + strings.Join(r.Inlined, "\n  "))
		fmt.Println("removed:", strings.Join(r.Removed, ", "))
		fmt.Println("skipped:\n  " + strings.Join(r.Skipped, "\n  "))
		fmt.Println("problems:\n  " + strings.Join(r.Problems, "\n  "))
		if os.Getenv("SVCHECK_DUMP") != "" {
			for fn, b := range r.Overlay {
				fmt.Printf("===== %s\n%s\n", fn, b)
			}
		}
		return
	}

	if *manifest {
		printManifest()
		return
	}
	if *list {
		for _, id := range rules.PropIDs() {
			p := rules.GetProp(id)
			var rs []string
			for _, r := range p.Rules {
				rs = append(rs, r.ID)
			}
			fmt.Printf("%s %s: %s\n", id, p.Title, strings.Join(rs, " "))
		}
		fmt.Println("rules:", strings.Join(rules.RuleIDs(), " "))
		return
	}
	if t := os.Getenv("VERIF_TIER"); t != "" && *tier == "" {
		*tier = t
	}
	seed := 0
	if s := os.Getenv("VERIF_SEED"); s != "" {
		seed, _ = strconv.Atoi(s)
	}
	vd := verifDir()
	start := time.Now()
	w, err := world.Load()
	if err != nil {
		// A tree that does not load/type-check cannot be analysed: fail closed.
		fmt.Fprintln(os.Stderr, "svcheck: cannot load the repository:", err)
		ids := []string{*prop}
		if *all {
			ids = rules.PropIDs()
		}
		code := 2
		for _, id := range ids {
			if rules.GetProp(id) == nil {
				continue
			}
			pr := &report.PropRun{Property: id, Tier: *tier, Seed: seed, Explanation: "repository failed to load or type-check; nothing analysed",
				Rules: []*report.RuleResult{{Rule: "LOAD", Err: err}}, WallS: time.Since(start).Seconds()}
			code = pr.Finish(vd, nil)
		}
		os.Exit(code)
	}
	loadS := time.Since(start).Seconds()
	if *emitFields {
		fmt.Print(w.EmitKnownFields())
		return
	}

	if *rule != "" {
		r := rules.Run(w, *rule)
		if *jsonOut {
			type out struct {
				Error string      `json:"error,omitempty"`
				Obs   []report.Ob `json:"obs"`
			}
			o := out{Obs: r.Obs}
			if r.Err != nil {
				o.Error = r.Err.Error()
			}
			b, _ := json.Marshal(o)
			fmt.Println(string(b))
			return
		}
		if r.Err != nil {
			fmt.Println("ERROR:", r.Err)
			os.Exit(2)
		}
		cnt := map[string]int{}
		for _, ob := range r.Obs {
			cnt[ob.St]++
			fmt.Printf("%-22s %-28s %s\n    %s\n", ob.St, ob.Pos, ob.Key, ob.Msg)
		}
		fmt.Printf("rule %s: %v (floor %d) load %.1fs total %.1fs\n", *rule, cnt, r.Floor, loadS, time.Since(start).Seconds())
		return
	}

	if *explain != "" {
		b, err := os.ReadFile(*explain)
		if err != nil {
			fmt.Fprintln(os.Stderr, err)
			os.Exit(2)
		}
		var rec struct{ Property, Rule, Key string }
		if err := json.Unmarshal(b, &rec); err != nil {
			fmt.Fprintln(os.Stderr, err)
			os.Exit(2)
		}
		r := rules.Run(w, rec.Rule)
		found := false
		for _, ob := range r.Obs {
			if ob.Key == rec.Key {
				fmt.Printf("%s %s at %s\n  %s\n", ob.St, ob.Key, ob.Pos, ob.Msg)
				found = found || ob.Status == report.Finding || ob.Status == report.Undecided
			}
		}
		if r.Err != nil {
			fmt.Println("rule error:", r.Err)
			found = true
		}
		if found {
			fmt.Printf("VIOLATION property=%s replay=%s\n", rec.Property, *explain)
			os.Exit(1)
		}
		fmt.Println("finding not reproduced on the current tree")
		return
	}

	var known []report.Known
	if !*noKnown {
		known, err = report.LoadKnown(filepath.Join(vd, "known_findings.jsonl"))
		if err != nil {
			fmt.Fprintln(os.Stderr, "svcheck: known_findings.jsonl:", err)
			os.Exit(2)
		}
	}
	ids := []string{*prop}
	if *all {
		ids = rules.PropIDs()
	}
	report.EmitKnown = *emitKnown
	exit := 0
	for _, id := range ids {
		p := rules.GetProp(id)
		if p == nil {
			fmt.Fprintf(os.Stderr, "svcheck: unknown property %q\n", id)
			os.Exit(2)
		}
		if len(p.Rules) == 0 {
			if *all {
				continue
			}
			fmt.Fprintf(os.Stderr, "svcheck: property %s is not claimed (see MANIFEST.json not_applicable)\n", id)
			os.Exit(2)
		}
		t0 := time.Now()
		rs := rules.RunProp(w, p)
		if *tier == "thorough" {
			rs = append(rs, rules.Thorough(w, p, vd)...)
		}
		nfn := 0
		for range w.ModFns {
			nfn++
		}
		wall := time.Since(t0).Seconds()
		if !*all {
			wall = time.Since(start).Seconds()
		}
		pr := &report.PropRun{
			Property: id, Tier: *tier, Seed: seed,
			Explanation: p.Explanation, Decides: p.Decides, NotCovered: p.NotCovered,
			Assumptions: p.Assumptions,
			Trusted:     []string{"go/types", "go/ssa (x/tools v0.29.0)", "callgraph/vta over cha", "the library models written into the rules (DESIGN.md section 10)", "the source-level inliner for helpers unknown to the rules (DESIGN.md 12.7; validated by type-checking; inactive when the tree declares no unknown function)"},
			Rules:       rs,
			Analysed: map[string]interface{}{"repo": w.Repo, "module_packages": len(w.Pkgs), "module_functions": nfn,
				"all_functions": len(w.AllFns), "load_s": loadS, "normalisation": normSummary(w)},
			WallS:      wall,
			CheckerCmd: fmt.Sprintf("./bin/svcheck -prop %s -tier %s", id, *tier),
		}
		if c := pr.Finish(vd, known); c > exit {
			exit = c
		}
	}
	os.Exit(exit)
}

// normSummary reports what the source-level pre-pass did on this run (DESIGN.md 12.7).
func normSummary(w *world.World) map[string]interface{} {
	m := map[string]interface{}{"unknown_functions": 0, "calls_inlined": 0, "helpers_removed": 0, "functions_renamed": 0, "fields_renamed": len(w.FieldNotes)}
	if n := w.Norm; n != nil {
		m["unknown_functions"] = len(n.Unknown)
		m["calls_inlined"] = len(n.Inlined)
		m["helpers_removed"] = len(n.Removed)
		m["functions_renamed"] = len(n.Renamed)
		if len(n.Unknown) > 0 {
			m["unknown"] = n.Unknown
		}
		if len(n.Skipped) > 0 {
			m["left_as_calls"] = n.Skipped
		}
		if len(n.Problems) > 0 {
			m["problems"] = n.Problems
		}
		if len(n.Renamed) > 0 {
			m["renamed"] = n.Renamed
		}
	}
	if len(w.FieldNotes) > 0 {
		m["field_notes"] = w.FieldNotes
	}
	return m
}

func printManifest() {
	type level struct {
		Category  string `json:"category"`
		Text      string `json:"text"`
		DesignRef string `json:"design_ref"`
	}
	type check struct {
		PropertyID string `json:"property_id"`
		Quick      string `json:"quick_cmd"`
		Thorough   string `json:"thorough_cmd"`
		Evidence   string `json:"evidence_file"`
		Replay     string `json:"replay_cmd_template"`
		Engine     string `json:"engine"`
		Level      level  `json:"level_claimed"`
		Note       string `json:"level_note"`
		Technique  string `json:"technique"`
	}
	type na struct {
		PropertyID string `json:"property_id"`
		Reason     string `json:"reason"`
	}
	var checks []check
	nas := []na{}
	var served []string
	for _, id := range rules.PropIDs() {
		p := rules.GetProp(id)
		if len(p.Rules) == 0 {
			reason := p.NotApplicable
			if reason == "" {
				reason = "no structural necessary condition of this property is decided by a built rule; the remaining clauses quantify over runtime values/histories (see DESIGN.md section 5)"
			}
			nas = append(nas, na{id, reason})
			continue
		}
		served = append(served, id)
		var rs []string
		for _, r := range p.Rules {
			rs = append(rs, r.ID)
		}
		checks = append(checks, check{
			PropertyID: id,
			Quick:      "./check.sh " + id + " quick",
			Thorough:   "./check.sh " + id + " thorough",
			Evidence:   "/verif/evidence/" + id + ".json",
			Replay:     "./bin/svcheck -explain {path}",
			Engine:     "svcheck",
			Level: level{Category: "other",
				Text:      "Structural necessary conditions (rules " + strings.Join(rs, ", ") + ") decided for ALL paths / call sites / table entries of the current source; not the behavioural property itself. " + strings.Join(p.Decides, "; "),
				DesignRef: "DESIGN.md section 5 (" + id + ") and section 4 (rule catalogue)"},
			Note:      "Trusted: go/types, go/ssa, VTA call graph (x/tools v0.29.0), the library models written into the rules. Not covered: " + strings.Join(p.NotCovered, "; "),
			Technique: p.Technique(),
		})
	}
	m := map[string]interface{}{
		"version":   1,
		"setup_cmd": "./setup.sh",
		"hooks": map[string]interface{}{
			"guard":            "verif",
			"enable":           "none needed: the checks read source; no instrumentation is compiled into /repo",
			"baseline_off_cmd": "cd /repo && GOFLAGS=-mod=mod GOPROXY=off GOSUMDB=off go test -json -vet=off -count=1 -timeout 25m ./...",
			"source_commits":   []string{},
			"add_only":         true,
		},
		"engines": []map[string]interface{}{{"name": "svcheck", "path": "/verif/checker", "serves_properties": served,
			"kind_free_text": "repository-specific static analyser: typed AST + SSA dataflow (must/may facts on CFG edges), typestate, lockset, reference taint, call-graph reachability"}},
		"checks":         checks,
		"not_applicable": nas,
		"notes":          "All checks are static analysis of /repo's working tree; nothing executes SugarDB code. Known findings: /verif/known_findings.jsonl. Seeded changes used to test the checker: /verif/seeded/.",
	}
	b, _ := json.MarshalIndent(m, "", " ")
	fmt.Println(string(b))
}
