#!/bin/bash
# usage: tools/verify_seed.sh <seed-dir> <name>
# seed-dir contains patch.diff and demo test file(s) named <pkgdir-with-underscores>__<file>_test.go or a meta listing.
# Verifies in a fresh scratch worktree of /repo: demo passes without the patch, fails with it, the patched tree
# builds and the existing suite matches the baseline; then runs every quick check against the patched worktree.
set -u
SEED="$1"; NAME="$2"
export GOFLAGS=-mod=mod GOPROXY=off GOSUMDB=off GOTOOLCHAIN=local
WT=/tmp/vs_$NAME
git -C /repo worktree remove --force $WT 2>/dev/null
git -C /repo worktree add -q --detach $WT HEAD || exit 2
trap 'git -C /repo worktree remove --force '$WT' 2>/dev/null' EXIT
# demo files: lines "dest<TAB>src" in $SEED/demo.map
while IFS=$'\t' read -r dest src; do
  [ -z "$dest" ] && continue
  mkdir -p "$WT/$(dirname "$dest")"; cp "$SEED/$src" "$WT/$dest"
done < "$SEED/demo.map"
RUN=$(cat "$SEED/demo.run")
echo "== demo WITHOUT the change (must pass)"
( cd $WT && eval "$RUN" ) > /tmp/vs_$NAME.without.log 2>&1; W0=$?
echo "   exit=$W0"
echo "== apply patch"
( cd $WT && git apply "$SEED/patch.diff" ) || { echo "PATCH DOES NOT APPLY"; exit 2; }
( cd $WT && go build ./sugardb/ ./internal/... 2>&1 | grep -v "main is undeclared\|^#" | head -5 )
echo "== demo WITH the change (must fail)"
( cd $WT && eval "$RUN" ) > /tmp/vs_$NAME.with.log 2>&1; W1=$?
echo "   exit=$W1"
grep -E "^\s*--- FAIL|^FAIL|panic:" /tmp/vs_$NAME.with.log | head -5
echo "== existing suite with the change (demo files removed)"
while IFS=$'\t' read -r dest src; do [ -n "$dest" ] && rm -f "$WT/$dest"; done < "$SEED/demo.map"
( cd $WT && go test -json -vet=off -count=1 -timeout 25m ./... 2>/dev/null ) > /tmp/vs_$NAME.suite.json
python3 - "$NAME" <<'PY'
import json,sys
name=sys.argv[1]
res={}
for l in open('/tmp/vs_%s.suite.json'%name):
    try: e=json.loads(l)
    except: continue
    if e.get('Action') in('pass','fail') and e.get('Test'):
        res[e['Package']+'::'+e['Test']]=e['Action']
b=json.load(open('/root/.vp/BASELINE.json'))
bad=[k for k in b['stable_pass'] if res.get(k)!='pass']
print('   suite: tests',len(res),'stable_pass not passing:',len(bad),bad[:5])
PY
rm -f /tmp/vs_$NAME.suite.json
echo "== checks on the patched worktree (SVCHECK_REPO; /repo itself is not touched, so that other checks can run meanwhile)"
SV=$(mktemp -d /tmp/vs_verif.XXXX); cp /verif/properties.jsonl /verif/known_findings.jsonl "$SV/"; mkdir -p "$SV/evidence" "$SV/mutants"
( cd /verif && SVCHECK_REPO="$WT" SVCHECK_VERIF="$SV" ./bin/svcheck -all 2>/dev/null | grep "^VIOLATION\|^  finding" | sed 's/ replay=.*//' | sort -u | cut -c1-260 )
rm -rf "$SV"

echo "== summary: without=$W0 with=$W1"
