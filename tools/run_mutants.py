#!/usr/bin/env python3
"""Development helper: apply the seeded mutants whose id starts with one of the given prefixes to
scratch copies of /repo and run their rule; prints whether the expected key fired.
usage: tools/run_mutants.py [-j N] [prefix ...]
"""
import json, os, shutil, subprocess, sys, tempfile
from concurrent.futures import ThreadPoolExecutor
V = os.path.dirname(os.path.dirname(os.path.abspath(__file__)))
ms = json.load(open(os.path.join(V, 'mutants/mutants.json')))
args = sys.argv[1:]
jobs = 4
if args[:1] == ['-j']:
    jobs = int(args[1]); args = args[2:]
sel = [m for m in ms if not args or any(m['id'].startswith(p) for p in args)]

def one(m):
    d = tempfile.mkdtemp(prefix='runmut.')
    try:
        subprocess.check_call(['rsync', '-a', '--exclude', '.git', '/repo/', d + '/'])
        for e in m['edits']:
            p = os.path.join(d, e[0])
            s = open(p).read()
            n = int(e[3]) if len(e) > 3 else 1
            parts = s.split(e[1])
            if len(parts) <= n:
                return (m['id'], 'EDIT-NOT-APPLICABLE', e[0])
            s = e[1].join(parts[:n]) + e[2] + e[1].join(parts[n:])
            open(p, 'w').write(s)
        env = dict(os.environ, SVCHECK_REPO=d)
        out = subprocess.run([os.path.join(V, 'bin/svcheck'), '-rule', m['rule'], '-json'], env=env, capture_output=True, text=True)
        try:
            res = json.loads(out.stdout.strip().split('\n')[-1])
        except Exception:
            return (m['id'], 'NO-JSON', out.stderr[-300:])
        keys = [o['key'] for o in (res.get('obs') or []) if o.get('status') in ('finding', 'undecided')]
        hit = any(m['expect'] in k for k in keys)
        return (m['id'], 'FIRED' if hit else 'MISSED', keys[:4])
    finally:
        shutil.rmtree(d, ignore_errors=True)

bad = 0
with ThreadPoolExecutor(jobs) as ex:
    for r in ex.map(one, sel):
        print(*r, flush=True)
        bad += 0 if r[1] == 'FIRED' else 1
print('mutants', len(sel), 'not fired', bad)
sys.exit(1 if bad else 0)
