#!/bin/bash
# usage: tools/collect_seed.sh <worktree> <seed-id> <demo-dest-path> <run-regex> <pkg>
# copies a sub-agent's delivery (<worktree>/_seed) into /verif/seeded/<seed-id>/ with demo.map and demo.run
set -eu
WT="$1"; ID="$2"; DEST="$3"; RX="$4"; PKG="$5"
D=/verif/seeded/$ID
mkdir -p "$D"
cp "$WT/_seed/patch.diff" "$D/patch.diff"
cp "$WT/$DEST" "$D/$(basename "$DEST")"
cp "$WT/_seed/README.md" "$D/README.agent.md"
printf '%s\t%s\n' "$DEST" "$(basename "$DEST")" > "$D/demo.map"
echo "go test -vet=off -count=1 -run '$RX' $PKG" > "$D/demo.run"
ls "$D"
