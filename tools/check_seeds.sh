#!/bin/bash
# usage: tools/check_seeds.sh [svcheck-binary] [seed-name-prefix]
# For every seed under /verif/seeded: copy /repo to a scratch dir, apply the seed's patch there and run every
# quick check against the copy (evidence and violation files go to a scratch verif dir). Prints, per seed,
# the properties that reported a VIOLATION and the rule keys. Nothing in /repo or /verif/evidence is touched.
BIN=${1:-/verif/bin/svcheck}; PFX=${2:-}
SV=$(mktemp -d /tmp/chkseeds.verif.XXXX)
cp /verif/properties.jsonl /verif/known_findings.jsonl "$SV/"; mkdir -p "$SV/evidence" "$SV/mutants"
for s in /verif/seeded/${PFX}*/; do
  n=$(basename "$s"); d=$(mktemp -d /tmp/chkseeds.XXXX)
  rsync -a --exclude .git /repo/ "$d/"
  if ! (cd "$d" && patch -p1 -s < "$s/patch.diff" >/dev/null 2>&1); then echo "$n: PATCH-FAILED"; rm -rf "$d"; continue; fi
  out=$(SVCHECK_REPO="$d" SVCHECK_VERIF="$SV" "$BIN" -all 2>/dev/null)
  props=$(echo "$out" | grep '^VIOLATION' | sed 's/.*property=\([A-Z0-9]*\).*/\1/' | sort -u | tr '\n' ' ')
  keys=$(echo "$out" | grep '^  finding' | sed 's/.*key="\([^"]*\)".*/\1/' | sort -u | head -4 | tr '\n' ';')
  want=$(python3 -c "import json;print(json.load(open('$s/meta.json')).get('property',''))" 2>/dev/null)
  echo "$n: wanted=$want fired=[${props}] ${keys}" | cut -c1-330
  rm -rf "$d"
done
rm -rf "$SV"
