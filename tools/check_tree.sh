#!/bin/bash
# usage: tools/check_tree.sh <repo-copy-dir> [svcheck args...]   (default: -all)
# Runs svcheck against a scratch copy of the repository with a scratch verif dir (known findings copied),
# prints the distinct unlisted findings only. Nothing under /verif/evidence or /verif/out is touched.
D="$1"; shift
SV=$(mktemp -d /tmp/chktree.verif.XXXX)
cp /verif/properties.jsonl /verif/known_findings.jsonl "$SV/"; mkdir -p "$SV/evidence" "$SV/mutants"
export GOFLAGS=-mod=mod GOPROXY=off GOSUMDB=off GOTOOLCHAIN=local GOWORK=off
if [ $# -eq 0 ]; then set -- -all; fi
SVCHECK_REPO="$D" SVCHECK_VERIF="$SV" /verif/bin/svcheck "$@" > "$SV/out.txt" 2>&1
grep '^VIOLATION' "$SV/out.txt" | sed 's/ replay=.*//' | sort | uniq -c
grep '^  finding' "$SV/out.txt" | sed 's/^  finding: //' | sort -u | cut -c1-${CUT:-300}
grep -i "cannot load\|^panic\|^goroutine" "$SV/out.txt" | head -5
rm -rf "$SV"
