#!/bin/sh
# Runs /repo's test suite (guard off: there are no hooks) and compares with the stable baseline.
export GOFLAGS=-mod=mod GOPROXY=off GOSUMDB=off GOTOOLCHAIN=local
cd /repo && go test -json -vet=off -count=1 -timeout 25m ./... 2>/dev/null > /tmp/svcheck_baseline.json
python3 - <<'PY'
import json,sys
res={}
for l in open('/tmp/svcheck_baseline.json'):
    try: e=json.loads(l)
    except: continue
    if e.get('Action') in('pass','fail') and e.get('Test'):
        res[e['Package']+'::'+e['Test']]=e['Action']
b=json.load(open('/root/.vp/BASELINE.json'))
sp=set(b['stable_pass'])
bad=[k for k in sp if res.get(k)!='pass']
print('tests',len(res),'stable_pass',len(sp),'not passing',len(bad))
for k in bad[:20]: print('  ',k,res.get(k))
sys.exit(1 if bad else 0)
PY
rm -f /tmp/svcheck_baseline.json
