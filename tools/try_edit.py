#!/usr/bin/env python3
"""usage: tools/try_edit.py [--nth N] <file> <old> <new> [<file> <old> <new> ...] -- <svcheck args...>
Copies /repo to a scratch dir, replaces the N-th (default 1st) occurrence of <old> by <new> in <file>,
checks that the copy still compiles, runs svcheck on it (SVCHECK_REPO), removes the copy."""
import sys, os, subprocess, tempfile, shutil
args = sys.argv[1:]
nth = 1
if args[0] == '--nth':
    nth = int(args[1]); args = args[2:]
i = args.index('--')
edits, sv = args[:i], args[i+1:]
V = os.path.dirname(os.path.dirname(os.path.abspath(__file__)))
d = tempfile.mkdtemp(prefix='svm.', dir=os.environ.get('TMPDIR', '/tmp'))
try:
    subprocess.check_call(['rsync', '-a', '--exclude', '.git', '/repo/', d + '/'])
    for j in range(0, len(edits), 3):
        f, old, new = edits[j:j+3]
        p = os.path.join(d, f)
        s = open(p).read()
        parts = s.split(old)
        if len(parts) <= nth:
            sys.exit(f'edit {j//3}: only {len(parts)-1} occurrence(s) of {old!r} in {f}')
        s = old.join(parts[:nth]) + new + old.join(parts[nth:])
        open(p, 'w').write(s)
    env = dict(os.environ, GOFLAGS='-mod=mod', GOPROXY='off', GOSUMDB='off', GOTOOLCHAIN='local', GOWORK='off')
    b = subprocess.run(['go', 'build', './sugardb/', './internal/...'], cwd=d, env=env, capture_output=True, text=True)
    errs = [l for l in b.stderr.splitlines() if 'function main is undeclared' not in l and not l.startswith('#')]
    if errs:
        print('MUTANT DOES NOT COMPILE:', *errs[:5], sep='\n  ')
        sys.exit(3)
    env['SVCHECK_REPO'] = d
    r = subprocess.run([os.path.join(V, 'bin', 'svcheck')] + sv, env=env)
    sys.exit(r.returncode)
finally:
    shutil.rmtree(d, ignore_errors=True)
