#!/usr/bin/env python3
"""Generates /verif/mutants/mutants.json: seeded single-site mutants of /repo used by the thorough tier
to test the checker (each must be reported by the named rule when applied to a scratch copy)."""
import json, os

M = []


def m(id, props, rule, expect, what, *edits):
    M.append({"id": id, "properties": props, "rule": rule, "expect": expect, "what": what,
              "edits": [list(e) for e in edits]})


K = 'sugardb/keyspace.go'
D = 'sugardb/modules.go'
ACL = 'internal/modules/acl/acl.go'
GEN = 'internal/modules/generic/commands.go'

m("d1-gate-conjunct", ["C06"], "D1", "sink:handler()", "extra conjunct (&& !replay) added to the authorization gate",
  (D, 'if conn != nil && server.acl != nil && !embedded {', 'if conn != nil && server.acl != nil && !embedded && !replay {'))
m("d2-log-before-handler", ["C02"], "D2", "b:log-after-handler-success", "AOF append hoisted above the handler call",
  (D, '''		res, err := handler(server.getHandlerFuncParams(ctx, cmd, conn))
		if err != nil {
			return nil, err
		}

		if internal.IsWriteCommand(command, subCommand) && !replay {
			// Log the command under the database the request was executed against
			// (for embedded callers there is no TCP client entry to look up).
			server.aofEngine.LogCommand(ctx.Value("Database").(int), message)
		}
''', '''		if internal.IsWriteCommand(command, subCommand) && !replay {
			server.aofEngine.LogCommand(ctx.Value("Database").(int), message)
		}
		res, err := handler(server.getHandlerFuncParams(ctx, cmd, conn))
		if err != nil {
			return nil, err
		}
'''))
m("d2-log-during-replay", ["C02"], "D2", "c:no-log-during-replay", "replay guard dropped from the AOF append",
  (D, 'if internal.IsWriteCommand(command, subCommand) && !replay {', 'if internal.IsWriteCommand(command, subCommand) {'))
m("d2-log-db-from-conn", ["C02", "C20"], "D2", "e:log-database", "AOF append uses tcpClients[conn].Database again",
  (D, 'server.aofEngine.LogCommand(ctx.Value("Database").(int), message)',
   'server.aofEngine.LogCommand(server.connInfo.tcpClients[conn].Database, message)'))
m("d3-no-sync", ["C02"], "D3", "sync-before-ack", "fsync removed from the 'always' path of log.Store.Write",
  ('internal/aof/log/store.go', '''		if err := store.Sync(); err != nil {
			return fmt.Errorf("log file sync error: %+v", err)
		}''', '''		_ = store.strategy'''))
m("d4-local-in-cluster", ["C07"], "D4", "b:local-exec-guard", "cluster guard inverted: synced commands run locally",
  (D, 'if !server.isInCluster() || !synchronize {', 'if server.isInCluster() || !synchronize {'))
m("d5-truncate-ignores-preamble-error", ["C09"], "D5", "truncate-after-preamble-success",
  "RewriteLog ignores the preamble error before truncating",
  ('internal/aof/engine.go', '''	if err := engine.preambleStore.CreatePreamble(); err != nil {
		return fmt.Errorf("rewrite log error: create preamble error: %+v", err)
	}''', '''	if err := engine.preambleStore.CreatePreamble(); err != nil {
		log.Printf("rewrite log error: create preamble error: %+v", err)
	}'''))
m("d6-state-sync-error-ignored", ["C10"], "D6", "a:manifest-replace-after-state-durable",
  "state file sync error ignored before the manifest is published",
  ('internal/snapshot/snapshot.go', '''	if err = f.Sync(); err != nil {
		log.Println(err)
		_ = f.Close()
		return err
	}''', '''	if err = f.Sync(); err != nil {
		log.Println(err)
	}'''))
m("d6-manifest-in-place", ["C10"], "D6", "b:manifest-replace-atomic",
  "manifest written in place (os.Create on manifest.bin) instead of temp+rename",
  ('internal/snapshot/snapshot.go', 'tmf, err := os.Create(path.Join(dirname, "manifest.bin.tmp"))',
   'tmf, err := os.Create(path.Join(dirname, "manifest.bin"))'),
  ('internal/snapshot/snapshot.go', '''	if err = os.Rename(path.Join(dirname, "manifest.bin.tmp"), path.Join(dirname, "manifest.bin")); err != nil {
		log.Println(err)
		return err
	}''', ''))
m("d7-restore-order", ["C02", "C09"], "D7", "log-after-preamble-success",
  "Restore replays the log even when the preamble restore failed",
  ('internal/aof/engine.go', '''	if err := engine.preambleStore.Restore(); err != nil {
		return fmt.Errorf("restore aof error: restore preamble error: %+v", err)
	}''', '''	if err := engine.preambleStore.Restore(); err != nil {
		log.Printf("restore aof error: restore preamble error: %+v", err)
	}'''))
m("d8-flag-not-deferred", ["C05", "C09"], "D8", "flag:stateMutationInProgress",
  "mutation flag cleared only on the success path again",
  (D, '''		// Clear the flag on every exit (handler error, cluster paths), not only on local success.
		defer server.stateMutationInProgress.Store(false)
''', ''),
  (D, '''		return res, err
	}

	// Handle other commands''', '''		server.stateMutationInProgress.Store(false)
		return res, err
	}

	// Handle other commands'''))
m("t1-no-nil-guard", ["C12"], "T1", "entry:acl", "nil-handler guard removed from the dispatcher",
  (D, '''	if handler == nil {
		return nil, fmt.Errorf("command %s requires a subcommand", strings.ToUpper(cmd[0]))
	}''', ''))
m("t2-hset-not-sync", ["C07"], "T2", "entry:hset", "HSET registered with Sync:false",
  ('internal/modules/hash/commands.go', '''Set update each field of the hash with the corresponding value.`,
			Sync:              true,''', '''Set update each field of the hash with the corresponding value.`,
			Sync:              false,'''))
m("p1-union-aliases", ["C13"], "P1", "entry:sunion", "set.Union adds into its first operand again",
  ('internal/modules/set/set.go', 'union := NewSet(sets[0].GetAll())', 'union := sets[0]'))
m("p2-intersection-aliases", ["C13"], "P2", "handleSINTERSTORE", "set.Intersection returns its single operand",
  ('internal/modules/set/set.go', 'return NewSet(sets[0].GetAll()), false', 'return sets[0], false'))
m("wt-hlen-single-value-assert", ["C14"], "WT", "handleHLEN",
  "HLEN uses a single-value type assertion on the stored value",
  ('internal/modules/hash/commands.go', '''	hash, ok := params.GetValues(params.Context, []string{key})[key].(map[string]interface{})
	if !ok {
		return nil, fmt.Errorf("value at %s is not a hash", key)
	}

	return []byte(fmt.Sprintf(":%d\\r\\n", len(hash))), nil''', '''	hash := params.GetValues(params.Context, []string{key})[key].(map[string]interface{})

	return []byte(fmt.Sprintf(":%d\\r\\n", len(hash))), nil'''))
m("ar-set-arity-loosened", ["C01", "C12"], "AR", "handleSet|params.Command[2]",
  "setKeyFunc accepts two tokens while handleSet indexes Command[2]",
  ('internal/modules/generic/key_funcs.go', '''func setKeyFunc(cmd []string) (internal.KeyExtractionFuncResult, error) {
	if len(cmd) < 3''', '''func setKeyFunc(cmd []string) (internal.KeyExtractionFuncResult, error) {
	if len(cmd) < 2'''))
m("l1-setexpiry-no-lock", ["C05"], "L1", "setExpiry", "store lock removed from setExpiry",
  (K, '''func (server *SugarDB) setExpiry(ctx context.Context, key string, expireAt time.Time, touch bool) {
	server.storeLock.Lock()
	defer server.storeLock.Unlock()
''', '''func (server *SugarDB) setExpiry(ctx context.Context, key string, expireAt time.Time, touch bool) {
'''))
m("l1-setvalues-rlock", ["C05"], "L1", "setValues|sugardb.SugarDB.store|write", "setValues takes only the read lock",
  (K, '''func (server *SugarDB) setValues(ctx context.Context, entries map[string]interface{}) error {
	server.storeLock.Lock()
	defer server.storeLock.Unlock()''', '''func (server *SugarDB) setValues(ctx context.Context, entries map[string]interface{}) error {
	server.storeLock.RLock()
	defer server.storeLock.RUnlock()'''))
m("l1-getstate-no-lock", ["C05", "C03"], "L1", "getState", "getState copies the store without the lock",
  (K, '''	server.storeLock.RLock()
	for db, store := range server.store {
		data[db] = make(map[string]interface{})
		for k, v := range store {
			data[db][k] = v
		}
	}
	server.storeLock.RUnlock()''', '''	for db, store := range server.store {
		data[db] = make(map[string]interface{})
		for k, v := range store {
			data[db][k] = v
		}
	}'''))
m("l2-sampler-recursion-under-lock", ["C05"], "L2", "reacquire:sugardb.SugarDB.storeLock",
  "TTL sampler recurses while holding the store lock",
  (K, '''	// Release the store lock before possibly sampling again below (the lock is not reentrant).
	server.storeLock.Unlock()
''', '''	defer server.storeLock.Unlock()
'''),
  (K, '''			if err := server.deleteKey(ctx, k); err != nil {
				server.storeLock.Unlock()
				return fmt.Errorf("evictKeysWithExpiredTTL -> standalone delete''', '''			if err := server.deleteKey(ctx, k); err != nil {
				return fmt.Errorf("evictKeysWithExpiredTTL -> standalone delete'''),
  (K, '''			if err := server.raftApplyDeleteKey(ctx, k); err != nil {
				server.storeLock.Unlock()
				return fmt.Errorf("evictKeysWithExpiredTTL -> cluster delete''', '''			if err := server.raftApplyDeleteKey(ctx, k); err != nil {
				return fmt.Errorf("evictKeysWithExpiredTTL -> cluster delete'''))
m("x1-keysexist-ignores-expiry", ["C04"], "X1", "keysExist|report", "keysExist no longer tests the deadline",
  (K, '''	now := server.clock.Now()
	for _, key := range keys {
		entry, ok := server.store[database][key]''', '''	for _, key := range keys {
		_, ok := server.store[database][key]'''),
  (K, 'exists[key] = ok && !isExpired(entry, now)', 'exists[key] = ok'))
m("x1-isexpired-after", ["C04"], "X1", "isExpired|helper-orientation", "isExpired uses After instead of Before",
  (K, 'return entry.ExpireAt != (time.Time{}) && entry.ExpireAt.Before(now)',
   'return entry.ExpireAt != (time.Time{}) && entry.ExpireAt.After(now)'))
m("x3-sampler-deletes-live-keys", ["C04"], "X3", "evictKeysWithExpiredTTL|delete",
  "TTL sampler no longer checks the deadline of the sampled key",
  (K, 'if !ok || entry.ExpireAt == (time.Time{}) || !entry.ExpireAt.Before(server.clock.Now()) {',
   'if !ok || entry.ExpireAt == (time.Time{}) {'))
m("x4-inherit-expired-deadline", ["C04"], "X4", "inherit-deadline", "setValues inherits the old deadline unconditionally",
  (K, '''			if !isExpired(old, server.clock.Now()) {
				// Keep the deadline of a live key; a deadline that has already passed is never inherited.
				expireAt = old.ExpireAt
			}''', '''			expireAt = old.ExpireAt'''))
m("x5-gt-inverted", ["C04"], "X5", "opt:gt|cur:true|new<cur", "EXPIRE GT compares with After instead of Before",
  (GEN, 'if expireAt.Before(currentExpireAt) {', 'if expireAt.After(currentExpireAt) {'))
m("a1-admission-any-policy", ["C08"], "A1", "refuse-with-error",
  "admission test refuses under every policy (noeviction test dropped)",
  (K, 'if internal.IsMaxMemoryExceeded(server.memUsed, server.config.MaxMemory) && server.config.EvictionPolicy == constants.NoEviction {',
   'if internal.IsMaxMemoryExceeded(server.memUsed, server.config.MaxMemory) {'))
m("a1-predicate-strict", ["C08"], "A1", "usage=limit", "IsMaxMemoryExceeded uses > instead of >=",
  ('internal/utils.go', 'return uint64(memUsed) >= maxMemory', 'return uint64(memUsed) > maxMemory'),
  ('internal/utils.go', '''	if uint64(memUsed) < maxMemory {
		return false
	}
''', '''	if uint64(memUsed) <= maxMemory {
		return false
	}
'''))
m("a2-lfu-loop-no-retest", ["C08"], "A2", "evict:deleteKey", "LFU eviction loop no longer re-tests the limit",
  (K, '''			// Run garbage collection
			runtime.GC()
			// Return if we're below max memory
			if uint64(server.memUsed) < server.config.MaxMemory {
				return nil
			}
		}
	case slices.Contains([]string{constants.AllKeysLRU, constants.VolatileLRU}''', '''			// Run garbage collection
			runtime.GC()
		}
	case slices.Contains([]string{constants.AllKeysLRU, constants.VolatileLRU}'''))
m("a3-volatile-index-any-deadline", ["C08", "C04"], "A3", "volatile-index-append",
  "setExpiry appends to the volatile index for a zero deadline",
  (K, '''	if expireAt == (time.Time{}) {
		server.keysWithExpiry.keys[database] = slices.DeleteFunc(server.keysWithExpiry.keys[database], func(k string) bool {
			return k == key
		})
	} else if !slices.Contains''', '''	if !slices.Contains'''))
m("a4-lfu-comparator-flipped", ["C08"], "A4", "CacheLFU).Less", "LFU comparator flipped",
  ('internal/eviction/lfu.go', 'return cache.entries[i].count < cache.entries[j].count',
   'return cache.entries[i].count > cache.entries[j].count'))
m("sb-lru-push-no-keys", ["C08"], "SB", "method:Push", "CacheLRU.Push no longer records the key",
  ('internal/eviction/lru.go', '	cache.keys[key.(string)] = true\n}\n\nfunc (cache *CacheLRU) Pop()',
   '}\n\nfunc (cache *CacheLRU) Pop()'))
m("ia-intn-wrong-collection", ["C08"], "IA", "adjustMemoryUsage|intn-index",
  "volatile-random draws its index from the number of databases",
  (K, '''			idx := rand.Intn(len(server.keysWithExpiry.keys[database]))
			key := server.keysWithExpiry.keys[database][idx]
			server.keysWithExpiry.rwMutex.RUnlock()''', '''			idx := rand.Intn(len(server.keysWithExpiry.keys))
			key := server.keysWithExpiry.keys[database][idx]
			server.keysWithExpiry.rwMutex.RUnlock()'''))
m("pd-deletekey-skips-volatile-index", ["C08", "C20"], "PD", "deleteKey|sugardb.SugarDB.keysWithExpiry.keys",
  "deleteKey leaves the key in the volatile index",
  (K, '''	server.keysWithExpiry.keys[database] = slices.DeleteFunc(server.keysWithExpiry.keys[database], func(k string) bool {
		return k == key
	})

	// Remove the key from the cache associated with the database.''',
   '''	// Remove the key from the cache associated with the database.'''))
m("m2-delete-no-subtract", ["C19"], "M2", "deleteKey|remove", "deleteKey no longer subtracts from the memory counter",
  (K, '''		server.memUsed -= mem
		server.memUsed -= int64(unsafe.Sizeof(key))
		server.memUsed -= int64(len(key))
	}

	// Delete the key from keyLocks''', '''		_ = mem
	}

	// Delete the key from keyLocks'''))
m("m2-flush-no-release", ["C19"], "M2", "Flush|clear", "Flush no longer releases the flushed keys' memory",
  (K, '''	// Deduct the memory accounted for the flushed keys.
	server.releaseDatabaseMemory(database)
''', ''),
  (K, '''			// Deduct the memory accounted for the flushed keys.
			server.releaseDatabaseMemory(db)
''', ''))
m("nm-raft-getstate-nil-inner-map", ["C07"], "NM", "inner-map-write", "raft GetState closure writes into a nil inner map",
  ('sugardb/sugardb.go', '''				for database, store := range sugarDB.getState() {
					state[database] = make(map[string]internal.KeyData)
					for k, v := range store {
						if data, ok := v.(internal.KeyData); ok {''', '''				for database, store := range sugarDB.getState() {
					for k, v := range store {
						if data, ok := v.(internal.KeyData); ok {'''))
m("tr-trigger-equality", ["C03"], "TR", "count>threshold", "snapshot trigger compares with ==",
  ('internal/snapshot/snapshot.go', 'if engine.changeCount.Load() >= engine.snapshotThreshold {',
   'if engine.changeCount.Load() == engine.snapshotThreshold {'))
m("rc-restore-drops-expiry", ["C03", "C09"], "RC", "set-key-data",
  "snapshot restore callback no longer restores the deadline",
  ('sugardb/sugardb.go', '''				sugarDB.setExpiry(ctx, key, data.ExpireAt, false)
			}),
		)

		// Set up standalone AOF engine''', '''			}),
		)

		// Set up standalone AOF engine'''))
m("e8-int64-stored", ["C03", "C09", "C07"], "E8", "stored-value:int64", "INCR stores an int64 instead of its decimal text",
  (GEN, 'map[string]interface{}{key: fmt.Sprintf("%d", newValue)}', 'map[string]interface{}{key: newValue}'))
m("n3-fsm-context-no-database", ["C07", "C20"], "N3", "context-database",
  "raft FSM no longer puts the database into the handler context",
  ('internal/raft/fsm.go', '		ctx = context.WithValue(ctx, "Database", request.Database)\n', ''))
m("n1-fsm-context-no-database", ["C07", "C20"], "N1", "ctx.Value(Database)",
  "raft FSM no longer puts the database into the handler context: every keyspace read loses the key",
  ('internal/raft/fsm.go', '		ctx = context.WithValue(ctx, "Database", request.Database)\n', ''))
m("n2-constant-database", ["C20"], "N2", "getExpiry|store[db]", "getExpiry reads database 0",
  (K, '''	database := ctx.Value("Database").(int)

	entry, ok := server.store[database][key]
	if !ok || isExpired''', '''	entry, ok := server.store[0][key]
	if !ok || isExpired'''))
m("dt-clock-in-lpush", ["C07"], "DT", "entry:lpush", "LPUSH reads time.Now",
  ('internal/modules/list/commands.go', '''func handleLPush(params internal.HandlerFuncParams) ([]byte, error) {
	keys, err := lpushKeyFunc(params.Command)''', '''func handleLPush(params internal.HandlerFuncParams) ([]byte, error) {
	if time.Now().Unix()%2 == 5 {
		return nil, errors.New("never")
	}
	keys, err := lpushKeyFunc(params.Command)'''),
  ('internal/modules/list/commands.go', 'import (', 'import (\n\t"time"'))
m("r1-terminator-dropped", ["C12", "C16"], "R1", "handleSDIFF", "SDIFF elements lose their terminator",
  ('internal/modules/set/commands.go', 'res += fmt.Sprintf("$%d\\r\\n%s\\r\\n", len(e), e)',
   'res += fmt.Sprintf("$%d\\r\\n%s", len(e), e)'))
m("r2-bulk-length-of-wrong-operand", ["C12"], "R2", "handlePop", "LPOP frames the element with len(popped)",
  ('internal/modules/list/commands.go', 'fmt.Sprintf("$%d\\r\\n%s\\r\\n", len(popped[0]), popped[0])',
   'fmt.Sprintf("$%d\\r\\n%s\\r\\n", len(popped), popped[0])'))
m("r2-select-marker-hardcoded", ["C02", "C09", "C20"], "R2", "internal/aof/log.(*Store).Write",
  "AOF SELECT marker hard-codes $1 again",
  ('internal/aof/log/store.go', '''		db := strconv.Itoa(database)
		_, err := store.rw.Write([]byte(fmt.Sprintf("*2\\r\\n$6\\r\\nSELECT\\r\\n$%d\\r\\n%s\\r\\n", len(db), db)))''',
   '''		_, err := store.rw.Write([]byte(fmt.Sprintf("*2\\r\\n$6\\r\\nSELECT\\r\\n$1\\r\\n%s\\r\\n", strconv.Itoa(database))))'''))
m("r3-getdel-simple-string", ["C12"], "R3", "handleGetdel", "GETDEL replies with a simple string again",
  (GEN, 'return bulkString(value), nil', 'return []byte(fmt.Sprintf("+%v\\r\\n", value)), nil', '2'))
m("w5-no-recover", ["C12"], "W5", "handleConnection|recover", "recover removed from the connection goroutine",
  ('sugardb/sugardb.go', '''			defer func() {
				if r := recover(); r != nil {
					res, err = nil, fmt.Errorf("internal error: %v", r)
				}
			}()
''', ''))
m("cl-error-not-written", ["C12"], "CL", "back-edge", "error reply no longer written to the connection",
  ('sugardb/sugardb.go', '''			if _, err = w.Write([]byte(fmt.Sprintf("-Error %s\\r\\n", err.Error()))); err != nil {
				log.Println(err)
			}
			continue''', '''			continue'''))
m("q-any-key-suffices", ["C06"], "Q", "ReadKeys", "read-key check passes when any key matches",
  (ACL, '''		for _, key := range readKeys {
			if !slices.ContainsFunc(connection.User.IncludedReadKeys, func(readKeyGlob string) bool {
				return acl.GlobPatterns[readKeyGlob].Match(key)
			}) {
				if !slices.Contains(notAllowed, fmt.Sprintf("%s~%s", "%R", key)) {
					notAllowed = append(notAllowed, fmt.Sprintf("%s~%s", "%R", key))
				}
			}
		}
		if len(notAllowed) > 0 {
			return fmt.Errorf("not authorised to access the following read keys: %+v", notAllowed)
		}''', '''		if len(readKeys) > 0 && !slices.ContainsFunc(readKeys, func(key string) bool {
			return slices.ContainsFunc(connection.User.IncludedReadKeys, func(readKeyGlob string) bool {
				return acl.GlobPatterns[readKeyGlob].Match(key)
			})
		}) {
			return fmt.Errorf("not authorised to access the following read keys: %+v", readKeys)
		}'''))
m("sk-subcommand-keys-dead-store", ["C06"], "SK", "key-extraction-call#2",
  "resource lists copied before the sub-command's key extraction again",
  (ACL, '''	channels := keys.Channels
	readKeys := keys.ReadKeys
	writeKeys := keys.WriteKeys

	// Skip ack''', '''	// Skip ack'''),
  (ACL, '''	if !reflect.DeepEqual(subCommand, internal.SubCommand{}) {''', '''	channels := keys.Channels
	readKeys := keys.ReadKeys
	writeKeys := keys.WriteKeys

	if !reflect.DeepEqual(subCommand, internal.SubCommand{}) {'''))
m("fe-nokeys-ignored", ["C06"], "FE", "field:User.NoKeys", "NoKeys is no longer consulted",
  (ACL, '''		if connection.User.NoKeys {
			return errors.New("not authorised to access any keys")
		}
''', ''))
m("t4-get-exempt", ["C06"], "T4", "early-allow", "GET added to the commands exempt from authorization",
  (ACL, 'slices.Contains([]string{"ping", "echo", "hello"}, strings.ToLower(comm))',
   'slices.Contains([]string{"ping", "echo", "hello", "get"}, strings.ToLower(comm))'))
m("t6-table-keyfunc-mismatch", ["C06"], "T6", "entry:mget", "MGET registered with RENAME's key function (a different key slice)",
  (GEN, 'KeyExtractionFunc: mgetKeyFunc', 'KeyExtractionFunc: renameKeyFunc'))
m("k1-handler-uses-other-token", ["C06"], "K1", "handleStrLen",
  "STRLEN reads the key from a token its key function does not return",
  ('internal/modules/string/commands.go', '''	key := keys.ReadKeys[0]
	keyExists := params.KeysExist(params.Context, keys.ReadKeys)[key]

	if !keyExists {
		return []byte(":0\\r\\n"), nil
	}
''', '''	key := params.Command[0]
	keyExists := params.KeysExist(params.Context, []string{key})[key]

	if !keyExists {
		return []byte(":0\\r\\n"), nil
	}
	_ = keys
'''))
m("u1-failed-auth-updates-connection", ["C11"], "U1", "error-return",
  "connection bound to the user before the password is checked",
  (ACL, '''	for _, userPassword := range user.Passwords {
		for _, password := range passwords {''', '''	acl.Connections[conn] = Connection{Authenticated: false, User: user}
	for _, userPassword := range user.Passwords {
		for _, password := range passwords {'''))
m("u2-disabled-user-accepted", ["C11"], "U2", "field:Enabled", "Enabled no longer checked by AuthenticateConnection",
  (ACL, '''	if !user.Enabled {
		return fmt.Errorf("user %s is disabled", user.Username)
	}
''', ''),
  (ACL, '''				userPassword.PasswordValue == password.PasswordValue &&
				user.Enabled {''', '''				userPassword.PasswordValue == password.PasswordValue {'''))
m("u4-default-user-deletable", ["C11"], "U4", "users-removal", "DeleteUser no longer skips the default user",
  (ACL, '''		if username == "default" {
			// Skip default user
			continue
		}
''', ''))
m("u5-new-connection-authenticated", ["C11"], "U5", "authenticated-iff-nopassword", "new connections start authenticated",
  (ACL, 'Authenticated: defaultUser.NoPassword,', 'Authenticated: true,'))
m("l1-numsubs-no-lock", ["C18"], "L1", "pubsub.Channel.subscribers",
  "Channel.NumSubs reads the subscriber table without its lock",
  ('internal/modules/pubsub/channel.go', '''func (ch *Channel) NumSubs() int {
	ch.subscribersRWMut.RLock()
	defer ch.subscribersRWMut.RUnlock()
''', '''func (ch *Channel) NumSubs() int {
'''))

m("x4-deadline-carried-across-keys", ["C04", "C01"], "X4", "deadline-is-per-key", "setValues keeps the deadline variable across the keys of a multi-key write",
  (K, '''	for key, value := range entries {
		expireAt := time.Time{}
''', '''	expireAt := time.Time{}
	for key, value := range entries {
'''))
m("x3-filter-list-hoisted", ["C03", "C04"], "X3", "delete-list-per-database", "FilterExpiredKeys keeps its scratch list across databases",
  ('internal/utils.go', '''	for database, data := range state {
		var keysToDelete []string
''', '''	var keysToDelete []string
	for database, data := range state {
'''))
m("d5-truncate-before-marshal", ["C09", "C02"], "D5", "truncate-after-content-ready", "CreatePreamble truncates the old preamble before marshalling the new state",
  ('internal/aof/preamble/store.go', '''	state := internal.FilterExpiredKeys(store.clock.Now(), store.getStateFunc())
	o, err := json.Marshal(state)
	if err != nil {
		return err
	}

	// Truncate the preamble first
	if err = store.rw.Truncate(0); err != nil {
		return err
	}
''', '''	// Truncate the preamble first
	if err := store.rw.Truncate(0); err != nil {
		return err
	}
	state := internal.FilterExpiredKeys(store.clock.Now(), store.getStateFunc())
	o, err := json.Marshal(state)
	if err != nil {
		return err
	}
'''))
m("num-incrby-int32", ["C01"], "NUM", "handleIncrBy|ParseInt", "INCRBY parses the stored counter with 32 bits",
  (GEN, 'ParseInt(v, 10, 64) // Parse the string to int64', 'ParseInt(v, 10, 32) // Parse the string to int64', '3'))
m("rs-late-state-copy", ["C07"], "RS", "copies-state-synchronously", "FSM.Snapshot no longer copies the state itself",
  ('internal/raft/fsm.go', 'data:                  fsm.options.GetState(),', 'data:                  nil,'))

m("u1-nopass-before-enabled", ["C11", "C06"], "U1", "update-only-if-enabled", "password-less fast path moved before the Enabled check",
  (ACL, '''	// If user is not enabled, return error
	if !user.Enabled {
		return fmt.Errorf("user %s is disabled", user.Username)
	}

	// If user is set to NoPassword, then immediately authenticate connection without considering the password
	if user.NoPassword {
		acl.Connections[conn] = Connection{
			Authenticated: true,
			User:          user,
		}
		return nil
	}
''', '''	// If user is set to NoPassword, then immediately authenticate connection without considering the password
	if user.NoPassword {
		acl.Connections[conn] = Connection{
			Authenticated: true,
			User:          user,
		}
		return nil
	}

	// If user is not enabled, return error
	if !user.Enabled {
		return fmt.Errorf("user %s is disabled", user.Username)
	}
'''))
m("m2-subtract-only-live-entries", ["C19"], "M2", "replace-subtracts-on-every-path", "setValues subtracts the replaced entry only when it has not expired",
  (K, '''			if !isExpired(old, server.clock.Now()) {
				// Keep the deadline of a live key; a deadline that has already passed is never inherited.
				expireAt = old.ExpireAt
			}
			// The entry is being replaced: deduct what was accounted for the old one.
			if oldMem, err := old.GetMem(); err == nil {
				server.memUsed -= oldMem
				server.memUsed -= int64(unsafe.Sizeof(key))
				server.memUsed -= int64(len(key))
			}
''', '''			if !isExpired(old, server.clock.Now()) {
				// Keep the deadline of a live key; a deadline that has already passed is never inherited.
				expireAt = old.ExpireAt
				if oldMem, err := old.GetMem(); err == nil {
					server.memUsed -= oldMem
					server.memUsed -= int64(unsafe.Sizeof(key))
					server.memUsed -= int64(len(key))
				}
			}
'''))
m("n3-replay-context-overwritten", ["C02", "C20"], "N3", "rebinds-database-only-when-not-replaying", "dispatcher rebuilds the context from the connection tables during replay again",
  (D, '''	} else if !replay {
		// The call is triggered by a TCP connection.''', '''	} else {
		// The call is triggered by a TCP connection.'''))
m("oa-log-not-append", ["C02", "C09"], "OA", "open-flags:log.aof", "AOF log opened without O_APPEND",
  ('internal/aof/log/store.go', 'os.O_RDWR|os.O_CREATE|os.O_APPEND', 'os.O_RDWR|os.O_CREATE'))
m("t7-rewriteaof-write-classified", ["C05"], "T7", "entry:rewriteaof", "REWRITEAOF classified as a write command",
  ('internal/modules/admin/commands.go', '''			Command:     "rewriteaof",
			Module:      constants.AdminModule,
			Categories:  []string{constants.AdminCategory, constants.SlowCategory, constants.DangerousCategory},''', '''			Command:     "rewriteaof",
			Module:      constants.AdminModule,
			Categories:  []string{constants.AdminCategory, constants.WriteCategory, constants.SlowCategory, constants.DangerousCategory},'''))
m("q-dedupe-skips-check", ["C06"], "Q", "every-element-tested", "write-key loop skips keys already seen as read keys",
  (ACL, '''		for _, key := range writeKeys {
			if !slices.ContainsFunc(connection.User.IncludedWriteKeys''', '''		for _, key := range writeKeys {
			if slices.Contains(readKeys, key) {
				continue
			}
			if !slices.ContainsFunc(connection.User.IncludedWriteKeys'''))

# --- added with batch 3 of the independent seeds ---
m("x3-sampler-no-zero-guard", ["C04", "C05"], "X3", "evictKeysWithExpiredTTL|delete:", "background sampler deletes without testing that a deadline is set",
  (K, 'if !ok || entry.ExpireAt == (time.Time{}) || !entry.ExpireAt.Before(server.clock.Now()) {', 'if !ok || !entry.ExpireAt.Before(server.clock.Now()) {'))
m("x3-sampler-unlock-between-test-and-delete", ["C05", "C04"], "X3", "evictKeysWithExpiredTTL|delete:", "background sampler releases the store lock between the expiry test and the deletion",
  (K, """		// Delete the expired key
		deletedCount += 1
""", """		// Delete the expired key
		server.storeLock.Unlock()
		server.storeLock.Lock()
		deletedCount += 1
"""))
m("d3-truncate-no-select-header", ["C02", "C20"], "D3", "truncate-keeps-database-record", "log Truncate writes its SELECT header to nowhere and keeps the recorded database",
  ('internal/aof/log/store.go', """	db := strconv.Itoa(store.currentDatabase)
	_, err := store.rw.Write([]byte(""", """	db := strconv.Itoa(store.currentDatabase)
	_, err := io.Discard.Write([]byte("""))
m("d6-temp-manifest-no-trunc", ["C10"], "D6", "f:written-file-starts-empty:manifest-tmp", "temporary manifest opened without O_TRUNC",
  ('internal/snapshot/snapshot.go', 'os.Create(path.Join(dirname, "manifest.bin.tmp"))', 'os.OpenFile(path.Join(dirname, "manifest.bin.tmp"), os.O_WRONLY|os.O_CREATE, 0644)'))
m("d4-second-local-handler-call", ["C07"], "D4", "b:local-exec-guard#2", "dispatcher gains a second, unguarded local handler invocation before the cluster branch",
  (D, """	// Handle other commands that need to be synced across the cluster
	if server.raft.IsRaftLeader() {""", """	if len(cmd) == 1 {
		return handler(server.getHandlerFuncParams(ctx, cmd, conn))
	}
	// Handle other commands that need to be synced across the cluster
	if server.raft.IsRaftLeader() {"""))
m("a2-guard-hoisted-before-loop", ["C08"], "A2", "adjustMemoryUsage|evict:", "under-limit guard moved from adjustMemoryUsage to before the caller's loop over databases",
  (K, """	for db, _ := range server.store {
		ctx := context.WithValue(ctx, "Database", db)
		if err := server.adjustMemoryUsage(ctx); err != nil {""", """	if uint64(server.memUsed) < server.config.MaxMemory {
		return touchCounter, nil
	}
	for db, _ := range server.store {
		ctx := context.WithValue(ctx, "Database", db)
		if err := server.adjustMemoryUsage(ctx); err != nil {"""),
  (K, """	if uint64(server.memUsed) < server.config.MaxMemory {
		return nil
	}
	// Force a garbage collection first before we start evicting keys.
	runtime.GC()
	if uint64(server.memUsed) < server.config.MaxMemory {
		return nil
	}
""", """	runtime.GC()
"""))

# --- added with the second half of batch 3 ---
m("fa-rename-deletes-first", ["C01", "C08"], "FA", "handleRename|write#1-is-first-mutation", "RENAME deletes the source before it writes the destination",
  (GEN, """	// Set the new key with the old value
	if err := params.SetValues(params.Context, map[string]interface{}{newKey: oldValue}); err != nil {
		return nil, err
	}
""", """	if err := params.DeleteKey(params.Context, oldKey); err != nil {
		return nil, err
	}
	// Set the new key with the old value
	if err := params.SetValues(params.Context, map[string]interface{}{newKey: oldValue}); err != nil {
		return nil, err
	}
"""))
m("n5-victim-deleted-with-request-context", ["C08", "C20", "C19"], "N5", "adjustMemoryUsage|deleteKey-argument-from-database", "eviction victims are deleted with a context carrying another database",
  (K, """		if err := server.adjustMemoryUsage(ctx); err != nil {""", """		if err := server.adjustMemoryUsage(ctx, db); err != nil {"""),
  (K, """		ctx := context.WithValue(ctx, "Database", db)
""", ""),
  (K, """func (server *SugarDB) adjustMemoryUsage(ctx context.Context) error {""", """func (server *SugarDB) adjustMemoryUsage(ctx context.Context, database int) error {"""),
  (K, """	database := ctx.Value("Database").(int)

	// Check if memory usage is above max-memory.""", """	// Check if memory usage is above max-memory."""))
m("sc-resubscribe-unanswered", ["C12", "C18"], "SC", "Subscribe|every-name-confirmed", "Channel.Subscribe reports false for a connection that is already subscribed, so no confirmation is written",
  ('internal/modules/pubsub/channel.go', """	if _, ok := ch.subscribers[conn]; !ok {
		ch.subscribers[conn] = resp.NewConn(*conn)
	}
	_, ok := ch.subscribers[conn]
	return ok""", """	if _, ok := ch.subscribers[conn]; ok {
		return false
	}
	ch.subscribers[conn] = resp.NewConn(*conn)
	return true"""))
m("m2-deletekey-deducts-missing", ["C19"], "M2", "deleteKey|remove-subtracts-only-existing", "deleteKey deducts the size of a key that is not in the store",
  (K, """	if data, ok := server.store[database][key]; ok {
		mem, err := data.GetMem()
		if err != nil {
			return err
		}
		server.memUsed -= mem
		server.memUsed -= int64(unsafe.Sizeof(key))
		server.memUsed -= int64(len(key))
	}
""", """	data := server.store[database][key]
	mem, err := data.GetMem()
	if err != nil {
		return err
	}
	server.memUsed -= mem
	server.memUsed -= int64(unsafe.Sizeof(key))
	server.memUsed -= int64(len(key))
"""))
m("d3-record-starts-at-zero", ["C20", "C02"], "D3", "database-record-starts-unknown", "a new log store assumes the file ends in database 0",
  ('internal/aof/log/store.go', 'currentDatabase: -1,', 'currentDatabase: 0,'))
m("d7-marker-parsed-unsigned", ["C09", "C02", "C20"], "D7", "marker-parse-accepts-writer-values", "the SELECT marker is parsed with ParseUint although the writer can emit -1",
  ('internal/aof/log/store.go', """			database, err = strconv.Atoi(cmd[1])
			if err != nil {
				return err
			}""", """			index, err := strconv.ParseUint(cmd[1], 10, 31)
			if err != nil {
				return err
			}
			database = int(index)"""))
m("u5-authenticated-by-password-count", ["C11"], "U5", "authenticated-iff-nopassword", "a new connection is authenticated when the default user has no stored password",
  (ACL, 'Authenticated: defaultUser.NoPassword,', 'Authenticated: len(defaultUser.Passwords) == 0,'))

# --- added with batch 4 ---
m("tm-ltrim-deletes-before-type-check", ["C15"], "TM", "handleLTrim|DeleteKey", "LTRIM deletes the key for an empty range before it has looked at the stored value",
  ('internal/modules/list/commands.go', """		return nil, fmt.Errorf("end index must be an integer")
	}

	list, ok := params.GetValues(params.Context, []string{key})[key].([]string)
	if !ok {
		return nil, errors.New("LTRIM command on non-list item")
	}
""", """		return nil, fmt.Errorf("end index must be an integer")
	}
	if start >= 0 && end >= 0 && start > end {
		if err = params.DeleteKey(params.Context, key); err != nil {
			return nil, err
		}
		return []byte(constants.OkResponse), nil
	}

	list, ok := params.GetValues(params.Context, []string{key})[key].([]string)
	if !ok {
		return nil, errors.New("LTRIM command on non-list item")
	}
"""))
m("lc-subtract-decrements-for-other-set", ["C16"], "LC", "Subtract|set.Set-length-update", "Subtract decrements the cached cardinality of the result for members tested on the subtrahend",
  ('internal/modules/set/set.go', """			if diff.Contains(k) {
				remove = append(remove, k)
			}""", """			if s.Contains(k) {
				delete(diff.members, k)
				diff.length -= 1
			}"""))
m("dc-hdel-counts-before-deleting", ["C14"], "DC", "handleHDEL|count-step", "HDEL counts the present fields in one pass and deletes in another",
  ('internal/modules/hash/commands.go', """	for _, field := range fields {
		if hash[field] != nil {
			delete(hash, field)
			count += 1
		}
	}
""", """	for _, field := range fields {
		if hash[field] != nil {
			count += 1
		}
	}
	for _, field := range fields {
		delete(hash, field)
	}
"""))
m("dc-del-stale-existence-snapshot", ["C01"], "DC", "handleDel|count-step", "DEL walks its arguments and tests each against an existence snapshot taken before the loop",
  (GEN, """	for key, exists := range params.KeysExist(params.Context, keys.WriteKeys) {
		if !exists {
			continue
		}""", """	existsMap := params.KeysExist(params.Context, keys.WriteKeys)
	for _, key := range keys.WriteKeys {
		if !existsMap[key] {
			continue
		}"""))
m("lp-punsubscribe-explicit-unlock", ["C12", "C05"], "LP", "Unsubscribe|pubsub.PubSub.channelsRWMut", "PUNSUBSCRIBE releases the channel table by an explicit unlock after the loops (glob.MustCompile panics inside)",
  ('internal/modules/pubsub/pubsub.go', """func (ps *PubSub) Unsubscribe(_ context.Context, conn *net.Conn, channels []string, withPattern bool) []byte {
	ps.channelsRWMut.RLock()
	defer ps.channelsRWMut.RUnlock()
""", """func (ps *PubSub) Unsubscribe(_ context.Context, conn *net.Conn, channels []string, withPattern bool) []byte {
	ps.channelsRWMut.RLock()
"""),
  ('internal/modules/pubsub/pubsub.go', """	res := fmt.Sprintf("*%d\\r\\n", len(unsubscribed))
	for key, value := range unsubscribed {""", """	ps.channelsRWMut.RUnlock()
	res := fmt.Sprintf("*%d\\r\\n", len(unsubscribed))
	for key, value := range unsubscribed {"""))
m("mv-smove-adds-before-removing", ["C16"], "MV", "Move|insert-then-remove", "Set.Move inserts into the destination before it removes from the source",
  ('internal/modules/set/set.go', """	set.Remove([]string{e})
	destination.Add([]string{e})""", """	destination.Add([]string{e})
	set.Remove([]string{e})"""))
m("mv-rename-unguarded", ["C01"], "MV", "handleRename|write-then-delete", "RENAME no longer compares the two names",
  (GEN, """	if oldKey == newKey {
		return []byte("+OK\\r\\n"), nil
	}
""", ""))
m("sr-lrem-no-step-back", ["C15"], "SR", "handleLRem|remove-at-index", "LREM (count 0) does not step back after a removal",
  ('internal/modules/list/commands.go', """				absoluteCount += 1
				// The next element has moved into position i: look at it too.
				i--
""", """				absoluteCount += 1
"""))
m("fc-created-channels-appended-after-loop", ["C18"], "FC", "Subscribe|created-element-enters-table", "channels created by SUBSCRIBE are appended to the table after the loop",
  ('internal/modules/pubsub/pubsub.go', """				ps.channels = append(ps.channels, newChan)
			}""", """				created = append(created, newChan)
			}"""),
  ('internal/modules/pubsub/pubsub.go', """	for i := 0; i < len(channels); i++ {
		// Check if channel with given name exists""", """	var created []*Channel
	defer func() { ps.channels = append(ps.channels, created...) }()
	for i := 0; i < len(channels); i++ {
		// Check if channel with given name exists"""))

out = os.path.join(os.path.dirname(os.path.dirname(os.path.abspath(__file__))), 'mutants', 'mutants.json')
os.makedirs(os.path.dirname(out), exist_ok=True)
open(out, 'w').write(json.dumps(M, indent=1) + '\n')
print(len(M), 'mutants written to', out)
