#!/bin/sh
# usage: tools/try_patch.sh <patch-file|-e 'sed-expr' file> -- <svcheck args...>
# Applies a patch (or a sed edit) to a scratch copy of /repo under $TMPDIR, runs svcheck on it, removes the copy.
set -e
V="$(cd "$(dirname "$0")/.." && pwd)"
D="$(mktemp -d "${TMPDIR:-/tmp}/svm.XXXXXX")"
trap 'rm -rf "$D"' EXIT
rsync -a --exclude .git /repo/ "$D/"
if [ "$1" = "-e" ]; then
  sed -i "$2" "$D/$3"; shift 3
  ( cd "$D" && diff -ru /repo/"$3" "$D/$3" >/dev/null 2>&1 ) || true
else
  ( cd "$D" && patch -p1 -s < "$1" ); shift
fi
[ "$1" = "--" ] && shift
export GOFLAGS=-mod=mod GOPROXY=off GOSUMDB=off GOTOOLCHAIN=local GOWORK=off
( cd "$D" && go build ./sugardb/ ./internal/... 2>&1 | grep -v "function main is undeclared\|^#" | head -5 )
SVCHECK_REPO="$D" "$V/bin/svcheck" "$@"
