#!/bin/bash
# usage: tools/check_noalarm.sh [svcheck-binary]
# Applies every behaviour-preserving refactoring under /verif/noalarm/*.diff to a scratch copy of /repo and runs
# every quick check against the copy: any VIOLATION is a false alarm of the checker (exit 1).
BIN=${1:-/verif/bin/svcheck}
SV=$(mktemp -d /tmp/noalarm.verif.XXXX)
cp /verif/properties.jsonl /verif/known_findings.jsonl "$SV/"; mkdir -p "$SV/evidence"
rc=0
for p in /verif/noalarm/*.diff; do
  d=$(mktemp -d /tmp/noalarm.XXXX)
  rsync -a --exclude .git /repo/ "$d/"
  if ! (cd "$d" && patch -p1 -s < "$p" >/dev/null 2>&1); then echo "$(basename $p): PATCH-FAILED (the tree moved on; regenerate the refactoring)"; rm -rf "$d"; rc=2; continue; fi
  (cd "$d" && GOFLAGS=-mod=mod GOPROXY=off GOSUMDB=off GOTOOLCHAIN=local go build ./sugardb/ ./internal/... 2>&1 | grep -v "main is undeclared\|^#" | head -3)
  out=$(SVCHECK_REPO="$d" SVCHECK_VERIF="$SV" "$BIN" -all 2>/dev/null)
  n=$(echo "$out" | grep -c '^VIOLATION')
  echo "$(basename $p): $n violations"
  echo "$out" | grep '^  finding' | cut -c1-240
  [ "$n" -gt 0 ] && rc=1
  rm -rf "$d"
done
rm -rf "$SV"
exit $rc
