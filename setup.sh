#!/bin/sh
# Builds the checker from files on disk only (module cache; no network).
cd "$(dirname "$0")" || exit 2
export GOFLAGS=-mod=mod GOPROXY=off GOSUMDB=off GOTOOLCHAIN=local GOWORK=off
mkdir -p bin evidence
cd checker && go build -o ../bin/svcheck ./cmd/svcheck
