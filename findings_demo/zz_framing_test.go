package sugardb

// Demonstration for the defect repaired by "fix: the connection loop reads commands as RESP frames"
// (property C12; rule FR): the connection loop took whatever one
// read returns for one command. Copy into /repo/sugardb and run
//   go test -vet=off -count=1 -run TestZZ_Framing ./sugardb/
// It fails on the tree before the fix and passes after it.
//
// (1) two complete commands sent in one write get one reply;
// (2) one command sent in two writes gets an error reply for each half;
// (3) a command whose encoding is exactly 8192 bytes long gets no reply until more bytes arrive.

import (
	"bufio"
	"net"
	"strings"
	"testing"
	"time"

	"github.com/echovault/sugardb/internal"
)

func TestZZ_Framing(t *testing.T) {
	port, err := internal.GetFreePort()
	if err != nil {
		t.Fatal(err)
	}
	conf := DefaultConfig()
	conf.BindAddr = "localhost"
	conf.Port = uint16(port)
	server, err := NewSugarDB(WithConfig(conf))
	if err != nil {
		t.Fatal(err)
	}
	go server.Start()
	defer server.ShutDown()
	time.Sleep(100 * time.Millisecond)

	dial := func() (net.Conn, *bufio.Reader) {
		c, err := internal.GetConnection("localhost", port)
		if err != nil {
			t.Fatal(err)
		}
		return c, bufio.NewReader(c)
	}
	readLine := func(c net.Conn, r *bufio.Reader) (string, bool) {
		_ = c.SetReadDeadline(time.Now().Add(2 * time.Second))
		s, err := r.ReadString('\n')
		return strings.TrimSpace(s), err == nil
	}

	t.Run("two commands in one write", func(t *testing.T) {
		c, r := dial()
		defer c.Close()
		_, _ = c.Write([]byte("*1\r\n$4\r\nPING\r\n*1\r\n$4\r\nPING\r\n"))
		first, ok1 := readLine(c, r)
		second, ok2 := readLine(c, r)
		if !ok1 || !ok2 || first != "+PONG" || second != "+PONG" {
			t.Errorf("two pipelined PINGs: replies %q (%v), %q (%v); want +PONG twice", first, ok1, second, ok2)
		}
	})
	t.Run("one command in two writes", func(t *testing.T) {
		c, r := dial()
		defer c.Close()
		_, _ = c.Write([]byte("*2\r\n$4\r\nECHO\r\n$5\r\nhe"))
		time.Sleep(200 * time.Millisecond)
		_, _ = c.Write([]byte("llo\r\n"))
		l1, _ := readLine(c, r)
		l2, _ := readLine(c, r)
		if l1 != "$5" || l2 != "hello" {
			t.Errorf("ECHO hello sent in two writes: reply lines %q, %q; want $5, hello", l1, l2)
		}
	})
	t.Run("a command of exactly 8192 bytes", func(t *testing.T) {
		c, r := dial()
		defer c.Close()
		head := "*2\r\n$4\r\nECHO\r\n$8166\r\n" // 22 bytes + 8166 + 2 (CRLF) = 8190 ... adjusted below
		n := 8192 - len(head) - 2
		head = strings.Replace(head, "8166", "", 1)
		_ = n
		payloadLen := 8192 - len("*2\r\n$4\r\nECHO\r\n$") - len("\r\n") - len("\r\n") - 4
		msg := "*2\r\n$4\r\nECHO\r\n$" + itoa(payloadLen) + "\r\n" + strings.Repeat("x", payloadLen) + "\r\n"
		if len(msg) != 8192 {
			t.Fatalf("test construction: message has %d bytes", len(msg))
		}
		_, _ = c.Write([]byte(msg))
		l1, ok := readLine(c, r)
		if !ok || l1 != "$"+itoa(payloadLen) {
			t.Errorf("ECHO of a value that makes the command 8192 bytes long: first reply line %q (%v); want $%d", l1, ok, payloadLen)
		}
	})
}

func itoa(n int) string {
	if n == 0 {
		return "0"
	}
	s := ""
	for n > 0 {
		s = string(rune('0'+n%10)) + s
		n /= 10
	}
	return s
}
