package sugardb

// Demonstration for the defect repaired by
//   "fix: AOF restore drops an incomplete final record, so later appends start on a record boundary"
// (property C02; rule D7 restore-trims-incomplete-tail). Copy into /repo/sugardb and run
//   go test -vet=off -count=1 -run TestZZ_TornFinalRecord ./sugardb/
// It fails on the tree before the fix and passes after it.
//
// The process dies while appending a record: the log ends in half a command. The next start restores
// everything before it - and left the fragment in the file. The log is opened O_APPEND, so every write
// acknowledged from then on was appended behind the fragment; at the following start the parser read
// the fragment together with the next record, failed, and all those writes were gone.

import (
	"os"
	"path"
	"testing"
)

func TestZZ_TornFinalRecord(t *testing.T) {
	dataDir := path.Join(".", "testdata", "zz_torn_final_record")
	_ = os.RemoveAll(dataDir)
	t.Cleanup(func() { _ = os.RemoveAll(dataDir) })

	conf := DefaultConfig()
	conf.RestoreAOF = true
	conf.DataDir = dataDir
	conf.AOFSyncStrategy = "always"

	start := func() *SugarDB {
		s, err := NewSugarDB(WithConfig(conf))
		if err != nil {
			t.Fatal(err)
		}
		return s
	}
	want := func(s *SugarDB, key, value string) {
		t.Helper()
		if got, err := s.Get(key); err != nil || got != value {
			t.Errorf("GET %s = %q, %v; want %q", key, got, err, value)
		}
	}

	s := start()
	if _, _, err := s.Set("before", "crash", SETOptions{}); err != nil {
		t.Fatal(err)
	}
	s.ShutDown()

	// the crash: half a record at the end of the log
	f, err := os.OpenFile(path.Join(dataDir, "aof", "log.aof"), os.O_WRONLY|os.O_APPEND, 0)
	if err != nil {
		t.Fatal(err)
	}
	if _, err = f.Write([]byte("*3\r\n$3\r\nSET\r\n$4\r\nhalf\r\n$5\r\nwri")); err != nil {
		t.Fatal(err)
	}
	_ = f.Close()

	// recovery: the prefix is served, and the server is durable again
	s = start()
	want(s, "before", "crash")
	if _, _, err := s.Set("after", "recovery", SETOptions{}); err != nil {
		t.Fatal(err)
	}
	want(s, "after", "recovery")
	s.ShutDown()

	s = start()
	defer s.ShutDown()
	want(s, "before", "crash")
	want(s, "after", "recovery") // acknowledged after the recovery: must survive the next restart
}
