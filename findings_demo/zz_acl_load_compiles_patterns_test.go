package acl_test

import (
	"os"
	"path/filepath"
	"strings"
	"testing"

	"github.com/echovault/sugardb/internal"
	"github.com/echovault/sugardb/internal/config"
	"github.com/echovault/sugardb/internal/constants"
	"github.com/echovault/sugardb/sugardb"
	"github.com/tidwall/resp"
)

// Demonstration for the defect repaired by "fix: ACL LOAD compiles the patterns of the users it
// installs" (properties C06, C11; rule GL). Copy into /repo/internal/modules/acl and run
//   go test -vet=off -count=1 -run TestZZ_LoadedPatternsAreCompiled ./internal/modules/acl/
// A user brought in by ACL LOAD with a key pattern no earlier user had: before the fix the
// authorizer dereferenced the missing compiled pattern and every command of that user that names a
// key was answered with a recovered-panic error instead of being authorized by the loaded rules.
func TestZZ_LoadedPatternsAreCompiled(t *testing.T) {
	aclFile := filepath.Join(t.TempDir(), "acl.json")
	if err := os.WriteFile(aclFile, []byte("[]"), 0o644); err != nil {
		t.Fatal(err)
	}

	port, err := internal.GetFreePort()
	if err != nil {
		t.Fatal(err)
	}
	server, err := sugardb.NewSugarDB(sugardb.WithConfig(config.Config{
		BindAddr:       "localhost",
		Port:           uint16(port),
		DataDir:        "",
		EvictionPolicy: constants.NoEviction,
		RequirePass:    true,
		Password:       "adminpw",
		AclConfig:      aclFile,
	}))
	if err != nil {
		t.Fatal(err)
	}
	go server.Start()
	t.Cleanup(server.ShutDown)

	dial := func() *resp.Conn {
		c, err := internal.GetConnection("localhost", port)
		if err != nil {
			t.Fatal(err)
		}
		t.Cleanup(func() { _ = c.Close() })
		return resp.NewConn(c)
	}
	do := func(c *resp.Conn, args ...string) resp.Value {
		vals := make([]resp.Value, len(args))
		for i, a := range args {
			vals[i] = resp.StringValue(a)
		}
		if err := c.WriteArray(vals); err != nil {
			t.Fatal(err)
		}
		v, _, err := c.ReadValue()
		if err != nil {
			t.Fatal(err)
		}
		return v
	}

	admin := dial()
	if v := do(admin, "AUTH", "adminpw"); !strings.EqualFold(v.String(), "ok") {
		t.Fatalf("admin AUTH: %q", v.String())
	}

	users := `[{"Username":"reporter","Enabled":true,"NoPassword":false,"NoKeys":false,
"Passwords":[{"PasswordType":"plaintext","PasswordValue":"reporterpw"}],
"IncludedCategories":["*"],"ExcludedCategories":[],
"IncludedCommands":["*"],"ExcludedCommands":[],
"IncludedReadKeys":["report:*"],"IncludedWriteKeys":["report:*"],
"IncludedPubSubChannels":["*"],"ExcludedPubSubChannels":[]}]`
	if err := os.WriteFile(aclFile, []byte(users), 0o644); err != nil {
		t.Fatal(err)
	}
	if v := do(admin, "ACL", "LOAD", "REPLACE"); !strings.EqualFold(v.String(), "ok") {
		t.Fatalf("ACL LOAD: %q", v.String())
	}
	reporter := dial()
	if v := do(reporter, "AUTH", "reporter", "reporterpw"); !strings.EqualFold(v.String(), "ok") {
		t.Fatalf("reporter AUTH: %q", v.String())
	}
	if v := do(reporter, "SET", "report:1", "x"); !strings.EqualFold(v.String(), "ok") {
		t.Errorf("SET report:1 by a user whose loaded rules allow report:* was not executed: %v", v)
	}
	if v := do(reporter, "GET", "report:1"); v.String() != "x" {
		t.Errorf("GET report:1 = %v, want x", v)
	}
	if v := do(reporter, "SET", "other:1", "x"); v.Type() != resp.Error {
		t.Errorf("SET other:1 outside the loaded patterns was not refused: %v", v)
	}
}
