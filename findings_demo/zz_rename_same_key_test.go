package sugardb

// Demonstration for the defect repaired by "fix: RENAME of a key onto itself keeps the key"
// (property C01). Copy into /repo/sugardb and run
//   go test -vet=off -count=1 -run TestZZ_RenameOntoItselfKeepsKey ./sugardb/
// It fails on the tree before the fix and passes after it.

import "testing"

func TestZZ_RenameOntoItselfKeepsKey(t *testing.T) {
	server, err := NewSugarDB(WithConfig(DefaultConfig()))
	if err != nil {
		t.Fatal(err)
	}
	defer server.ShutDown()
	if _, _, err = server.Set("k", "v", SETOptions{}); err != nil {
		t.Fatal(err)
	}
	if _, err = server.Rename("k", "k"); err != nil {
		t.Fatalf("RENAME k k: %v", err)
	}
	got, err := server.Get("k")
	if err != nil {
		t.Fatal(err)
	}
	if got != "v" {
		t.Fatalf("after SET k v; RENAME k k: GET k = %q, want \"v\" (the key was deleted)", got)
	}
}
