package sugardb

// Demonstration for the defect repaired by "fix: deleting a key that is not in the store leaves the
// memory counter unchanged" (property C19). Copy into /repo/sugardb and run
//   go test -vet=off -count=1 -run TestZZ_DeleteMissingKeyKeepsMemoryCounter ./sugardb/
// It fails on the tree before the fix and passes after it.

import (
	"sync/atomic"
	"testing"
	"time"
)

// tickClock is a legitimate clock: every reading is one second later than the previous one.
type tickClock struct{ n *atomic.Int64 }

func (c tickClock) Now() time.Time {
	base, _ := time.Parse(time.RFC3339, "2006-01-02T15:04:05+07:00")
	return base.Add(time.Duration(c.n.Add(1)) * time.Second)
}
func (c tickClock) After(d time.Duration) <-chan time.Time { return time.After(d) }

func TestZZ_DeleteMissingKeyKeepsMemoryCounter(t *testing.T) {
	server, err := NewSugarDB(WithConfig(DefaultConfig()))
	if err != nil {
		t.Fatal(err)
	}
	defer server.ShutDown()
	var n atomic.Int64
	server.clock = tickClock{&n}

	if _, _, err = server.Set("other", "value", SETOptions{}); err != nil {
		t.Fatal(err)
	}
	base := server.GetServerInfo().MemoryUsed

	// A key whose deadline passes between the existence test and the value read of GETDEL:
	// the read removes it lazily, then the handler deletes it again. Which GETDEL straddles the
	// deadline depends on the parity of the clock readings, so several offsets are tried.
	for offset := 2; offset <= 5; offset++ {
		if _, _, err = server.Set("k", "v", SETOptions{}); err != nil {
			t.Fatal(err)
		}
		now := server.clock.Now()
		if _, err = server.ExpireAt("k", int(now.Add(time.Duration(offset)*time.Second).Unix())); err != nil {
			t.Fatal(err)
		}
		for i := 0; i < 8; i++ {
			_, _ = server.GetDel("k")
		}
		if got := server.GetServerInfo().MemoryUsed; got != base {
			t.Fatalf("offset %d: memory counter is %d after k is gone, want %d (the size of the dataset {other}): deleting the already removed key was deducted again", offset, got, base)
		}
	}
}
