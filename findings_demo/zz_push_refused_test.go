package sugardb

// Demonstration for the defect repaired by "fix: a refused LPUSH/RPUSH on a new key does not leave an
// empty list behind" (properties C08, C01). Copy into /repo/sugardb and run
//   go test -vet=off -count=1 -run TestZZ_RefusedPushChangesNothing ./sugardb/
// It fails on the tree before the fix and passes after it.

import (
	"strings"
	"testing"

	"github.com/echovault/sugardb/internal/constants"
)

func TestZZ_RefusedPushChangesNothing(t *testing.T) {
	for _, push := range []string{"LPUSH", "RPUSH"} {
		conf := DefaultConfig()
		conf.EvictionPolicy = constants.NoEviction
		conf.MaxMemory = 390
		server, err := NewSugarDB(WithConfig(conf))
		if err != nil {
			t.Fatal(err)
		}
		// fill to just under the limit: every write is admitted while usage < limit
		i := 0
		for ; i < 100; i++ {
			if int(server.GetServerInfo().MemoryUsed) > 390-60 {
				break
			}
			if _, _, err = server.Set(string(rune('a'+i)), "x", SETOptions{}); err != nil {
				break
			}
		}
		// room for the empty list the handler creates first, not for the list with its elements
		var perr error
		if push == "LPUSH" {
			_, perr = server.LPush("newlist", strings.Repeat("v", 64))
		} else {
			_, perr = server.RPush("newlist", strings.Repeat("v", 64))
		}
		if perr == nil {
			// the whole push was admitted: try once more, now over the limit from the start
			server.ShutDown()
			continue
		}
		typ, terr := server.Type("newlist")
		server.ShutDown()
		if terr == nil && typ != "" {
			t.Fatalf("%s newlist was refused (%v) but the key exists afterwards (an empty list was left behind)", push, perr)
		}
	}
}
