package sugardb

// Demonstration for the defect repaired by
//   "fix: Flush of a database that was never created is a no-op instead of a nil dereference"
// (properties C02, C20; rule NX). Copy into /repo/sugardb and run
//   go test -vet=off -count=1 -run TestZZ_FlushOfUnknownDatabase ./sugardb/
// It fails on the tree before the fix and passes after it.
//
// A client selects a scratch database and empties it before use (SELECT 3, FLUSHDB). SELECT creates the
// database on the running instance only; FLUSHDB is logged. At the next start with AOF restore the replay
// reaches Flush(3) on an instance that has no database 3: the per-database caches are nil and the
// constructor panics - on every later start too, since the log keeps the record.

import (
	"os"
	"path"
	"strings"
	"testing"
	"time"

	"github.com/echovault/sugardb/internal"
	"github.com/tidwall/resp"
)

func TestZZ_FlushOfUnknownDatabase(t *testing.T) {
	dataDir := path.Join(".", "testdata", "zz_flush_unknown_db")
	_ = os.RemoveAll(dataDir)
	t.Cleanup(func() { _ = os.RemoveAll(dataDir) })

	port, err := internal.GetFreePort()
	if err != nil {
		t.Fatal(err)
	}
	conf := DefaultConfig()
	conf.BindAddr = "localhost"
	conf.Port = uint16(port)
	conf.RestoreAOF = true
	conf.DataDir = dataDir
	conf.AOFSyncStrategy = "always"

	server, err := NewSugarDB(WithConfig(conf))
	if err != nil {
		t.Fatal(err)
	}
	go server.Start()
	time.Sleep(100 * time.Millisecond)

	c, err := internal.GetConnection("localhost", port)
	if err != nil {
		t.Fatal(err)
	}
	conn := resp.NewConn(c)
	do := func(args ...string) string {
		vals := make([]resp.Value, len(args))
		for i, a := range args {
			vals[i] = resp.StringValue(a)
		}
		if err := conn.WriteArray(vals); err != nil {
			t.Fatal(err)
		}
		v, _, err := conn.ReadValue()
		if err != nil {
			t.Fatal(err)
		}
		return v.String()
	}
	if r := do("SET", "kept", "1"); !strings.EqualFold(r, "ok") {
		t.Fatalf("SET: %q", r)
	}
	if r := do("SELECT", "3"); !strings.EqualFold(r, "ok") {
		t.Fatalf("SELECT: %q", r)
	}
	if r := do("FLUSHDB"); !strings.EqualFold(r, "ok") {
		t.Fatalf("FLUSHDB: %q", r)
	}
	_ = c.Close()
	server.ShutDown()

	// restart: the embedded Flush of a database nobody created must not crash either
	func() {
		defer func() {
			if r := recover(); r != nil {
				t.Fatalf("restart with AOF restore panicked while replaying FLUSHDB of database 3: %v", r)
			}
		}()
		conf.Port = 0
		restarted, err := NewSugarDB(WithConfig(conf))
		if err != nil {
			t.Fatal(err)
		}
		defer restarted.ShutDown()
		if v, err := restarted.Get("kept"); err != nil || v != "1" {
			t.Errorf("after restart GET kept = %q, %v; want \"1\"", v, err)
		}
		restarted.Flush(7)
	}()
}
