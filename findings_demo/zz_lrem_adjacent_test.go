package sugardb

// Demonstration for the defect repaired by "fix: LREM removes adjacent matches" (property C15).
// Copy into /repo/sugardb and run
//   go test -vet=off -count=1 -run TestZZ_LRemAdjacentMatches ./sugardb/
// It fails on the tree before the fix and passes after it.

import (
	"reflect"
	"testing"
)

func TestZZ_LRemAdjacentMatches(t *testing.T) {
	server, err := NewSugarDB(WithConfig(DefaultConfig()))
	if err != nil {
		t.Fatal(err)
	}
	defer server.ShutDown()
	for _, tc := range []struct {
		count int
		want  []string
	}{
		{0, []string{"b"}},           // remove every a
		{3, []string{"b", "a"}},      // remove the first three a
		{-3, []string{"a", "b"}},     // remove the last three a
	} {
		_, _ = server.Del("l")
		if _, err = server.RPush("l", "a", "a", "b", "a", "a"); err != nil {
			t.Fatal(err)
		}
		if _, err = server.LRem("l", tc.count, "a"); err != nil {
			t.Fatal(err)
		}
		got, err := server.LRange("l", 0, -1)
		if err != nil {
			t.Fatal(err)
		}
		if len(got) == 0 {
			got = []string{}
		}
		if !reflect.DeepEqual(got, tc.want) {
			t.Errorf("RPUSH l a a b a a; LREM l %d a: list = %v, want %v", tc.count, got, tc.want)
		}
	}
}
