package sugardb

// Demonstration for the defect repaired by
//   "fix: authorization no longer appends to the command's key list"
// (properties C04, C06; rule CM). Copy into /repo/sugardb and run
//   go test -vet=off -count=1 -run TestZZ_AuthorizeKeepsCommand ./sugardb/
// It fails on the tree before the fix (GETEX k EX 100 by an authenticated client ran as GETEX k k 100) and passes after it.

import (
	"strings"
	"testing"
	"time"

	"github.com/echovault/sugardb/internal"
	"github.com/tidwall/resp"
)

func TestZZ_AuthorizeKeepsCommand(t *testing.T) {
	port, err := internal.GetFreePort()
	if err != nil {
		t.Fatal(err)
	}
	conf := DefaultConfig()
	conf.BindAddr = "localhost"
	conf.Port = uint16(port)
	conf.RequirePass = true
	conf.Password = "pw"
	server, err := NewSugarDB(WithConfig(conf))
	if err != nil {
		t.Fatal(err)
	}
	go server.Start()
	defer server.ShutDown()
	time.Sleep(100 * time.Millisecond)
	c, err := internal.GetConnection("localhost", port)
	if err != nil {
		t.Fatal(err)
	}
	defer c.Close()
	conn := resp.NewConn(c)
	do := func(args ...string) resp.Value {
		vals := make([]resp.Value, len(args))
		for i, a := range args {
			vals[i] = resp.StringValue(a)
		}
		if err := conn.WriteArray(vals); err != nil {
			t.Fatal(err)
		}
		v, _, err := conn.ReadValue()
		if err != nil {
			t.Fatal(err)
		}
		return v
	}
	if r := do("AUTH", "pw"); !strings.EqualFold(r.String(), "ok") {
		t.Fatalf("AUTH: %v", r)
	}
	do("SET", "k", "v")
	r := do("GETEX", "k", "EX", "100")
	t.Logf("GETEX k EX 100 -> %q (type %v)", r.String(), r.Type())
	ttl := do("TTL", "k")
	t.Logf("TTL k -> %v", ttl)
	if ttl.Integer() <= 0 {
		t.Errorf("GETEX k EX 100 by an authenticated client did not set the deadline: TTL %v, reply %q", ttl, r.String())
	}
}
