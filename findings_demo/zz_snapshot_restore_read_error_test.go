package snapshot

// Demonstration for the defect repaired by "fix: snapshot restore reports a state file it cannot read"
// (properties C03, C10; rule D6 i:restore-success-publishes). Copy into /repo/internal/snapshot and run
//   go test -vet=off -count=1 -run TestZZ_RestoreReportsUnreadableState ./internal/snapshot/
// Before the fix Restore returned nil when reading the state file failed: start-up went on with an
// empty dataset and logged nothing, although the manifest names a snapshot.

import (
	"encoding/json"
	"os"
	"path"
	"testing"

	"github.com/echovault/sugardb/internal"
	"github.com/echovault/sugardb/internal/clock"
)

func TestZZ_RestoreReportsUnreadableState(t *testing.T) {
	dir := t.TempDir()
	// a manifest that names snapshot 1000, whose state.bin cannot be read (it is a directory)
	if err := os.MkdirAll(path.Join(dir, "snapshots", "1000", "state.bin"), os.ModePerm); err != nil {
		t.Fatal(err)
	}
	mb, _ := json.Marshal(Manifest{LatestSnapshotMilliseconds: 1000})
	if err := os.WriteFile(path.Join(dir, "snapshots", "manifest.bin"), mb, 0o644); err != nil {
		t.Fatal(err)
	}
	restored := 0
	engine := NewSnapshotEngine(
		WithClock(clock.NewClock()),
		WithDirectory(dir),
		WithSetKeyDataFunc(func(database int, key string, data internal.KeyData) { restored++ }),
	)
	if err := engine.Restore(); err == nil {
		t.Fatalf("Restore reported success although the state file of the snapshot named by the manifest could not be read (%d keys restored)", restored)
	}
}
