package pubsub

// Demonstration for the open finding BL|internal/modules/pubsub.(*PubSub).Subscribe|connection-write
// (properties C12, C18). Copy into /repo/internal/modules/pubsub and run
//   go test -vet=off -count=1 -run TestZZ_SubscribeWritesUnderTableLock ./internal/modules/pubsub/
// The test PASSES while the defect is present: it shows that a subscriber whose connection is not
// being read blocks every other connection's PUBLISH (the confirmation is written while the channel
// table's write lock is held, and socket writes have no deadline).

import (
	"context"
	"net"
	"testing"
	"time"
)

func TestZZ_SubscribeWritesUnderTableLock(t *testing.T) {
	ps := NewPubSub()
	server, client := net.Pipe() // client end is never read: the write of the confirmation blocks
	defer client.Close()
	go ps.Subscribe(context.Background(), &server, []string{"a"}, false)
	time.Sleep(200 * time.Millisecond)
	done := make(chan struct{})
	go func() {
		ps.Publish(context.Background(), "hello", "b") // another client's PUBLISH to another channel
		close(done)
	}()
	select {
	case <-done:
		t.Fatalf("PUBLISH completed: the confirmation is no longer written under the table lock (defect repaired?)")
	case <-time.After(2 * time.Second):
		t.Log("PUBLISH from another connection is blocked behind a SUBSCRIBE whose client does not read its confirmation")
	}
}
