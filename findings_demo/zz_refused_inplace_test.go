package sugardb

// Demonstration for the defects repaired by
//   "fix: HDEL and HINCRBY work on a copy of the stored hash, so a refused write leaves it unchanged"
//   "fix: LSET, LREM and LMOVE build their result in a new slice, so a refused write leaves the stored lists unchanged"
// (properties C14, C15; rule FI). Copy into /repo/sugardb and run
//   go test -vet=off -count=1 -run TestZZ_RefusedWriteLeavesValue ./sugardb/
// It fails on the tree before the fixes and passes after them.

import (
	"fmt"
	"reflect"
	"strings"
	"testing"

	"github.com/echovault/sugardb/internal/constants"
)

func TestZZ_RefusedWriteLeavesValue(t *testing.T) {
	conf := DefaultConfig()
	conf.EvictionPolicy = constants.NoEviction
	conf.MaxMemory = 2000
	server, err := NewSugarDB(WithConfig(conf))
	if err != nil {
		t.Fatal(err)
	}
	defer server.ShutDown()
	server.RPush("l", "a", "b", "c")
	server.RPush("src", "s1", "s2", "s3")
	server.RPush("dst", "d1", "d2")
	server.HSet("h", map[string]string{"f": "1", "g": "2"})
	// fill up to the limit: from here on every SetValues is refused
	for i := 0; i < 1000; i++ {
		if _, _, err := server.Set(fmt.Sprintf("fill%d", i), strings.Repeat("x", 40), SETOptions{}); err != nil {
			break
		}
	}
	list := func(k string) []string { l, _ := server.LRange(k, 0, -1); return l }
	if _, err := server.LSet("l", 1, "CHANGED"); err == nil {
		t.Skip("the server is not at its limit")
	}
	if got := list("l"); !reflect.DeepEqual(got, []string{"a", "b", "c"}) {
		t.Errorf("refused LSET changed the list: %v", got)
	}
	if _, err := server.LRem("l", 0, "a"); err != nil {
		if got := list("l"); !reflect.DeepEqual(got, []string{"a", "b", "c"}) {
			t.Errorf("refused LREM changed the list: %v", got)
		}
	}
	if _, err := server.LMove("src", "dst", "LEFT", "LEFT"); err != nil {
		if got := list("src"); !reflect.DeepEqual(got, []string{"s1", "s2", "s3"}) {
			t.Errorf("refused LMOVE changed the source list: %v", got)
		}
	}
	if _, err := server.HIncrBy("h", "f", 5); err != nil {
		if v, _ := server.HGet("h", "f"); len(v) != 1 || v[0] != "1" {
			t.Errorf("refused HINCRBY changed the field: %v", v)
		}
	}
	if _, err := server.HDel("h", "g"); err != nil {
		if n, _ := server.HLen("h"); n != 2 {
			t.Errorf("refused HDEL changed the hash: HLEN %d", n)
		}
	}
}
